package main

// Private fields and types of the library are referred to by ROLE in the rules ("ctx.blockProcessed", type "cache").
// The role of a field is derived from the public API around it, so that renaming a private field or type changes
// nothing for the rules. A role whose canonical name exists keeps it; otherwise the derivations below are tried; a role
// that cannot be derived stays unresolved (the rules that need it fail with an unresolved anchor).

import (
	"go/ast"
	"go/types"
	"strings"
)

func (p *Program) fieldRole(fv *types.Var, name string) string {
	if fv != nil {
		if r, ok := p.FieldAlias[fv.Origin()]; ok {
			return r
		}
	}
	return name
}

func (p *Program) typeRole(name string) string {
	if r, ok := p.TypeAlias[name]; ok {
		return r
	}
	return name
}

// fieldByName returns the field object of a struct.
func fieldByName(st *types.Struct, name string) *types.Var {
	for i := 0; i < st.NumFields(); i++ {
		if st.Field(i).Name() == name {
			return st.Field(i)
		}
	}
	return nil
}

func (p *Program) deriveAliases() {
	p.FieldAlias = map[*types.Var]string{}
	p.TypeAlias = map[string]string{}
	ctx := p.Structs["Context"]
	dbft := p.Structs["DBFT"]
	if ctx == nil || dbft == nil {
		return
	}
	root := p.Pkgs[""]
	info := root.TypesInfo
	claimed := map[*types.Var]bool{}
	set := func(st *types.Struct, role string, fv *types.Var) {
		if fv == nil || fieldByName(st, role) != nil || claimed[fv.Origin()] {
			return
		}
		if _, taken := p.FieldAlias[fv.Origin()]; taken {
			return
		}
		p.FieldAlias[fv.Origin()] = role
		claimed[fv.Origin()] = true
	}
	selField := func(e ast.Expr) *types.Var {
		if sel, ok := ast.Unparen(e).(*ast.SelectorExpr); ok {
			if s := info.Selections[sel]; s != nil && s.Kind() == types.FieldVal {
				return s.Obj().(*types.Var).Origin()
			}
		}
		return nil
	}
	ownerIs := func(fv *types.Var, owner string) bool { return fv != nil && p.FieldOwner[fv] == owner }
	method := func(recv, name string) *FuncInfo { return p.ByName[recv+"."+name] }
	// fields returned by public accessors
	returned := func(fn *FuncInfo) *types.Var {
		var out *types.Var
		if fn == nil {
			return nil
		}
		ast.Inspect(fn.Decl.Body, func(n ast.Node) bool {
			if rs, ok := n.(*ast.ReturnStmt); ok && len(rs.Results) == 1 {
				if fv := selField(rs.Results[0]); ownerIs(fv, "Context") {
					out = fv
				}
			}
			return true
		})
		return out
	}
	set(ctx, "blockProcessed", returned(method("Context", "BlockSent")))
	set(ctx, "header", returned(method("Context", "Header")))
	set(ctx, "preHeader", returned(method("Context", "PreHeader")))
	set(ctx, "preBlock", returned(method("Context", "PreBlock")))
	set(ctx, "block", returned(method("Context", "CreateBlock")))
	// per function: calls made (callback / method names) and assignments to Context fields
	type asg struct {
		fv  *types.Var
		rhs ast.Expr
	}
	for _, fn := range p.sortedFuncs() {
		if fn.Pkg != root {
			continue
		}
		calls := map[string]bool{}
		var asgs []asg
		ast.Inspect(fn.Decl.Body, func(n ast.Node) bool {
			switch x := n.(type) {
			case *ast.CallExpr:
				if sel, ok := ast.Unparen(x.Fun).(*ast.SelectorExpr); ok {
					calls[sel.Sel.Name] = true
				}
			case *ast.AssignStmt:
				if len(x.Lhs) == len(x.Rhs) {
					for i, l := range x.Lhs {
						if fv := selField(l); ownerIs(fv, "Context") {
							asgs = append(asgs, asg{fv, x.Rhs[i]})
						}
					}
				}
			}
			return true
		})
		isTrue := func(e ast.Expr) bool { id, ok := ast.Unparen(e).(*ast.Ident); return ok && id.Name == "true" }
		isBool := func(fv *types.Var) bool {
			b, ok := fv.Type().Underlying().(*types.Basic)
			return ok && b.Kind() == types.Bool
		}
		callOf := func(e ast.Expr) string {
			if c, ok := ast.Unparen(e).(*ast.CallExpr); ok {
				if sel, ok := ast.Unparen(c.Fun).(*ast.SelectorExpr); ok {
					return sel.Sel.Name
				}
			}
			return ""
		}
		var nowField, idxField, viewField *types.Var
		for _, a := range asgs {
			switch {
			case calls["ProcessPreBlock"] && isBool(a.fv) && isTrue(a.rhs):
				set(ctx, "preBlockProcessed", a.fv)
			case calls["SubscribeForTxs"] && isBool(a.fv):
				set(ctx, "txSubscriptionOn", a.fv)
			case callOf(a.rhs) == "TimePerBlock":
				set(ctx, "timePerBlock", a.fv)
			case callOf(a.rhs) == "MaxTimePerBlock":
				set(ctx, "maxTimePerBlock", a.fv)
			}
			if id, ok := ast.Unparen(a.rhs).(*ast.Ident); ok && fn.Recv == "Context" {
				if v, ok := info.Uses[id].(*types.Var); ok {
					for _, prm := range fn.Params {
						if prm == v && types.Identical(prm.Type(), types.Typ[types.Uint64]) {
							set(ctx, "lastBlockTimestamp", a.fv)
						}
					}
				}
			}
			if callOf(a.rhs) == "Now" && namedName(a.fv.Type()) == "Time" {
				nowField = a.fv
			}
			if fv := selField(a.rhs); ownerIs(fv, "Context") {
				switch fv.Name() {
				case "BlockIndex":
					idxField = a.fv
				case "ViewNumber":
					viewField = a.fv
				}
			}
		}
		if nowField != nil && idxField != nil && viewField != nil {
			set(ctx, "lastBlockTime", nowField)
			set(ctx, "lastBlockIndex", idxField)
			set(ctx, "lastBlockView", viewField)
		}
	}
	// the other time.Time field is the moment the own proposal was sent
	if fieldByName(ctx, "prepareSentTime") == nil {
		var others []*types.Var
		for i := 0; i < ctx.NumFields(); i++ {
			f := ctx.Field(i)
			if namedName(f.Type()) == "Time" && namedPkgPath(f.Type()) == "time" && f.Name() != "lastBlockTime" && p.FieldAlias[f.Origin()] != "lastBlockTime" {
				others = append(others, f)
			}
		}
		if len(others) == 1 {
			set(ctx, "prepareSentTime", others[0])
		}
	}
	// structural types: the RTT estimator (a struct holding an array of durations), the future-message cache (a struct
	// holding a map keyed by height) and its per-height inbox
	for i := 0; i < ctx.NumFields(); i++ {
		f := ctx.Field(i)
		if st, ok := f.Type().Underlying().(*types.Struct); ok {
			for j := 0; j < st.NumFields(); j++ {
				if arr, ok := st.Field(j).Type().Underlying().(*types.Array); ok && namedName(arr.Elem()) == "Duration" {
					set(ctx, "rttEstimates", f)
					if n := namedName(f.Type()); n != "" && n != "rtt" {
						p.TypeAlias[n] = "rtt"
					}
				}
			}
		}
	}
	for i := 0; i < dbft.NumFields(); i++ {
		f := dbft.Field(i)
		st, ok := f.Type().Underlying().(*types.Struct)
		if !ok || f.Embedded() {
			continue
		}
		for j := 0; j < st.NumFields(); j++ {
			m, ok := st.Field(j).Type().Underlying().(*types.Map)
			if !ok || !types.Identical(m.Key(), types.Typ[types.Uint32]) {
				continue
			}
			set(dbft, "cache", f)
			if n := namedName(f.Type()); n != "" && n != "cache" {
				p.TypeAlias[n] = "cache"
			}
			if n := namedName(m.Elem()); n != "" && n != "inbox" {
				p.TypeAlias[n] = "inbox"
			}
		}
	}
	// apply the type roles to the indexes built by the loader
	for from, to := range p.TypeAlias {
		if st, ok := p.Structs[from]; ok {
			if _, clash := p.Structs[to]; !clash {
				p.Structs[to] = st
			}
		}
		for fv, owner := range p.FieldOwner {
			if owner == from {
				p.FieldOwner[fv] = to
			}
		}
		for _, fn := range p.Funcs {
			if fn.Recv == from && fn.Pkg == root {
				fn.Recv = to
			}
		}
	}
	_ = strings.TrimSpace
}
