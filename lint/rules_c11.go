package main

// C11: input hygiene — effect-free prefixes, index provenance, optional callbacks, derefs.

import (
	"fmt"
	"go/ast"
	"go/types"
	"sort"

	"golang.org/x/tools/go/types/typeutil"
	"strings"
)

var _ = ast.Inspect

func init() {
	propertyRules["C11"] = []ruleFn{rulePrefix, ruleIdx, ruleOptionalCB, rulePreCommitEnabled, ruleDeref, ruleStaleIndex, ruleViewResetCover, ruleDefs, ruleRejectedNoTimer, ruleCVPending, ruleMissingRebuilt}
	propertyExplain["C11"] = "G-PREFIX: in each handler every effect site (state write other than the liveness note, effectful callback, typed send, call of an effectful function) is behind that handler's admission condition, so inadmissible or duplicate inputs reach no effect; IDX: every index into a per-validator table or the validator list is a range key, an admitted sender index, MyIndex under MyIndex>=0, or the primary index; G-OPTIONAL-CB: callbacks checkConfig allows to be nil are called only under their enabling fact; G-DEREF: stored slots are dereferenced only when known non-nil; STALE-INDEX. Panic freedom is decided for these classes only (not for nil results of application callbacks, type assertions in payload implementations, division by a zero increment, misuse before Start)."
}

// handlers: MessageType constant -> handler function, from the switch in OnReceive.
func (c *RC) handlers() map[string]*FuncInfo {
	out := map[string]*FuncInfo{}
	or := c.API["OnReceive"]
	if or == nil {
		return out
	}
	kinds := []string{"ChangeViewType", "PrepareRequestType", "PrepareResponseType", "PreCommitType", "CommitType", "RecoveryRequestType", "RecoveryMessageType"}
	m := msgParam()
	ty := getter("ConsensusMessage", "Type", m, false)
	_ = ty
	// a handler of kind K is a function called with the received payload (the caller's own payload parameter, passed
	// through from OnReceive) at a site where every path knows Type() == K; the dispatch may live in OnReceive or in
	// a helper it calls
	disp := map[*FuncInfo]bool{or: true}
	for _, s := range c.A.FnSites[or] {
		if s.Kind == "call" && s.Target != nil && len(s.Target.Params) == 1 && isPayloadLike(s.Target.Params[0].Type()) && c.A.inlinable(s.Target) {
			disp[s.Target] = true
		}
	}
	best := map[string]*FuncInfo{}
	for fn := range disp {
		if len(fn.Params) != 1 {
			continue
		}
		cand := map[string]*FuncInfo{}
		pt := mkTerm(KParam, fn.Params[0].Name())
		pt.NonNil = true
		tyf := getter("ConsensusMessage", "Type", pt, false)
		for _, s := range c.A.FnSites[fn] {
			if s.Kind != "call" || s.Target == nil || s.Target == fn || len(s.Snaps) == 0 {
				continue
			}
			for _, k := range kinds {
				all := true
				for _, sn := range s.Snaps {
					if len(sn.Args) != 1 || sn.Args[0].S != pt.S {
						all = false
						break
					}
					if v, ok := sn.F.value(mkAtom("eq", tyf, constTerm(k))); !ok || !v {
						all = false
						break
					}
				}
				if all {
					cand[k] = s.Target
				}
			}
		}
		// the dispatcher is the function that routes most kinds
		if len(cand) > len(best) {
			best = cand
		}
	}
	// kinds routed elsewhere (e.g. one kind peeled off with an `if` before the switch) complete the map
	for fn := range disp {
		if len(fn.Params) != 1 {
			continue
		}
		pt := mkTerm(KParam, fn.Params[0].Name())
		pt.NonNil = true
		tyf := getter("ConsensusMessage", "Type", pt, false)
		for _, s := range c.A.FnSites[fn] {
			if s.Kind != "call" || s.Target == nil || s.Target == fn || len(s.Snaps) == 0 {
				continue
			}
			isHandlerOfBest := false
			for _, h := range best {
				if h == fn {
					isHandlerOfBest = true
				}
			}
			if isHandlerOfBest {
				continue
			}
			for _, k := range kinds {
				if _, done := best[k]; done {
					continue
				}
				all := true
				for _, sn := range s.Snaps {
					if len(sn.Args) != 1 || sn.Args[0].S != pt.S {
						all = false
						break
					}
					if v, ok := sn.F.value(mkAtom("eq", tyf, constTerm(k))); !ok || !v {
						all = false
						break
					}
				}
				if all {
					best[k] = s.Target
				}
			}
		}
	}
	out = best
	return out
}

// effectfulCall: internal call whose callee may have an effect (by summary)
func (c *RC) effectfulCall(s *Site) bool {
	if s.Kind != "call" || s.Target == nil || c.A.isPure(s.Target) {
		return false
	}
	sum := c.A.summary(s.Target, nil)
	for _, cl := range sum.Classes {
		for l := range cl.Kills {
			if l != "ctx.LastSeenMessage" && (strings.HasPrefix(l, "ctx.") || strings.HasPrefix(l, "dbft.")) {
				return true
			}
		}
	}
	// may-effects: any reachable effect callback or send
	return c.mayEffect(s.Target, map[*FuncInfo]bool{})
}

func (c *RC) mayEffect(fn *FuncInfo, seen map[*FuncInfo]bool) bool {
	if seen[fn] {
		return false
	}
	seen[fn] = true
	for _, s := range c.A.FnSites[fn] {
		if s.Kind == "write" && s.Loc != "ctx.LastSeenMessage" && (strings.HasPrefix(s.Loc, "ctx.") || strings.HasPrefix(s.Loc, "dbft.")) {
			return true
		}
		if s.Kind == "call" {
			if _, ok := effectCallbacks[s.Callee]; ok || s.Callee == "cb:Broadcast" {
				return true
			}
			if s.Target != nil && c.mayEffect(s.Target, seen) {
				return true
			}
		}
	}
	return false
}

// admittedFacts: the decisions taken on the path, first decision per atom (admission time).
func admittedFacts(trail []Lit) *Facts {
	f := newFacts()
	seen := map[string]bool{}
	for _, l := range trail {
		if seen[l.A.S] {
			continue
		}
		seen[l.A.S] = true
		g := f.clone()
		if g.add(l) {
			f = g
		}
	}
	return f
}

func (c *RC) prefixCheck(r *RuleResult, fn *FuncInfo, what string, adm func(s *Site) *Formula, skip func(s *Site) bool) {
	if fn == nil {
		r.unresolved(what)
		return
	}
	n := 0
	// the handler is walked with its single-caller helpers inline: a helper that holds the admission guards, or an
	// effect behind them, is judged with the facts of the whole path
	rec := c.inlineSites(fn, false)
	sites := append([]*Site{}, rec.FnSites[fn]...)
	inlined := map[*FuncInfo]bool{}
	for _, g := range c.Prog.sortedFuncs() {
		if g != fn && len(rec.FnSites[g]) > 0 {
			inlined[g] = true
			sites = append(sites, rec.FnSites[g]...)
		}
	}
	for _, s := range sites {
		isEffect := false
		switch s.Kind {
		case "write":
			isEffect = s.Loc != "ctx.LastSeenMessage" && (strings.HasPrefix(s.Loc, "ctx.") || strings.HasPrefix(s.Loc, "dbft."))
		case "call":
			_, cb := effectCallbacks[s.Callee]
			isEffect = cb || s.Callee == "cb:Broadcast" || c.effectfulCall(s)
			if s.Target != nil && inlined[s.Target] {
				isEffect = false // its own sites are in the list
			}
		}
		if !isEffect || (skip != nil && skip(s)) {
			continue
		}
		g := adm(s)
		if g == nil {
			continue
		}
		n++
		r.Sites++
		bad := ""
		for _, sn := range s.Snaps {
			// use both the current facts and the decisions taken earlier on the path
			res, cex := residual0(g, sn.F, func(*Atom) int { return ModeNone })
			if res.K == FTrue {
				continue
			}
			res2, _ := residual0(g, admittedFacts(sn.TrailL), func(*Atom) int { return ModeNone })
			if res2.K == FTrue {
				continue
			}
			bad = "path {" + sn.Trail + "} counterexample " + cexString(cex)
		}
		if bad == "" {
			r.ok(fmt.Sprintf("%s@%s [%s] is behind the admission of %s", s.Fn.Name, c.Prog.Pos(s.Node), siteWhat(s), what))
		} else {
			r.fail(s.Fn.Name+"/prefix:"+siteWhat(s), c.Prog.Pos(s.Node), "effect "+siteWhat(s)+" is reachable before the admission check of "+what+" ("+g.String()+"): "+bad)
		}
	}
	if n == 0 {
		r.unresolved("effect sites in " + what)
	}
}

func rulePrefix(c *RC) *RuleResult {
	r := &RuleResult{Rule: "G-PREFIX", Kind: "GUARD", Doc: "effect-free prefix: in each handler every effect site implies the handler's admission condition"}
	m := msgParam()
	vi := getter("ConsensusPayload", "ValidatorIndex", m, true)
	view := eq(getter("ConsensusMessage", "ViewNumber", m, true), tViewNumber)
	height := getter("ConsensusPayload", "Height", m, true)
	lenV := mkTerm(KLen, "", fld("ctx.Validators", false))
	lenV.Unsigned = true
	// OnReceive
	c.prefixCheck(r, c.API["OnReceive"], "OnReceive (index bound, not an old height)", func(s *Site) *Formula {
		if s.Kind == "write" && s.Loc == "dbft.cache" {
			// keeping a payload of a FUTURE height for later is the one thing that may happen to a payload whose index
			// does not fit the list of the height the node is at: that list says nothing about the next one (C05), the
			// index is judged when the payload is replayed at its own height
			return fAnd(fNot(lt(height, tBlockIndex)), fOr(lt(vi, lenV), lt(tBlockIndex, height)))
		}
		return fAnd(lt(vi, lenV), fNot(lt(height, tBlockIndex)))
	}, nil)
	// the liveness note itself
	if or := c.API["OnReceive"]; or != nil {
		for _, s := range c.A.FnSites[or] {
			if s.Kind == "write" && s.Loc == "ctx.LastSeenMessage" {
				r.Sites++
				g := fAnd(lt(vi, lenV), fNot(lt(tBlockIndex, height)), fNot(lt(height, tBlockIndex)))
				bad := false
				for _, sn := range s.Snaps {
					if res, _ := residual0(g, sn.F, func(*Atom) int { return ModeNone }); res.K != FTrue {
						bad = true
					}
				}
				if bad {
					r.fail(or.Name+"/prefix:liveness-note", c.Prog.Pos(s.Node), "LastSeenMessage is updated for a payload with an out-of-range index or of another height")
				} else {
					r.ok("liveness note only for in-range senders of the current height")
				}
			}
		}
	}
	hs := c.handlers()
	if len(hs) < 7 {
		r.unresolved(fmt.Sprintf("handlers dispatched from OnReceive (found %d of 7)", len(hs)))
	}
	c.prefixCheck(r, hs["PrepareRequestType"], "the proposal handler", func(s *Site) *Formula {
		return fAnd(view, eq(vi, tPrimaryIndex), fNot(fRSR()))
	}, nil)
	c.prefixCheck(r, hs["PrepareResponseType"], "the response handler", func(s *Site) *Formula {
		return fAnd(view, fNot(eq(vi, tPrimaryIndex)), fNot(nn(slot("PreparationPayloads", vi))))
	}, nil)
	c.prefixCheck(r, hs["CommitType"], "the commit handler", func(s *Site) *Formula {
		return fNot(nn(slot("CommitPayloads", vi)))
	}, nil)
	c.prefixCheck(r, hs["PreCommitType"], "the pre-commit handler", func(s *Site) *Formula {
		return fNot(nn(slot("PreCommitPayloads", vi)))
	}, nil)
	// timeout handler
	if th := c.timeoutHandler(); th != nil {
		hp, vp := mkTerm(KParam, th.Params[0].Name()), mkTerm(KParam, th.Params[1].Name())
		c.prefixCheck(r, th, "the timeout handler", func(s *Site) *Formula {
			return fAnd(eq(hp, tBlockIndex), eq(vp, tViewNumber), fNotWatchOnly(), fNot(fBlockSent()))
		}, nil)
	} else {
		r.unresolved("timeout handler")
	}
	// OnTransaction
	if ot := c.API["OnTransaction"]; ot != nil && len(ot.Params) == 1 {
		tx := mkTerm(KParam, ot.Params[0].Name())
		tx.NonNil = true
		idx := mkTerm(KCall, "slices.Index", fld("ctx.MissingTransactions", false), getter("Transaction", "Hash", tx, false))
		c.prefixCheck(r, ot, "OnTransaction (requested transaction)", func(s *Site) *Formula { return fNot(lt(idx, tZero)) }, nil)
	} else {
		r.unresolved("OnTransaction")
	}
	// OnNewTransaction
	c.prefixCheck(r, c.API["OnNewTransaction"], "OnNewTransaction (subscription active)", func(s *Site) *Formula {
		return bl(fld("ctx.txSubscriptionOn", false))
	}, nil)
	if len(r.Samples) > 4 {
		r.Samples = r.Samples[:4]
	}
	return r
}

// configDefaults: Config fields that defaultConfig sets to a non-nil value.
func (c *RC) configDefaults() map[string]bool {
	out := map[string]bool{}
	if dc := c.configDefaulter(); dc != nil {
		for _, mem := range c.clusterFns(dc) {
			ast.Inspect(mem.Decl.Body, func(n ast.Node) bool {
				if kv, ok := n.(*ast.KeyValueExpr); ok {
					if id, ok := kv.Key.(*ast.Ident); ok {
						if v, ok := ast.Unparen(kv.Value).(*ast.Ident); !ok || v.Name != "nil" {
							out[id.Name] = true
						}
					}
				}
				// ... or assigns in the default builder or a helper that only it calls (not under a condition)
				if as, ok := n.(*ast.AssignStmt); ok && len(as.Lhs) == len(as.Rhs) && len(enclosingConds(mem, as)) == 0 {
					for i, l := range as.Lhs {
						sel, ok := ast.Unparen(l).(*ast.SelectorExpr)
						if !ok {
							continue
						}
						if sl := mem.Pkg.TypesInfo.Selections[sel]; sl != nil && sl.Kind() == types.FieldVal && namedName(sl.Recv()) == "Config" {
							if v, ok := ast.Unparen(as.Rhs[i]).(*ast.Ident); !ok || v.Name != "nil" {
								out[sel.Sel.Name] = true
							}
						}
					}
				}
				return true
			})
		}
	}
	return out
}

// IDX
func ruleIdx(c *RC) *RuleResult {
	r := &RuleResult{Rule: "IDX", Kind: "IDX", Doc: "every index into Validators or a per-validator table is a range key over such a table, an admitted sender index, MyIndex under MyIndex>=0, or the primary index"}
	tables := map[string]bool{"ctx.Validators": true, "ctx.LastSeenMessage": true}
	for _, t := range payloadTables {
		tables["ctx."+t] = true
	}
	lenV := mkTerm(KLen, "", fld("ctx.Validators", false))
	lenV.Unsigned = true
	n := 0
	for _, fn := range c.Prog.dbftFuncs() {
		for _, s := range c.A.FnSites[fn] {
			if s.Kind != "index" || !tables[s.Loc] {
				continue
			}
			// classify per snapshot
			var need []*Snap
			class := ""
			bad := ""
			for _, sn := range s.Snaps {
				i := sn.Idx
				if i == nil {
					bad = "slice expression on a per-validator table"
					continue
				}
				switch {
				case i.K == KLocal && strings.HasPrefix(i.Name, "rangekey:") && tableOfRangeKey(i.Name, tables):
					class = "range key"
				case i.S == "ctx.PrimaryIndex" || (i.K == KCall && i.Name == "fn:Context.GetPrimaryIndex"):
					class = "primary index"
				case i.K == KCall && strings.HasSuffix(i.Name, ".ValidatorIndex") && len(i.Args) == 1 && (i.Args[0].K == KElem || i.Args[0].K == KIndex) && tables[tableOfTerm(i.Args[0])]:
					class = "sender index of a stored (admitted) payload"
				case i.K == KCall && strings.HasSuffix(i.Name, ".ValidatorIndex") && len(i.Args) == 1 && i.Args[0].K == KParam:
					class = "sender index of the handled payload"
					need = append(need, sn)
				case i.S == "ctx.MyIndex":
					class = "own index"
					need = append(need, sn)
				case i.K == KParam:
					// an index handed in by the callers: judged at every call site of the function
					if why := c.paramIndexOK(fn, i, tables, lenV, 0); why == "" {
						class = "index parameter, in range at every call site"
					} else {
						bad = why
					}
				default:
					bad = "index " + i.S + " is in none of the allowed classes"
				}
			}
			n++
			r.Sites++
			if bad != "" {
				r.fail(fn.Name+"/idx:"+s.Loc, c.Prog.Pos(s.Node), bad)
				continue
			}
			if len(need) == 0 {
				r.ok(fmt.Sprintf("%s@%s: %s[%s]", fn.Name, c.Prog.Pos(s.Node), s.Loc, class))
				continue
			}
			d := c.A.newDemand(c.apiList)
			var fail *Failure
			for _, sn := range need {
				var g *Formula
				if sn.Idx.S == "ctx.MyIndex" {
					g = fNot(lt(tMyIndex, tZero))
				} else {
					g = lt(sn.Idx, lenV)
				}
				if f := d.proveSnap(s, sn, g, 0); f != nil {
					fail = f
					break
				}
			}
			if fail == nil {
				r.ok(fmt.Sprintf("%s@%s: %s[%s] proven in range", fn.Name, c.Prog.Pos(s.Node), s.Loc, class))
			} else {
				r.fail(fn.Name+"/idx:"+s.Loc+" via "+chainNames(fail.Chain), c.Prog.Pos(s.Node), fail.String())
			}
		}
	}
	if n < 40 {
		r.unresolved(fmt.Sprintf("index sites on per-validator tables (found %d)", n))
	}
	if len(r.Samples) > 4 {
		r.Samples = r.Samples[:4]
	}
	return r
}

func tableOfRangeKey(name string, tables map[string]bool) bool {
	// rangekey:<loop>:<table term>
	parts := strings.SplitN(name, ":", 3)
	return len(parts) == 3 && tables[parts[2]]
}

func tableOfTerm(t *Term) string {
	if (t.K == KElem || t.K == KIndex) && len(t.Args) > 0 {
		return t.Args[0].S
	}
	return ""
}

// G-OPTIONAL-CB
func ruleOptionalCB(c *RC) *RuleResult {
	r := &RuleResult{Rule: "G-OPTIONAL-CB", Kind: "GUARD", Doc: "callbacks that checkConfig allows to be nil are called only under their enabling fact"}
	// derive the optional set from checkConfig: Config func fields it never requires unconditionally
	cc := c.configChecker()
	if cc == nil {
		r.unresolved("checkConfig")
		return r
	}
	required := map[string]bool{}
	nonNil, _ := c.configFacts()
	for f := range nonNil {
		required[f] = true
	}
	// defaults provided by defaultConfig count as present
	for f := range c.configDefaults() {
		required[f] = true
	}
	enabling := map[string]func() *Formula{
		"NewPreBlockFromContext": fAMEV, "ProcessPreBlock": fAMEV, "NewPreCommit": fAMEV,
		"SubscribeForTxs": func() *Formula { return nn(fld("cfg.MaxTimePerBlock", false)) },
		"MaxTimePerBlock": func() *Formula { return nn(fld("cfg.MaxTimePerBlock", false)) },
	}
	cfg := c.Prog.Structs["Config"]
	nopt := 0
	for i := 0; i < cfg.NumFields(); i++ {
		f := cfg.Field(i)
		if _, isFunc := f.Type().Underlying().(interface{ Params() interface{} }); isFunc {
			_ = isFunc
		}
		if !strings.HasPrefix(f.Type().String(), "func(") {
			continue
		}
		if required[f.Name()] {
			continue
		}
		ss := c.callSites("cb:" + f.Name())
		if len(ss) == 0 {
			continue
		}
		nopt++
		en, ok := enabling[f.Name()]
		if !ok {
			r.Sites++
			r.fail("optional:"+f.Name(), c.Prog.Pos(ss[0].Node), "callback "+f.Name()+" may be nil (not required by checkConfig, no default) and the rule table has no enabling fact for it")
			continue
		}
		c.guardRule(r, ss, c.apiList, func(s *Site, sn *Snap) *Formula { return en() }, nil)
	}
	if nopt < 4 {
		r.unresolved(fmt.Sprintf("optional callbacks with call sites (found %d)", nopt))
	}
	return r
}

// G-DEREF
func ruleDeref(c *RC) *RuleResult {
	r := &RuleResult{Rule: "G-DEREF", Kind: "GUARD", Doc: "a method is called on a stored slot, on one of the lazily built block objects or on what their constructors returned only when it is known to be non-nil"}
	ss := c.sitesWhere(func(s *Site) bool { return s.Kind == "deref" })
	if len(ss) == 0 {
		r.unresolved("dereference of a stored slot")
	}
	c.guardRule(r, ss, c.apiList, func(s *Site, sn *Snap) *Formula {
		if sn.Recv == nil {
			return nil
		}
		if sn.Recv.K == KNil {
			return fFalse // a method call on a value that is nil on this path
		}
		return nn(sn.Recv)
	}, nil)
	return r
}

// paramIndexOK: every caller passes an in-range index for the parameter.
func (c *RC) paramIndexOK(fn *FuncInfo, p *Term, tables map[string]bool, lenV *Term, depth int) string {
	if depth > 3 {
		return "index parameter chain too deep"
	}
	pidx := -1
	for i, fp := range fn.Params {
		if "p:"+fp.Name() == p.S {
			pidx = i
		}
	}
	if pidx < 0 {
		return "index " + p.S + " is not a parameter of " + fn.Name
	}
	cs := c.A.callers[fn]
	if len(cs) == 0 {
		return "function " + fn.Name + " indexes a table by its parameter and is exported or has no visible callers"
	}
	for _, s := range cs {
		for _, sn := range s.Snaps {
			if pidx >= len(sn.Args) {
				return "call without the index argument"
			}
			a := sn.Args[pidx]
			switch {
			case a.K == KLocal && strings.HasPrefix(a.Name, "rangekey:") && tableOfRangeKey(a.Name, tables):
			case a.S == "ctx.PrimaryIndex" || (a.K == KCall && a.Name == "fn:Context.GetPrimaryIndex"):
			case a.K == KParam:
				if why := c.paramIndexOK(s.Fn, a, tables, lenV, depth+1); why != "" {
					return why
				}
			case a.S == "ctx.MyIndex":
				d := c.A.newDemand(c.apiList)
				if f := d.proveSnap(s, sn, fNot(lt(tMyIndex, tZero)), 0); f != nil {
					return "own index passed without MyIndex >= 0: " + f.String()
				}
			case a.K == KCall && strings.HasSuffix(a.Name, ".ValidatorIndex") && len(a.Args) == 1 && a.Args[0].K == KParam:
				d := c.A.newDemand(c.apiList)
				if f := d.proveSnap(s, sn, lt(a, lenV), 0); f != nil {
					return "sender index passed without the bound check: " + f.String()
				}
			default:
				return fmt.Sprintf("%s passes %s as a table index to %s", s.Fn.Name, a.S, fn.Name)
			}
		}
	}
	return ""
}

// G-REJECTED-NO-TIMER (C11): a payload that fails its verification — the application's Verify* callback, or the
// signature / data check against the header / pre-block — is dropped; until then it must not have touched the timer.
// (A handler that extends the timer first lets one Byzantine validator postpone every honest node's timeout for ever with
// garbage: the rejected payload frees its slot, so the next one is processed the same way.) The ChangeView an invalid
// proposal is answered with re-arms the timer by design and is not meant here.
func ruleRejectedNoTimer(c *RC) *RuleResult {
	r := &RuleResult{Rule: "G-REJECTED-NO-TIMER", Kind: "GUARD", Doc: "on every path of a payload handler on which a verification of the received payload failed, the timer has not been touched (no Timer.Extend / Timer.Reset), unless the rejection itself asks for a view change"}
	hs := c.handlers()
	cvs := c.senderOf("ChangeViewType")
	isVerifyResult := func(t *Term) bool {
		if t == nil {
			return false
		}
		s := t.S
		return strings.HasPrefix(s, "cfg.Verify") || strings.HasPrefix(s, "l:cb:Verify") || strings.HasPrefix(s, "l:cbres:Verify") ||
			(strings.HasPrefix(s, "l:if:") && strings.Contains(s, ".Verify"))
	}
	reachExt, reachRst := c.funcsReaching("if:Timer.Extend"), c.funcsReaching("if:Timer.Reset")
	var kinds []string
	for k := range hs {
		kinds = append(kinds, k)
	}
	sort.Strings(kinds)
	nfail := 0
	for _, k := range kinds {
		h := hs[k]
		for _, e := range c.exitsOf(h) {
			failed := ""
			for _, l := range e.TrailL {
				if l.A.Op == "nn" && l.Pos && isVerifyResult(l.A.A) {
					failed = l.String()
				}
			}
			if failed == "" {
				continue
			}
			nfail++
			r.Sites++
			asked := false
			for _, f := range cvs {
				if e.Events["fn:"+f.Name] {
					asked = true
				}
			}
			touched := e.Events["if:Timer.Extend"] || e.Events["if:Timer.Reset"]
			// (a summarised callee that may touch it counts: `extendTimer` extends under conditions of its own)
			for ev := range e.Events {
				if strings.HasPrefix(ev, "fn:") && !strings.Contains(ev, "=") {
					// (a helper that the walk goes through at the call site shows its own events on the path)
					if f := c.Prog.fn(strings.TrimPrefix(ev, "fn:")); f != nil && (reachExt[f] || reachRst[f]) && !c.A.inlinable(f) && !c.A.inlinableShared(f) {
						touched = true
					}
				}
			}
			switch {
			case !touched:
				r.ok(fmt.Sprintf("%s: a payload rejected by %s has not touched the timer", h.Name, failed))
			case asked:
				r.ok(fmt.Sprintf("%s: the rejection (%s) asks for a view change, which arms the timer", h.Name, failed))
			default:
				r.fail(h.Name+"/rejected-payload-touches-timer", c.Prog.Pos(h.Decl), fmt.Sprintf("%s touches the timer before it knows that the payload is valid: on path {%s} the verification fails (%s), the payload is dropped, and the timer has been extended or reset all the same — a validator can repeat that with garbage and keep this node's timeout from ever firing", h.Name, strings.Join(e.Trail, "; "), failed))
			}
		}
	}
	if nfail < 3 {
		r.unresolved(fmt.Sprintf("paths of the payload handlers on which a verification fails (found %d)", nfail))
	}
	return r
}

// G-MISSING-REBUILT (C11): the list of requested transactions holds each hash once. The function that makes the list
// (appends to it while going through the proposal's hashes) can run more than once for a proposal — on the proposal and
// again when recovery is asked for — so it starts from an empty list, or appends only what is not in it yet. A hash that
// is listed twice survives its delivery: the same transaction handed over again counts as requested, and is acted upon.
func ruleMissingRebuilt(c *RC) *RuleResult {
	r := &RuleResult{Rule: "G-MISSING-REBUILT", Kind: "GUARD", Doc: "the function that lists the missing transactions starts from an empty list or appends only hashes not yet listed (it is called again when recovery is asked for)"}
	isList := func(info *types.Info, e ast.Expr) bool {
		sel, ok := ast.Unparen(e).(*ast.SelectorExpr)
		if !ok {
			return false
		}
		s := info.Selections[sel]
		return s != nil && s.Kind() == types.FieldVal && s.Obj().Name() == "MissingTransactions" && c.Prog.FieldOwner[s.Obj().(*types.Var).Origin()] == "Context"
	}
	for _, fn := range c.Prog.dbftFuncs() {
		if fn.Decl == nil || fn.Decl.Body == nil {
			continue
		}
		info := fn.Pkg.TypesInfo
		// an append to the list inside a loop
		var loop ast.Node
		var app *ast.AssignStmt
		var stack []ast.Node
		ast.Inspect(fn.Decl.Body, func(n ast.Node) bool {
			if n == nil {
				stack = stack[:len(stack)-1]
				return true
			}
			stack = append(stack, n)
			as, ok := n.(*ast.AssignStmt)
			if !ok || len(as.Lhs) != 1 || len(as.Rhs) != 1 || !isList(info, as.Lhs[0]) {
				return true
			}
			call, ok := ast.Unparen(as.Rhs[0]).(*ast.CallExpr)
			if !ok || len(call.Args) < 2 {
				return true
			}
			if id, ok := ast.Unparen(call.Fun).(*ast.Ident); !ok || id.Name != "append" || !isList(info, call.Args[0]) {
				return true
			}
			for _, anc := range stack {
				switch anc.(type) {
				case *ast.RangeStmt, *ast.ForStmt:
					if loop == nil {
						loop, app = anc, as
					}
				}
			}
			return true
		})
		if loop == nil {
			continue
		}
		r.Sites++
		// (a) emptied before the loop
		emptied := false
		for _, st := range fn.Decl.Body.List {
			if st.Pos() >= loop.Pos() {
				break
			}
			if as, ok := st.(*ast.AssignStmt); ok && len(as.Lhs) == 1 && isList(info, as.Lhs[0]) && len(as.Rhs) == 1 {
				switch x := ast.Unparen(as.Rhs[0]).(type) {
				case *ast.Ident:
					emptied = emptied || x.Name == "nil"
				case *ast.SliceExpr:
					if x.Low == nil && x.High != nil {
						if tv, ok := info.Types[x.High]; ok && tv.Value != nil && tv.Value.String() == "0" {
							emptied = true
						}
					}
				case *ast.CallExpr:
					if id, ok := ast.Unparen(x.Fun).(*ast.Ident); ok && id.Name == "make" {
						emptied = true
					}
				}
			}
		}
		// (b) the append is under a membership test of the list
		guarded := false
		ast.Inspect(loop, func(n ast.Node) bool {
			ifs, ok := n.(*ast.IfStmt)
			if !ok || ifs.Pos() > app.Pos() || ifs.End() < app.End() {
				return true
			}
			ast.Inspect(ifs.Cond, func(m ast.Node) bool {
				if call, ok := m.(*ast.CallExpr); ok && len(call.Args) >= 1 && isList(info, call.Args[0]) {
					if f, ok := typeutil.Callee(info, call).(*types.Func); ok && f.Pkg() != nil && f.Pkg().Path() == "slices" && (f.Name() == "Contains" || f.Name() == "Index") {
						guarded = true
					}
				}
				return true
			})
			return true
		})
		ncall := len(c.A.callers[fn])
		switch {
		case emptied:
			r.ok(fn.Name + " empties the list of missing transactions before it fills it")
		case guarded:
			r.ok(fn.Name + " appends only hashes that are not listed yet")
		case ncall <= 1:
			r.ok(fmt.Sprintf("%s is called from one place only", fn.Name))
		default:
			r.fail(fn.Name+"/missing-list-extended", c.Prog.Pos(app), fmt.Sprintf("%s appends to the list of requested transactions without emptying it first and is called from %d places: run again for the same proposal (when recovery is asked for) it lists every hash that is still missing a second time; one copy survives the delivery, so the same transaction handed over again passes as requested and is acted upon", fn.Name, ncall))
		}
	}
	if r.Sites == 0 {
		r.unresolved("function that builds the list of missing transactions")
	}
	return r
}
