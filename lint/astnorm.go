package main

// A small normalising reader of expressions for code outside the state machine (Merkle tree): single-definition locals
// are replaced by their definitions, parameters of single-caller helpers by the caller's arguments, &x.f / (&x).f are
// simplified and integer index expressions are put into affine normal form. It exists so that structural rules about
// such code compare meanings, not spellings.

import (
	"fmt"
	"go/ast"
	"go/token"
	"go/types"
	"sort"
	"strconv"
	"strings"

	"golang.org/x/tools/go/types/typeutil"
)

type normEnv struct {
	c    *RC
	fn   *FuncInfo
	defs map[*types.Var]ast.Expr // single-definition locals
	bind map[*types.Var]string   // parameters bound to normalised caller expressions
}

// singleDefs: locals of fn defined exactly once (x := e, var x = e) and never assigned again or address-taken.
func singleDefs(fn *FuncInfo) map[*types.Var]ast.Expr {
	info := fn.Pkg.TypesInfo
	defs := map[*types.Var]ast.Expr{}
	count := map[*types.Var]int{}
	note := func(id *ast.Ident, rhs ast.Expr) {
		var v *types.Var
		if d, ok := info.Defs[id].(*types.Var); ok {
			v = d
		} else if u, ok := info.Uses[id].(*types.Var); ok {
			v = u
		}
		if v == nil {
			return
		}
		count[v]++
		defs[v] = rhs
	}
	ast.Inspect(fn.Decl.Body, func(n ast.Node) bool {
		switch x := n.(type) {
		case *ast.AssignStmt:
			if len(x.Lhs) == len(x.Rhs) {
				for i, l := range x.Lhs {
					if id, ok := l.(*ast.Ident); ok {
						note(id, x.Rhs[i])
					}
				}
			} else {
				for _, l := range x.Lhs {
					if id, ok := l.(*ast.Ident); ok {
						note(id, nil)
					}
				}
			}
		case *ast.ValueSpec:
			for i, id := range x.Names {
				if i < len(x.Values) {
					note(id, x.Values[i])
				} else {
					note(id, nil)
				}
			}
		case *ast.IncDecStmt:
			if id, ok := x.X.(*ast.Ident); ok {
				note(id, nil)
				note(id, nil)
			}
		case *ast.RangeStmt:
			if id, ok := x.Key.(*ast.Ident); ok {
				note(id, nil)
			}
			if id, ok := x.Value.(*ast.Ident); ok {
				// the element is the ranged expression at the key (read at the start of the iteration)
				if k, ok := x.Key.(*ast.Ident); ok && k.Name != "_" {
					note(id, &ast.IndexExpr{X: x.X, Index: k})
				} else {
					note(id, nil)
				}
			}
		case *ast.UnaryExpr:
			if x.Op == token.AND {
				if id, ok := ast.Unparen(x.X).(*ast.Ident); ok {
					note(id, nil)
					note(id, nil)
				}
			}
		}
		return true
	})
	for v, n := range count {
		if n != 1 || defs[v] == nil {
			delete(defs, v)
			continue
		}
		if call, ok := ast.Unparen(defs[v]).(*ast.CallExpr); ok {
			if id, ok := call.Fun.(*ast.Ident); ok && (id.Name == "make" || id.Name == "new") {
				delete(defs, v) // a fresh object keeps its own name
			}
		}
		if _, ok := ast.Unparen(defs[v]).(*ast.CompositeLit); ok {
			delete(defs, v)
		}
	}
	return defs
}

func (e *normEnv) norm(x ast.Expr) string {
	info := e.fn.Pkg.TypesInfo
	switch x := ast.Unparen(x).(type) {
	case *ast.Ident:
		if v, ok := info.Uses[x].(*types.Var); ok {
			if s, ok := e.bind[v]; ok {
				return s
			}
			if d, ok := e.defs[v]; ok {
				return e.norm(d)
			}
		}
		return x.Name
	case *ast.BasicLit:
		return x.Value
	case *ast.UnaryExpr:
		if x.Op == token.AND {
			return "&" + e.norm(x.X)
		}
		return x.Op.String() + e.norm(x.X)
	case *ast.StarExpr:
		return strings.TrimPrefix("*"+e.norm(x.X), "*&")
	case *ast.SelectorExpr:
		return strings.TrimPrefix(e.norm(x.X), "&") + "." + x.Sel.Name
	case *ast.IndexExpr:
		return e.norm(x.X) + "[" + e.affine(x.Index) + "]"
	case *ast.SliceExpr:
		lo, hi := "", ""
		if x.Low != nil {
			lo = e.affine(x.Low)
		}
		if x.High != nil {
			hi = e.affine(x.High)
		}
		return e.norm(x.X) + "[" + lo + ":" + hi + "]"
	case *ast.BinaryExpr:
		if t := info.TypeOf(x); t != nil {
			if b, ok := t.Underlying().(*types.Basic); ok && b.Info()&types.IsInteger != 0 {
				return e.affine(x)
			}
		}
		return e.norm(x.X) + x.Op.String() + e.norm(x.Y)
	case *ast.CallExpr:
		var as []string
		for _, a := range x.Args {
			as = append(as, e.norm(a))
		}
		name := ""
		if fo, ok := typeutil.Callee(info, x).(*types.Func); ok {
			name = fo.Name()
			if fo.Pkg() != nil && fo.Pkg() != e.fn.Pkg.Types {
				name = fo.Pkg().Name() + "." + name
			}
		} else {
			name = e.norm(x.Fun)
		}
		return name + "(" + strings.Join(as, ",") + ")"
	}
	return fmt.Sprintf("?%T", x)
}

// affine renders an integer expression as a sorted sum c0 + c1*s1 + ... over normalised symbols.
func (e *normEnv) affine(x ast.Expr) string {
	co, k, ok := e.aff(x)
	if !ok {
		return e.normNoAff(x)
	}
	var ks []string
	for s, c := range co {
		if c != 0 {
			ks = append(ks, s)
		}
	}
	sort.Strings(ks)
	var parts []string
	for _, s := range ks {
		if co[s] == 1 {
			parts = append(parts, s)
		} else {
			parts = append(parts, strconv.Itoa(co[s])+"*"+s)
		}
	}
	if k != 0 || len(parts) == 0 {
		parts = append(parts, strconv.Itoa(k))
	}
	return strings.Join(parts, "+")
}

func (e *normEnv) normNoAff(x ast.Expr) string {
	if b, ok := ast.Unparen(x).(*ast.BinaryExpr); ok {
		return "(" + e.norm(b.X) + b.Op.String() + e.norm(b.Y) + ")"
	}
	return e.norm(x)
}

func (e *normEnv) aff(x ast.Expr) (map[string]int, int, bool) {
	info := e.fn.Pkg.TypesInfo
	switch x := ast.Unparen(x).(type) {
	case *ast.BasicLit:
		if x.Kind == token.INT {
			n, err := strconv.Atoi(x.Value)
			return map[string]int{}, n, err == nil
		}
	case *ast.Ident:
		if v, ok := info.Uses[x].(*types.Var); ok {
			if _, bound := e.bind[v]; !bound {
				if d, ok := e.defs[v]; ok {
					return e.aff(d)
				}
			}
		}
		return map[string]int{e.norm(x): 1}, 0, true
	case *ast.BinaryExpr:
		a, ka, oka := e.aff(x.X)
		b, kb, okb := e.aff(x.Y)
		if !oka || !okb {
			return nil, 0, false
		}
		switch x.Op {
		case token.ADD, token.SUB:
			sg := 1
			if x.Op == token.SUB {
				sg = -1
			}
			out := map[string]int{}
			for s, c := range a {
				out[s] += c
			}
			for s, c := range b {
				out[s] += sg * c
			}
			return out, ka + sg*kb, true
		case token.MUL:
			if len(a) == 0 {
				a, b, ka, kb = b, a, kb, ka
			}
			if len(b) == 0 {
				out := map[string]int{}
				for s, c := range a {
					out[s] = c * kb
				}
				return out, ka * kb, true
			}
		}
		return nil, 0, false
	case *ast.CallExpr, *ast.SelectorExpr, *ast.IndexExpr:
		return map[string]int{e.norm(x): 1}, 0, true
	}
	return nil, 0, false
}

// normFacts collects, over fn and its single-caller helpers (parameters bound to the caller's arguments), the normalised
// field assignments "lhs = rhs" and the normalised arguments of calls to the named function.
type normFacts struct {
	followAll bool // also read through multi-caller helpers of the same package (parameters bound per call)
	assigns   [][2]string
	calls     map[string][]string // callee name -> normalised single argument
}

func (c *RC) collectNormAll(fn *FuncInfo, callees ...string) *normFacts {
	return c.collectNormOpt(fn, true, callees...)
}

func (c *RC) collectNorm(fn *FuncInfo, callees ...string) *normFacts {
	return c.collectNormOpt(fn, false, callees...)
}

func (c *RC) collectNormOpt(fn *FuncInfo, all bool, callees ...string) *normFacts {
	nf := &normFacts{calls: map[string][]string{}, followAll: all}
	want := map[string]bool{}
	for _, k := range callees {
		want[k] = true
	}
	var visit func(f *FuncInfo, bind map[*types.Var]string, depth int)
	visit = func(f *FuncInfo, bind map[*types.Var]string, depth int) {
		env := &normEnv{c: c, fn: f, defs: singleDefs(f), bind: bind}
		info := f.Pkg.TypesInfo
		ast.Inspect(f.Decl.Body, func(n ast.Node) bool {
			switch x := n.(type) {
			case *ast.AssignStmt:
				if len(x.Lhs) == len(x.Rhs) {
					for i, l := range x.Lhs {
						switch ast.Unparen(l).(type) {
						case *ast.SelectorExpr, *ast.IndexExpr:
							nf.assigns = append(nf.assigns, [2]string{env.norm(l), env.norm(x.Rhs[i])})
						}
					}
				}
			case *ast.CallExpr:
				fo, _ := typeutil.Callee(info, x).(*types.Func)
				if fo == nil {
					return true
				}
				if want[fo.Name()] && len(x.Args) == 1 {
					nf.calls[fo.Name()] = append(nf.calls[fo.Name()], env.norm(x.Args[0]))
				}
				if t := c.Prog.Funcs[fo.Origin()]; t != nil && t != f && t != fn && depth < 3 && (c.A.inlinable(t) || nf.followAll && t.Pkg == fn.Pkg && stmtCount(t.Decl.Body) <= 40) {
					b := map[*types.Var]string{}
					for j, p := range t.Params {
						if j < len(x.Args) {
							b[p] = env.norm(x.Args[j])
						}
					}
					visit(t, b, depth+1)
				}
			}
			return true
		})
	}
	visit(fn, map[*types.Var]string{}, 0)
	return nf
}
