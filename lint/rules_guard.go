package main

// GUARD / QUORUM / OWN rules for C01-C05 and C07.

import (
	"fmt"
	"go/ast"
	"go/types"
	"golang.org/x/tools/go/types/typeutil"
	"regexp"
	"sort"
	"strings"
)

// ---- helpers ----

func (c *RC) sendSitesOf(kind string) []*Site {
	var out []*Site
	for _, s := range c.sendSites {
		if hasKind(s.Kinds, kind) {
			out = append(out, s.Site)
		}
	}
	return out
}

func (c *RC) kindsAt(site *Site) []string {
	for _, s := range c.sendSites {
		if s.Site == site {
			return s.Kinds
		}
	}
	return nil
}

func (c *RC) writesTo(loc string) []*Site {
	return c.sitesWhere(func(s *Site) bool { return s.Kind == "write" && s.Loc == loc })
}

// initialisers: functions that call the epoch writer.
func (c *RC) initialisers() []*FuncInfo {
	seen := map[*FuncInfo]bool{}
	var out []*FuncInfo
	if c.A.epochWriter == nil {
		return nil
	}
	for _, s := range c.A.callers[c.A.epochWriter] {
		if !seen[s.Fn] {
			seen[s.Fn] = true
			out = append(out, s.Fn)
		}
	}
	return out
}

// initCalls: call sites of an initialiser; nonConst selects those whose view argument is not a literal.
func (c *RC) initCalls(nonConst bool) []*Site {
	var out []*Site
	for _, ini := range c.initialisers() {
		for _, s := range c.A.callers[ini] {
			isConst := true
			for _, sn := range s.Snaps {
				if len(sn.Args) == 0 || sn.Args[0].K != KConst {
					isConst = false
				}
			}
			if isConst != nonConst {
				out = append(out, s)
			}
		}
	}
	return out
}

// quorum atom: count{table|phi} >= M  i.e. !(count < M)
func mNF() string {
	n := mkTerm(KLen, "", fld("ctx.Validators", false))
	f := mkTerm(KBin, "/", mkTerm(KBin, "-", n, constTerm("1")), constTerm("3"))
	return nfString(mkTerm(KBin, "-", n, f))
}

func viewPhi() string {
	return "ConsensusMessage.ViewNumber(e)==ctx.ViewNumber & e!=nil"
}

func quorumAtLeast(table, phi, k string) *Formula {
	ct := mkTerm(KCount, "ctx."+table+"|"+phi)
	ct.Reads = []string{"ctx." + table}
	for _, loc := range []string{"ctx.ViewNumber", "ctx.BlockIndex", "ctx.PrimaryIndex", "ctx.MyIndex"} {
		if strings.Contains(phi, loc) {
			ct.Reads = append(ct.Reads, loc)
		}
	}
	ct.Reads = uniq(ct.Reads)
	kt := mkTerm(KConst, k)
	kt.Reads = []string{"ctx.Validators"}
	return fNot(fAtom(mkAtom("lt", ct, kt)))
}

func existsIn(table, phi string) *Formula {
	t := mkTerm(KExists, "ctx."+table+"|"+phi)
	t.Reads = []string{"ctx." + table}
	return bl(t)
}

func msgParam() *Term {
	t := mkTerm(KParam, "msg")
	t.NonNil = true
	return t
}

func getter(iface, name string, recv *Term, unsigned bool) *Term {
	t := mkTerm(KCall, iface+"."+name, recv)
	t.Unsigned = unsigned
	return t
}

// ---- C03 ----

func init() {
	propertyRules["C03"] = []ruleFn{ruleSendPReq, ruleSendPResp, ruleOnceCommit, ruleCommitClear, ruleCVLock, ruleViewLock, ruleViewMono, ruleEpochOwner, ruleStoreBeforeSend, ruleRetransmit}
	propertyExplain["C03"] = "Per message kind, every typed broadcast site (call of the broadcast wrapper whose argument's MessageType is resolved by send-site typing) is proven to be behind the 'not said yet' guard on every path from every API entry; own Commit/PreCommit are constructed only when the own slot is empty and those tables are cleared only by the height reset; ChangeView sends and view changes are behind the commit lock; the view only increases. Decides the per-node structural causes of non-equivocation; history-wide uniqueness across restarts and peers' recovery compaction are not decided."
	propertyRules["C01"] = []ruleFn{ruleAccept, ruleVerifyOnStore, ruleOnceCommit, ruleCVLock, ruleViewLock, ruleViewQuorum, ruleCacheObl, ruleArithF, ruleArithM, ruleDefs}
	propertyExplain["C01"] = "Composite of the four per-node mechanisms agreement rests on: acceptance behind an M-of-N current-view commit quorum (G-ACCEPT), commit lock on ChangeView sends and view changes (G-CV-LOCK, G-VIEW-LOCK), view change behind an M-of-N ChangeView quorum (G-VIEW-QUORUM), F=(N-1) div 3 and M=N-F in affine normal form (A-F, A-M). It does NOT decide agreement itself, which is a property of several nodes' joint histories under an adversarial scheduler."
}

// G-SEND-PREQ
func ruleSendPReq(c *RC) *RuleResult {
	r := &RuleResult{Rule: "G-SEND-PREQ", Kind: "GUARD", Doc: "PrepareRequest send ⇒ IsPrimary ∧ ¬RequestSentOrReceived"}
	sites := c.sendSitesOf("PrepareRequestType")
	if len(sites) == 0 {
		r.unresolved("typed send site of kind PrepareRequest")
	}
	exempted := 0
	c.guardRule(r, sites, c.apiList, func(s *Site, sn *Snap) *Formula {
		// at the send the own slot was just filled (IsPrimary ⇒ RSR), so the requirement is about the state before the store:
		return fIsPrimary()
	}, nil)
	// ¬RSR is demanded at the entry of the function that builds and sends the request
	d := c.A.newDemand(c.apiList)
	d.ExemptCall = func(cs *Site, g *Formula) *Formula {
		if c.startExemption(cs) {
			exempted++
			return fTrue
		}
		return nil
	}
	for _, s := range sites {
		r.Sites++
		f := d.proveEntry(s.Fn, fNot(fRSR()), 0)
		if f == nil {
			r.ok(fmt.Sprintf("every call of %s is under ¬RequestSentOrReceived (fresh-start exemptions used: %d)", s.Fn.Name, exempted))
		} else {
			r.fail(s.Fn.Name+"/entry via "+chainNames(f.Chain), c.Prog.Pos(s.Node), f.String())
		}
		// no store to the own preparation slot before the request is built, other than the request itself
	}
	return r
}

// startExemption: the call is made by an exported entry directly after creating a fresh cache and
// running the height initialiser (literal view 0), with no other call in between.
func (c *RC) startExemption(cs *Site) bool {
	fn := cs.Fn
	if c.API[fn.Name] != fn {
		return false
	}
	body := fn.Decl.Body.List
	sawCache, sawInit := false, false
	inis := map[*FuncInfo]bool{}
	for _, i := range c.initialisers() {
		inis[i] = true
	}
	w := &Walker{A: c.A, Fn: fn, info: fn.Pkg.TypesInfo}
	for _, st := range body {
		// does this statement contain the call site?
		contains := false
		ast.Inspect(st, func(n ast.Node) bool {
			if n == cs.Node {
				contains = true
			}
			return true
		})
		if contains {
			return sawCache && sawInit
		}
		switch x := st.(type) {
		case *ast.AssignStmt:
			if len(x.Lhs) == 1 && len(x.Rhs) == 1 {
				if sel, ok := x.Lhs[0].(*ast.SelectorExpr); ok && (sel.Sel.Name == "cache" || fn.Pkg.TypesInfo.Selections[sel] != nil && c.Prog.fieldRole(fn.Pkg.TypesInfo.Selections[sel].Obj().(*types.Var), "") == "cache") {
					if call, ok := x.Rhs[0].(*ast.CallExpr); ok && w.staticCallee(call) != nil && !sawInit {
						sawCache = true
						continue
					}
				}
			}
			return false
		case *ast.ExprStmt:
			if call, ok := x.X.(*ast.CallExpr); ok {
				// logging is not an effect (its arguments must not call into the module)
				if f, ok := typeutil.Callee(fn.Pkg.TypesInfo, call).(*types.Func); ok && f.Pkg() != nil && strings.HasPrefix(f.Pkg().Path(), "go.uber.org/zap") {
					quiet := true
					for _, a := range call.Args {
						ast.Inspect(a, func(n ast.Node) bool {
							if ac, ok := n.(*ast.CallExpr); ok {
								if t := w.staticCallee(ac); t != nil && !c.A.isPure(t) {
									quiet = false
								}
							}
							return true
						})
					}
					if quiet {
						continue
					}
				}
				if t := w.staticCallee(call); t != nil && inis[t] && sawCache && !sawInit && len(call.Args) > 0 {
					if tv, ok := fn.Pkg.TypesInfo.Types[call.Args[0]]; ok && tv.Value != nil && tv.Value.ExactString() == "0" {
						sawInit = true
						continue
					}
				}
			}
			return false
		case *ast.IfStmt:
			// an effect-free early exit between the initialiser and the call (`if !primary { return }`)
			pureCond := true
			ast.Inspect(x.Cond, func(n ast.Node) bool {
				if call, ok := n.(*ast.CallExpr); ok {
					if t := w.staticCallee(call); t == nil || !c.A.isPure(t) {
						pureCond = false
					}
				}
				return true
			})
			if x.Init == nil && x.Else == nil && pureCond && len(x.Body.List) == 1 {
				if rs, ok := x.Body.List[0].(*ast.ReturnStmt); ok && len(rs.Results) == 0 {
					continue
				}
			}
			return false
		default:
			return false
		}
	}
	return false
}

// G-SEND-PRESP
func ruleSendPResp(c *RC) *RuleResult {
	r := &RuleResult{Rule: "G-SEND-PRESP", Kind: "GUARD", Doc: "PrepareResponse construction ⇒ ¬ResponseSent (own preparation slot empty)"}
	sites := c.callSites("cb:NewPrepareResponse")
	if len(sites) == 0 {
		r.unresolved("call site of Config.NewPrepareResponse")
	}
	c.guardRule(r, sites, c.apiList, func(s *Site, sn *Snap) *Formula { return fNot(nn(slot("PreparationPayloads", tMyIndex))) }, nil)
	// only a backup answers: the primary's own slot IS the proposal slot, a response built there replaces the proposal.
	// (The guard above cannot see this case: assumption A7 — a received payload does not carry the node's own index —
	// is false exactly for a primary that lost its state and is handed its own request by a recovery message.)
	rb := &RuleResult{}
	c.guardRule(rb, sites, c.apiList, func(s *Site, sn *Snap) *Formula { return fNot(fIsPrimary()) }, nil)
	r.Sites += rb.Sites
	for _, f := range rb.Findings {
		r.fail(strings.Replace(f.Construct, "cb:NewPrepareResponse", "response-by-primary", 1), f.Where, "a PrepareResponse can be built by the view's primary: it is stored in the primary's own slot, which is the proposal slot, so the proposal is replaced by a response to it (a primary that restarted and got its own request back from a recovery message never commits): "+f.Detail)
	}
	for i := 0; i < rb.Discharged; i++ {
		r.ok("only a backup answers")
	}
	// the typed send carries the payload just stored in the own slot
	for _, s := range c.sendSitesOf("PrepareResponseType") {
		r.Sites++
		d := c.A.newDemand(c.apiList)
		if f := d.ProveAt(s, func(sn *Snap) *Formula { return nn(slot("PreparationPayloads", tMyIndex)) }); f == nil {
			r.ok(d.siteLabel(s) + ": the response is stored in the own slot before it is broadcast")
		} else {
			r.fail(s.Fn.Name+"/store-before-send", c.Prog.Pos(s.Node), f.String())
		}
	}
	return r
}

// M-ONCE-COMMIT / M-ONCE-PRECOMMIT
func ruleOnceCommit(c *RC) *RuleResult {
	r := &RuleResult{Rule: "M-ONCE-COMMIT", Kind: "GUARD", Doc: "Commit/PreCommit payload constructed only when the own slot of its table is nil; signing/SetData likewise"}
	ctor := c.callSites("cb:NewConsensusPayload")
	n := map[string]int{}
	for _, s := range ctor {
		if s.Call == nil || len(s.Call.Args) < 2 {
			continue
		}
		k := constName(s.Fn.Pkg.TypesInfo, s.Call.Args[1])
		table := ""
		switch k {
		case "CommitType":
			table = "CommitPayloads"
		case "PreCommitType":
			table = "PreCommitPayloads"
		default:
			continue
		}
		n[k]++
		c.guardRule(r, []*Site{s}, c.apiList, func(s *Site, sn *Snap) *Formula { return fNot(nn(slot(table, tMyIndex))) }, nil)
	}
	for _, k := range []string{"CommitType", "PreCommitType"} {
		if n[k] == 0 {
			r.unresolved("NewConsensusPayload site of kind " + k)
		}
	}
	sign := c.callSites("if:Block.Sign")
	c.guardRule(r, sign, c.apiList, func(s *Site, sn *Snap) *Formula { return fNot(nn(slot("CommitPayloads", tMyIndex))) }, nil)
	setd := c.callSites("if:PreBlock.SetData")
	c.guardRule(r, setd, c.apiList, func(s *Site, sn *Snap) *Formula { return fNot(nn(slot("PreCommitPayloads", tMyIndex))) }, nil)
	// the own slot receives only the constructor's result, and is broadcast from the slot's value
	for _, k := range []struct{ kind, table string }{{"CommitType", "CommitPayloads"}, {"PreCommitType", "PreCommitPayloads"}} {
		for _, s := range c.sendSitesOf(k.kind) {
			r.Sites++
			d := c.A.newDemand(c.apiList)
			if f := d.ProveAt(s, func(sn *Snap) *Formula { return nn(slot(k.table, tMyIndex)) }); f == nil {
				r.ok(d.siteLabel(s) + ": " + k.kind + " is stored in the own slot before it is broadcast")
			} else {
				r.fail(s.Fn.Name+"/store-before-send:"+k.kind, c.Prog.Pos(s.Node), f.String())
			}
		}
	}
	return r
}

// O-COMMIT-CLEAR: commit tables are re-allocated only by the height reset; entry-wise nil stores only after a failed Verify
func ruleCommitClear(c *RC) *RuleResult {
	r := &RuleResult{Rule: "O-COMMIT-CLEAR", Kind: "OWN", Doc: "CommitPayloads/PreCommitPayloads are cleared only by the epoch writer at view 0; own slot is never nil-ed"}
	if c.A.epochWriter == nil {
		r.unresolved("epoch writer")
		return r
	}
	vp := mkTerm(KParam, c.A.epochViewParm.Name())
	vp.Unsigned = true
	for _, table := range []string{"ctx.CommitPayloads", "ctx.PreCommitPayloads"} {
		ws := c.writesTo(table)
		if len(ws) == 0 {
			r.unresolved("writes to " + table)
		}
		for _, s := range ws {
			r.Sites++
			if s.Store&KillAny != 0 {
				if !c.inEpoch(s.Fn) {
					r.fail(s.Fn.Name+"/write:"+table, c.Prog.Pos(s.Node), "table "+table+" re-assigned/cleared outside the epoch writer")
					continue
				}
				d := c.epochDemand()
				if f := d.ProveAt(s, func(sn *Snap) *Formula { return eq(vp, tZero) }); f != nil {
					r.fail(s.Fn.Name+"/write:"+table, c.Prog.Pos(s.Node), "table "+table+" cleared on a view change (must survive until the height changes): "+f.String())
				} else {
					r.ok(fmt.Sprintf("%s cleared only under view==0 at %s", table, c.Prog.Pos(s.Node)))
				}
				continue
			}
			if s.Store&KillNil != 0 {
				// nil-store of an entry: never the own slot; only in a verification context
				bad := false
				for _, sn := range s.Snaps {
					if sn.Idx != nil && sn.Idx.S == "ctx.MyIndex" {
						bad = true
					}
				}
				if bad {
					r.fail(s.Fn.Name+"/nil-own:"+table, c.Prog.Pos(s.Node), "own slot of "+table+" set to nil")
				} else {
					r.ok(fmt.Sprintf("%s: entry of %s removed (not the own slot)", s.Fn.Name, table))
				}
				continue
			}
			r.ok(fmt.Sprintf("%s: non-nil store into %s", s.Fn.Name, table))
		}
	}
	return r
}

// G-CV-LOCK
func ruleCVLock(c *RC) *RuleResult {
	r := &RuleResult{Rule: "G-CV-LOCK", Kind: "GUARD", Doc: "ChangeView send ⇒ ¬CommitSent ∧ ¬PreCommitSent"}
	sites := c.sendSitesOf("ChangeViewType")
	if len(sites) < 1 {
		r.unresolved("typed send site of kind ChangeView")
	}
	// also the construction of a ChangeView (it overwrites the own ChangeView slot)
	for _, s := range c.callSites("cb:NewChangeView") {
		sites = append(sites, s)
	}
	c.guardRule(r, sites, c.apiList, func(s *Site, sn *Snap) *Formula {
		return fAnd(fNot(fCommitSent()), fNot(fPreCommitSent()))
	}, nil)
	return r
}

// G-VIEW-LOCK
func ruleViewLock(c *RC) *RuleResult {
	r := &RuleResult{Rule: "G-VIEW-LOCK", Kind: "GUARD", Doc: "view change (initialiser with non-constant view) ⇒ ¬CommitSent ∧ ¬PreCommitSent"}
	sites := c.initCalls(true)
	if len(sites) == 0 {
		r.unresolved("initialiser call with a non-constant view")
	}
	c.guardRule(r, sites, c.apiList, func(s *Site, sn *Snap) *Formula {
		return fAnd(fNot(fCommitSent()), fNot(fPreCommitSent()))
	}, nil)
	return r
}

// G-VIEW-MONO
func ruleViewMono(c *RC) *RuleResult {
	r := &RuleResult{Rule: "G-VIEW-MONO", Kind: "GUARD", Doc: "initialiser(v) with non-constant v ⇒ ViewNumber < v; constant views are 0 and come from exported entries"}
	sites := c.initCalls(true)
	if len(sites) == 0 {
		r.unresolved("initialiser call with a non-constant view")
	}
	c.guardRule(r, sites, c.apiList, func(s *Site, sn *Snap) *Formula {
		if len(sn.Args) == 0 {
			return fFalse
		}
		return lt(tViewNumber, sn.Args[0])
	}, nil)
	for _, s := range c.initCalls(false) {
		r.Sites++
		ok := c.API[s.Fn.Name] == s.Fn
		for _, sn := range s.Snaps {
			if len(sn.Args) == 0 || sn.Args[0].S != "0" {
				ok = false
			}
		}
		if ok {
			r.ok(s.Fn.Name + ": initialiser called with literal 0 from an exported entry")
		} else {
			r.fail(s.Fn.Name+"/const-view", c.Prog.Pos(s.Node), "initialiser called with a constant view other than 0, or with 0 from a non-exported function")
		}
	}
	return r
}

// O-EPOCH
func ruleEpochOwner(c *RC) *RuleResult {
	r := &RuleResult{Rule: "O-EPOCH", Kind: "OWN", Doc: "BlockIndex/ViewNumber are assigned only by the epoch writer; ViewNumber from its view parameter"}
	if c.A.epochWriter == nil {
		r.unresolved("epoch writer (function assigning Context.ViewNumber from a parameter)")
		return r
	}
	for _, loc := range []string{"ctx.ViewNumber", "ctx.BlockIndex"} {
		ws := c.writesTo(loc)
		if len(ws) == 0 {
			r.unresolved("write of " + loc)
		}
		for _, s := range ws {
			r.Sites++
			if !c.inEpoch(s.Fn) {
				r.fail(s.Fn.Name+"/write:"+loc, c.Prog.Pos(s.Node), loc+" assigned outside the epoch writer "+c.A.epochWriter.Name)
				continue
			}
			good := true
			if loc == "ctx.ViewNumber" {
				for _, sn := range s.Snaps {
					if sn.Val == nil || sn.Val.K != KParam || !c.isViewParam(s.Fn, sn.Val) {
						good = false
					}
				}
			}
			if good {
				r.ok(loc + " assigned in " + s.Fn.Name)
			} else {
				r.fail(s.Fn.Name+"/value:"+loc, c.Prog.Pos(s.Node), "ViewNumber assigned from something other than the view parameter")
			}
		}
	}
	return r
}

// M-STORE-BEFORE-SEND for PrepareRequest
func ruleStoreBeforeSend(c *RC) *RuleResult {
	r := &RuleResult{Rule: "M-STORE-BEFORE-SEND", Kind: "GUARD", Doc: "own PrepareRequest is stored in the own slot before it is broadcast (so the 'not said yet' guard sees it)"}
	sites := c.sendSitesOf("PrepareRequestType")
	if len(sites) == 0 {
		r.unresolved("typed send site of kind PrepareRequest")
	}
	c.guardRule(r, sites, nil, func(s *Site, sn *Snap) *Formula { return nn(slot("PreparationPayloads", tMyIndex)) }, nil)
	return r
}

// elemTable: t is the element of a ranged table — the range value, or the table indexed by its own range key — and
// the table is returned (nil otherwise).
func elemTable(t *Term) *Term {
	if t == nil {
		return nil
	}
	if t.K == KElem {
		return t.Args[0]
	}
	if t.K == KIndex && len(t.Args) == 2 && t.Args[1].K == KLocal && strings.HasPrefix(t.Args[1].Name, "rangekey:") && strings.HasSuffix(t.Args[1].Name, ":"+t.Args[0].S) {
		return t.Args[0]
	}
	return nil
}

// P-RETRANSMIT: recovery builder adds only stored elements
func ruleRetransmit(c *RC) *RuleResult {
	r := &RuleResult{Rule: "P-RETRANSMIT", Kind: "PROV", Doc: "the recovery builder adds only payloads loaded from the stored tables (no construction)"}
	sites := c.sitesWhere(func(s *Site) bool { return s.Kind == "call" && s.Callee == "if:RecoveryMessage.AddPayload" })
	if len(sites) == 0 {
		r.unresolved("call of RecoveryMessage.AddPayload")
	}
	for _, s := range sites {
		r.Sites++
		good := true
		for _, sn := range s.Snaps {
			if len(sn.Args) != 1 || elemTable(sn.Args[0]) == nil {
				good = false
			}
		}
		if good {
			r.ok(fmt.Sprintf("%s@%s: AddPayload(element of a stored table)", s.Fn.Name, c.Prog.Pos(s.Node)))
		} else {
			r.fail(s.Fn.Name+"/AddPayload", c.Prog.Pos(s.Node), "AddPayload argument is not an element ranged from a stored payload table")
		}
	}
	return r
}

// ---- C02 / C01: acceptance ----

func init() {
	propertyRules["C02"] = []ruleFn{ruleAcceptSite, ruleAccept, rulePreAccept, ruleSlot, ruleVerifyOnStore, ruleRevalidate, ruleHeaderAfterPreBlock, ruleCacheObl, ruleTip, ruleProposalFields, ruleViewResetCover}
	propertyExplain["C02"] = "ProcessBlock/ProcessPreBlock have one call site each, proven to be behind an M-of-N quorum counted over current-view entries of the per-validator (pre)commit table with all transactions present; every non-nil store into a per-validator payload table is keyed by the payload's own validator index (distinct validators); block fields PrevHash/BlockIndex come from the ledger callbacks at the height reset and Timestamp/Nonce/TransactionHashes only from the accepted proposal or the proposal builder. Cryptographic soundness of Verify callbacks is not decided."
}

func ruleAcceptSite(c *RC) *RuleResult {
	r := &RuleResult{Rule: "O-ACCEPT-SITE", Kind: "OWN", Doc: "Config.ProcessBlock and Config.ProcessPreBlock are each called from exactly one site"}
	for _, cb := range []string{"cb:ProcessBlock", "cb:ProcessPreBlock"} {
		ss := c.callSites(cb)
		r.Sites += len(ss)
		if len(ss) == 1 {
			r.ok(cb + " called only at " + c.Prog.Pos(ss[0].Node) + " in " + ss[0].Fn.Name)
		} else if len(ss) == 0 {
			r.unresolved("call site of " + cb)
		} else {
			var w []string
			for _, s := range ss {
				w = append(w, s.Fn.Name)
			}
			sort.Strings(w)
			r.fail(cb+"/sites:"+strings.Join(w, ","), c.Prog.Pos(ss[1].Node), fmt.Sprintf("%s has %d call sites", cb, len(ss)))
		}
	}
	return r
}

func ruleAccept(c *RC) *RuleResult {
	r := &RuleResult{Rule: "G-ACCEPT", Kind: "QUORUM", Doc: "ProcessBlock ⇒ count{CommitPayloads | e≠nil ∧ e.ViewNumber()==ViewNumber} ≥ M ∧ all transactions present ∧ ¬BlockSent"}
	ss := c.callSites("cb:ProcessBlock")
	if len(ss) == 0 {
		r.unresolved("call site of Config.ProcessBlock")
	}
	c.guardRule(r, ss, c.apiList, func(s *Site, sn *Snap) *Formula {
		return fAnd(quorumAtLeast("CommitPayloads", viewPhi(), mNF()), fAllTx())
	}, nil)
	return r
}

func rulePreAccept(c *RC) *RuleResult {
	r := &RuleResult{Rule: "G-PREACCEPT", Kind: "QUORUM", Doc: "ProcessPreBlock ⇒ count{PreCommitPayloads | current view} ≥ M ∧ anti-MEV ∧ ¬preBlockProcessed ∧ all transactions"}
	ss := c.callSites("cb:ProcessPreBlock")
	if len(ss) == 0 {
		r.unresolved("call site of Config.ProcessPreBlock")
	}
	c.guardRule(r, ss, c.apiList, func(s *Site, sn *Snap) *Formula {
		return fAnd(quorumAtLeast("PreCommitPayloads", viewPhi(), mNF()), fAllTx(), fAMEV(), fNot(bl(fld("ctx.preBlockProcessed", false))))
	}, nil)
	return r
}

var payloadTables = []string{"PreparationPayloads", "PreCommitPayloads", "CommitPayloads", "ChangeViewPayloads", "LastChangeViewPayloads"}

// P-SLOT
func ruleSlot(c *RC) *RuleResult {
	r := &RuleResult{Rule: "P-SLOT", Kind: "PROV", Doc: "T[i] = m only with i ≡ m.ValidatorIndex() (received), i ≡ MyIndex (self-made) or the same index of a sibling table"}
	total := 0
	for _, t := range payloadTables {
		for _, s := range c.writesTo("ctx." + t) {
			for _, sn := range s.Snaps {
				if sn.Idx == nil || sn.Val == nil || sn.Val.K == KNil {
					continue
				}
				total++
				r.Sites++
				v, i := sn.Val, sn.Idx
				okk := false
				why := ""
				switch {
				case i.K == KCall && strings.HasSuffix(i.Name, ".ValidatorIndex") && len(i.Args) == 1 && i.Args[0].S == v.S:
					okk, why = true, "index is the stored payload's own ValidatorIndex()"
				case i.S == "ctx.MyIndex" && (v.K == KLocal || v.K == KCall) && v.NonNil:
					okk, why = true, "own slot receives a payload built by this node"
				case i.S == "ctx.MyIndex" && v.K == KLocal:
					okk, why = true, "own slot receives a payload built by this node"
				case v.K == KIndex && v.Args[1].S == i.S && strings.HasPrefix(v.Args[0].S, "ctx."):
					okk, why = true, "copied from the same index of "+v.Args[0].S
				}
				if okk {
					r.ok(fmt.Sprintf("%s: %s[%s] = %s — %s", s.Fn.Name, t, i.S, v.S, why))
				} else {
					r.fail(s.Fn.Name+"/slot:"+t, c.Prog.Pos(s.Node), fmt.Sprintf("store %s[%s] = %s is not keyed by the payload's validator index", t, i.S, v.S))
				}
			}
		}
	}
	if total < 8 {
		r.unresolved(fmt.Sprintf("slot stores into payload tables (found %d, expected >= 8)", total))
	}
	return r
}

// P-TIP
func ruleTip(c *RC) *RuleResult {
	r := &RuleResult{Rule: "P-TIP", Kind: "PROV", Doc: "at the height reset PrevHash ← CurrentBlockHash(), BlockIndex ← CurrentHeight()+1, Validators ← GetValidators()"}
	if c.A.epochWriter == nil {
		r.unresolved("epoch writer")
		return r
	}
	want := map[string]string{"ctx.PrevHash": "CurrentBlockHash", "ctx.BlockIndex": "CurrentHeight+1", "ctx.Validators": "GetValidators", "ctx.timePerBlock": "TimePerBlock"}
	got := map[string]string{}
	info := c.A.epochWriter.Pkg.TypesInfo
	for _, cf := range c.Prog.dbftFuncs() {
		if !c.inEpoch(cf) {
			continue
		}
		ast.Inspect(cf.Decl.Body, func(n ast.Node) bool {
			as, ok := n.(*ast.AssignStmt)
			if !ok || len(as.Lhs) != len(as.Rhs) {
				return true
			}
			for i, l := range as.Lhs {
				sel, ok := ast.Unparen(l).(*ast.SelectorExpr)
				if !ok {
					continue
				}
				loc := "ctx." + sel.Sel.Name
				if s := info.Selections[sel]; s != nil && s.Kind() == types.FieldVal {
					loc = "ctx." + c.Prog.fieldRole(s.Obj().(*types.Var), sel.Sel.Name)
				}
				if _, w := want[loc]; !w {
					continue
				}
				got[loc] = srcDesc(info, as.Rhs[i])
			}
			return true
		})
	}
	for loc, w := range want {
		r.Sites++
		if got[loc] == w {
			r.ok(loc + " ← " + w)
		} else {
			r.fail(c.A.epochWriter.Name+"/src:"+loc, c.Prog.Pos(c.A.epochWriter.Decl), fmt.Sprintf("%s assigned from %q, expected %s", loc, got[loc], w))
		}
	}
	// these assignments are under view == 0 only
	vp := mkTerm(KParam, c.A.epochViewParm.Name())
	vp.Unsigned = true
	for _, loc := range []string{"ctx.PrevHash", "ctx.BlockIndex", "ctx.Validators"} {
		for _, s := range c.writesTo(loc) {
			d := c.epochDemand()
			r.Sites++
			if f := d.ProveAt(s, func(sn *Snap) *Formula { return eq(vp, tZero) }); f != nil {
				r.fail(s.Fn.Name+"/view0:"+loc, c.Prog.Pos(s.Node), loc+" re-assigned on a view change: "+f.String())
			} else {
				r.ok(loc + " assigned only under view==0")
			}
		}
	}
	return r
}

// srcDesc describes simple source expressions: callback call, callback+const.
func srcDesc(info *types.Info, e ast.Expr) string {
	e = ast.Unparen(e)
	switch x := e.(type) {
	case *ast.CallExpr:
		if sel, ok := ast.Unparen(x.Fun).(*ast.SelectorExpr); ok {
			if s := info.Selections[sel]; s != nil && s.Kind() == types.FieldVal {
				return sel.Sel.Name
			}
			if s := info.Selections[sel]; s != nil && s.Kind() == types.MethodVal {
				return "method:" + sel.Sel.Name
			}
		}
		return "call"
	case *ast.BinaryExpr:
		if tv, ok := info.Types[x.Y]; ok && tv.Value != nil {
			return srcDesc(info, x.X) + x.Op.String() + tv.Value.ExactString()
		}
		return "expr"
	case *ast.Ident:
		return "var:" + x.Name
	case *ast.SelectorExpr:
		return "field:" + x.Sel.Name
	}
	return "expr"
}

// O-PROPOSAL: Timestamp/Nonce/TransactionHashes writers and sources
func ruleProposalFields(c *RC) *RuleResult {
	r := &RuleResult{Rule: "O-PROPOSAL", Kind: "OWN+PROV", Doc: "Timestamp, Nonce, TransactionHashes are assigned only in the proposal receiver (from the like-named getters of the request), the proposal builder, and cleared by the epoch writer"}
	for _, f := range []struct{ loc, getter string }{{"ctx.Timestamp", "PrepareRequest.Timestamp"}, {"ctx.Nonce", "PrepareRequest.Nonce"}, {"ctx.TransactionHashes", "PrepareRequest.TransactionHashes"}} {
		ws := c.writesTo(f.loc)
		if len(ws) == 0 {
			r.unresolved("writes to " + f.loc)
		}
		recv := 0
		for _, s := range ws {
			r.Sites++
			switch {
			case c.inBuilder(s.Fn) || c.inEpoch(s.Fn):
				r.ok(fmt.Sprintf("%s written in %s", f.loc, s.Fn.Name))
			default:
				// judged on the site itself, and — when the assignment sits in a helper that is handed the request —
				// on the walk of the function the helper serves
				judge := func(t *Site) (bool, *Failure) {
					for _, sn := range t.Snaps {
						if sn.Val == nil || sn.Val.K != KCall || sn.Val.Name != f.getter || !strings.Contains(sn.Val.S, "GetPrepareRequest(p:msg)") {
							return false, nil
						}
					}
					d := c.A.newDemand(c.apiList)
					return true, d.ProveAt(t, func(sn *Snap) *Formula { return c.fProposalAdmission() })
				}
				good, fl := judge(s)
				if !good || fl != nil {
					if s2 := c.clusterSite(s); s2 != nil {
						if g2, f2 := judge(s2); g2 && f2 == nil {
							good, fl = true, nil
						}
					}
				}
				// must be behind the proposal admission
				if good {
					if fl != nil {
						r.fail(s.Fn.Name+"/admission:"+f.loc, c.Prog.Pos(s.Node), fl.String())
						continue
					}
					recv++
					r.ok(fmt.Sprintf("%s ← %s of the admitted request in %s", f.loc, f.getter, s.Fn.Name))
				} else {
					r.fail(s.Fn.Name+"/src:"+f.loc, c.Prog.Pos(s.Node), f.loc+" assigned from something other than "+f.getter+"() of the received request")
				}
			}
		}
		if recv == 0 {
			r.unresolved("assignment of " + f.loc + " from the received request")
		}
	}
	// block constructors fill transactions in proposal order
	for _, name := range []string{"Context.CreateBlock", "Context.CreatePreBlock"} {
		fn := c.Prog.fn(name)
		r.Sites++
		if fn == nil {
			r.unresolved(name)
			continue
		}
		if c.orderedFillReach(fn, 0) {
			r.ok(name + ": txx[i] = Transactions[h] with (i, h) ranging TransactionHashes in order")
		} else {
			r.fail(name+"/order", c.Prog.Pos(fn.Decl), "transactions are not filled by ranging TransactionHashes with the range index")
		}
	}
	return r
}

func (c *RC) fProposalAdmission() *Formula {
	m := msgParam()
	return fAnd(eq(getter("ConsensusMessage", "ViewNumber", m, true), tViewNumber),
		eq(getter("ConsensusPayload", "ValidatorIndex", m, true), tPrimaryIndex),
		fNot(nn(mkTerm(KCall, "cfg.VerifyPrepareRequest", m))))
}

func (c *RC) proposalBuilder() *FuncInfo {
	for _, fn := range c.Prog.dbftFuncs() {
		calls := false
		for _, s := range c.A.FnSites[fn] {
			if s.Kind == "call" && s.Callee == "cb:GetVerified" {
				calls = true
			}
		}
		if !calls {
			continue
		}
		// the builder, or the private helpers carved out of it, assign Timestamp
		for cf := range c.A.cluster(fn) {
			for _, s := range c.A.FnSites[cf] {
				if s.Kind == "write" && s.Loc == "ctx.Timestamp" {
					return fn
				}
			}
		}
	}
	return nil
}

func (c *RC) inBuilder(fn *FuncInfo) bool {
	b := c.proposalBuilder()
	if b == nil {
		return false
	}
	if c.builderCl == nil {
		c.builderCl = c.A.cluster(b)
	}
	return c.builderCl[fn]
}

// orderedFill: somewhere in fn (read through locals and helpers) a list is filled in proposal order:
// L[i] = Transactions[TransactionHashes[i]] for one and the same index i.
var reOrderedL = regexp.MustCompile(`^[A-Za-z_][A-Za-z_0-9.]*\[([A-Za-z_][A-Za-z_0-9]*)\]$`)

func (c *RC) orderedFill(fn *FuncInfo) bool {
	nf := c.collectNormAll(fn)
	for _, as := range nf.assigns {
		m := reOrderedL.FindStringSubmatch(as[0])
		if m == nil {
			continue
		}
		i := m[1]
		if j := strings.Index(as[1], ".Transactions["); j >= 0 {
			inner := as[1][j+len(".Transactions["):]
			if strings.HasSuffix(inner, ".TransactionHashes["+i+"]]") && strings.Count(inner, "[") == 1 {
				return true
			}
		}
	}
	return false
}

// verification routines: functions ranging a (pre)commit table, calling Verify and nil-ing entries.
func (c *RC) verifyRoutines() map[*FuncInfo]string {
	out := map[*FuncInfo]string{}
	for _, fn := range c.Prog.dbftFuncs() {
		table, verify := "", false
		for _, s := range c.A.FnSites[fn] {
			if s.Kind == "write" && s.Store == KillNil && (s.Loc == "ctx.CommitPayloads" || s.Loc == "ctx.PreCommitPayloads") {
				for _, sn := range s.Snaps {
					if sn.Idx != nil && strings.HasPrefix(sn.Idx.Name, "rangekey:") {
						table = s.Loc
					}
				}
			}
			if s.Kind == "call" && (s.Callee == "if:Block.Verify" || s.Callee == "if:PreBlock.Verify") {
				verify = true
			}
		}
		if table != "" && verify {
			out[fn] = table
		}
	}
	return out
}

// D-REVALIDATE: a call of a verification routine happens in a state where the header / pre-block it verifies
// against can be obtained; otherwise the call verifies nothing.
func ruleRevalidate(c *RC) *RuleResult {
	r := &RuleResult{Rule: "D-REVALIDATE", Kind: "DEADCALL", Doc: "every call of a (pre)commit re-validation routine is made where its header/pre-block is obtainable: proposal recorded, and for the header under anti-MEV the pre-block processed"}
	vr := c.verifyRoutines()
	if len(vr) < 2 {
		r.unresolved(fmt.Sprintf("re-validation routines (found %d, expected 2)", len(vr)))
	}
	n := 0
	// a call that can verify nothing is harmless where the same handler re-validates the same table at a place where it
	// can (after the proposal is stored): live[role+table]
	live := map[string]bool{}
	type deadCall struct{ role, table, where, msg string }
	var dead []deadCall
	for fn, table := range vr {
		for _, cs := range c.A.callers[fn] {
			n++
			r.Sites++
			d := c.A.newDemand(c.apiList)
			// "the proposal is recorded": the primary's slot is filled — or, in a helper that has just stored the payload it
			// was given into its sender's slot, that slot is filled and the sender is the primary (which the helper's
			// caller knows, not the helper)
			rsr := fRSR()
			for _, prm := range cs.Fn.Params {
				if namedName(prm.Type()) == "ConsensusPayload" {
					pt := mkTerm(KParam, prm.Name())
					pt.NonNil = true
					snd := getter("ConsensusPayload", "ValidatorIndex", pt, true)
					rsr = fOr(rsr, fAnd(nn(slot("PreparationPayloads", snd)), eq(snd, tPrimaryIndex)))
				}
			}
			g := func(sn *Snap) *Formula {
				if table == "ctx.CommitPayloads" {
					return fAnd(rsr, fOr(fNot(fAMEV()), bl(fld("ctx.preBlockProcessed", false))))
				}
				return rsr
			}
			if f := d.ProveAt(cs, g); f == nil {
				r.ok(fmt.Sprintf("%s -> %s: header/pre-block obtainable at the call", cs.Fn.Name, fn.Name))
				live[c.roleName(cs.Fn)+"|"+table] = true
			} else {
				// the construct names roles, not the helper the call happens to sit in: the function the caller serves
				// (a message handler is named by its kind) and the table the routine re-validates
				// ... found along the failing chain when the call sits in a helper shared by several handlers
				role := c.roleName(cs.Fn)
				if !strings.HasPrefix(role, "handler:") {
					hs := c.handlers()
					for _, link := range f.Chain {
						name := link
						if i := strings.Index(name, "@"); i >= 0 {
							name = name[:i]
						}
						if g := c.Prog.fn(name); g != nil {
							for kind, h := range hs {
								if h == g && !strings.HasPrefix(role, "handler:") {
									role = "handler:" + kind
								}
							}
						}
					}
				}
				dead = append(dead, deadCall{role, table, c.Prog.Pos(cs.Node), cs.Fn.Name + " -> " + fn.Name + ": " + "the re-validation call cannot verify anything in this state (no header/pre-block can be built): " + f.String()})
			}
		}
	}
	sort.Slice(dead, func(i, j int) bool { return dead[i].role+dead[i].table+dead[i].where < dead[j].role+dead[j].table+dead[j].where })
	for _, dc := range dead {
		if live[dc.role+"|"+dc.table] {
			r.ok(fmt.Sprintf("%s: a call that can verify nothing (%s) is made good by a later re-validation of %s in the same handler", dc.role, dc.where, dc.table))
		} else {
			r.fail(dc.role+"->revalidate:"+dc.table, dc.where, dc.msg)
		}
	}
	if n < 3 {
		r.unresolved("call sites of re-validation routines")
	}
	return r
}

// roleName names the function fn serves: fn itself, or — for a single-caller private helper — the function up the
// chain of single callers; a message handler is named by the kind it handles.
func (c *RC) roleName(fn *FuncInfo) string {
	hs := c.handlers()
	for hop := 0; hop < 6; hop++ {
		for kind, h := range hs {
			if h == fn {
				return "handler:" + kind
			}
		}
		if !c.A.inlinable(fn) {
			break
		}
		cs := c.A.callers[fn]
		if len(cs) != 1 || cs[0].Fn == fn {
			break
		}
		fn = cs[0].Fn
	}
	return fn.Name
}

// G-VERIFY-ON-STORE: after a received current-view (pre)commit is stored, the acceptance test is reached only after
// Verify returned nil for it.
func ruleVerifyOnStore(c *RC) *RuleResult {
	r := &RuleResult{Rule: "G-VERIFY-ON-STORE", Kind: "GUARD", Doc: "handler of a received (pre)commit: the quorum/acceptance check is called only after Block.Verify / PreBlock.Verify returned nil for that payload; a failed verification removes the entry"}
	hs := c.handlers()
	for _, k := range []struct{ kind, table, verify string }{{"CommitType", "ctx.CommitPayloads", "if:Block.Verify"}, {"PreCommitType", "ctx.PreCommitPayloads", "if:PreBlock.Verify"}} {
		h := hs[k.kind]
		if h == nil {
			r.unresolved("handler of " + k.kind)
			continue
		}
		// calls that may reach the acceptance callbacks
		n := 0
		// the handler with its single-caller helpers inline (the verification may sit in a helper)
		rec := c.inlineSites(h, false)
		var hs2 []*Site
		inlined := map[*FuncInfo]bool{}
		for _, g := range c.Prog.sortedFuncs() {
			if len(rec.FnSites[g]) > 0 {
				hs2 = append(hs2, rec.FnSites[g]...)
				if g != h {
					inlined[g] = true
				}
			}
		}
		for _, s := range hs2 {
			if s.Kind != "call" || s.Target == nil || inlined[s.Target] || !c.reachesAccept(s.Target) {
				continue
			}
			for _, sn := range s.Snaps {
				n++
				r.Sites++
				okk := false
				for kf, v := range sn.F.m {
					if !v && strings.HasPrefix(kf, "l:"+k.verify+":") && strings.HasSuffix(kf, "!=nil") {
						okk = true
					}
				}
				if okk {
					r.ok(fmt.Sprintf("%s: %s reached only after %s returned nil", h.Name, s.Callee, k.verify))
				} else {
					r.fail(h.Name+"/accept-without-verify", c.Prog.Pos(s.Node), "the acceptance check is reachable for a freshly stored "+k.kind+" payload without a successful "+k.verify+": {"+sn.Trail+"}")
				}
			}
		}
		if n == 0 {
			r.unresolved("acceptance check call in the handler of " + k.kind)
		}
		// exits where Verify failed have the entry removed
		r.Sites++
		bad := ""
		nf := 0
		for _, e := range c.exitsOf(h) {
			failed := false
			for kf, v := range e.F.m {
				if v && strings.HasPrefix(kf, "l:"+k.verify+":") && strings.HasSuffix(kf, "!=nil") {
					failed = true
				}
			}
			if !failed {
				continue
			}
			nf++
			if e.Killed[k.table]&KillNilAny == 0 {
				bad = "{" + strings.Join(e.Trail, "; ") + "}"
			}
		}
		if nf == 0 {
			bad = "no path tests the result of " + k.verify
		}
		if bad == "" {
			r.ok(h.Name + ": a failed " + k.verify + " removes the stored entry")
		} else {
			r.fail(h.Name+"/failed-verify-kept", c.Prog.Pos(h.Decl), "a payload whose verification failed stays stored on path "+bad)
		}
	}
	return r
}

func (c *RC) reachesAccept(fn *FuncInfo) bool {
	seen := map[*FuncInfo]bool{}
	var visit func(f *FuncInfo) bool
	visit = func(f *FuncInfo) bool {
		if seen[f] {
			return false
		}
		seen[f] = true
		for _, s := range c.A.FnSites[f] {
			if s.Kind == "call" && (s.Callee == "cb:ProcessBlock" || s.Callee == "cb:ProcessPreBlock") {
				return true
			}
			if s.Target != nil && visit(s.Target) {
				return true
			}
		}
		return false
	}
	return visit(fn)
}

// orderedFillReach: the ordered fill loop is in fn or in a function it calls (extracted helper).
func (c *RC) orderedFillReach(fn *FuncInfo, depth int) bool {
	if c.orderedFill(fn) {
		return true
	}
	if depth >= 2 {
		return false
	}
	for _, s := range c.A.FnSites[fn] {
		if s.Kind == "call" && s.Target != nil && s.Target != fn && c.orderedFillReach(s.Target, depth+1) {
			return true
		}
	}
	return false
}

// M-START-ASKS (C09, restart clause): Start puts a node with EMPTY consensus state into the protocol. A validator that
// restarts inside a height cannot know what it said before it went down; if it is the primary and proposes again at once,
// the second proposal differs from the first (new nonce, new timestamp), the validators that prepared and committed on
// the first one ignore it, and the restarted primary throws away everything they send it (hashes and signatures do not
// match its second proposal): with F further validators silent nobody can commit or change view any more. So the
// starting entry itself must not propose — it may ask for recovery, or wait for its timer.
func ruleStartAsks(c *RC) *RuleResult {
	r := &RuleResult{Rule: "M-START-ASKS", Kind: "MUST", Doc: "the entry that starts a node with empty consensus state does not broadcast a proposal of its own accord (a restarted primary would contradict what it proposed before the crash)"}
	start := c.API["Start"]
	r.Sites++
	if start == nil {
		r.unresolved("API entry Start")
		return r
	}
	proposers := map[*FuncInfo]bool{}
	for _, ss := range c.sendSites {
		if hasKind(ss.Kinds, "PrepareRequestType") {
			proposers[ss.Site.Fn] = true
			proposers[c.servedRoot(ss.Site.Fn)] = true
		}
	}
	if len(proposers) == 0 {
		r.unresolved("typed send site of kind PrepareRequest")
		return r
	}
	bad := ""
	for _, s := range c.A.FnSites[start] {
		if s.Kind == "call" && s.Target != nil && proposers[s.Target] {
			bad = c.Prog.Pos(s.Node)
		}
	}
	if bad == "" {
		r.ok("Start does not propose by itself")
	} else {
		r.fail("Start/proposes-without-recovery", bad, "Start sends a PrepareRequest straight away when the node is the primary: a primary that restarts after it proposed signs a second, different proposal for the same height and view; the validators that committed on the first ignore it, the restarted node rejects their responses and commits, and with F other validators silent the height is never decided")
	}
	return r
}
