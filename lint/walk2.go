package main

// Walker part 2: loops (with quorum counters), calls and summaries.

import (
	"fmt"
	"go/ast"
	"go/token"
	"go/types"
	"os"
	"sort"
	"strconv"
	"strings"

	"golang.org/x/tools/go/types/typeutil"
)

// swBreaks is declared here to keep walk.go compact.
type walkerExtra struct{}

func (w *Walker) loop(s ast.Stmt, in []*State) []*State {
	var body *ast.BlockStmt
	var rng *ast.RangeStmt
	var fr *ast.ForStmt
	switch x := s.(type) {
	case *ast.RangeStmt:
		rng = x
		body = x.Body
	case *ast.ForStmt:
		fr = x
		body = x.Body
	}
	var out []*State
	for _, st0 := range in {
		sts := []*State{st0}
		var tables []*Term
		if fr != nil && fr.Init != nil {
			sts = w.stmt(fr.Init, sts)
		}
		if rng != nil {
			var next []*State
			for _, st := range sts {
				for _, r := range w.eval(rng.X, st) {
					tables = append(tables, r.t)
					next = append(next, r.st)
				}
			}
			sts = next
		}
		for si, st := range sts {
			var table *Term
			if rng != nil {
				table = tables[si]
			}
			var keyID *ast.Ident
			if fr != nil {
				// counted loop `for i := 0; i < len(X); i++`: a range over X with key i
				if id, x := countedFor(fr); id != nil {
					if rs := w.eval(x, st); len(rs) == 1 && rs[0].t != nil && (rs[0].t.K == KField || rs[0].t.K == KLocal || rs[0].t.K == KParam) {
						table, keyID, st = rs[0].t, id, rs[0].st
					}
				}
			}
			// definition reading (DEF-COUNTS): the body is walked once for one arbitrary element — what the loop does to it
			if w.A.oneIter && (rng != nil || keyID != nil && table != nil) {
				w.A.oneIterN++
				if rng != nil {
					w.bindLoopVars(rng, table, st, fmt.Sprintf("one%d", w.A.oneIterN))
				} else {
					// the counted form `for i := 0; i < len(T); i++`: i is an index of T
					k := mkTerm(KLocal, fmt.Sprintf("rangekey:one%d:%s", w.A.oneIterN, table.S))
					k.Reads = nil
					k.Unsigned = false
					w.bindLocal(keyID, k, st)
				}
				w.loops = append(w.loops, &loopCtx{})
				out = append(out, w.stmts(body.List, []*State{st})...)
				lc := w.loops[len(w.loops)-1]
				w.loops = w.loops[:len(w.loops)-1]
				// the element is done with: `continue` ends its reading like the end of the body does; a `break` makes
				// the treatment of an element depend on the ones before it, which this reading cannot express
				out = append(out, lc.conts...)
				if len(lc.breaks) > 0 {
					w.undecided(s, "break in a loop that is read as a per-element definition")
					out = append(out, lc.breaks...)
				}
				continue
			}
			// a range over a short list written out in place (or returned as such by an accessor): one pass per element
			if rng != nil && table != nil && w.listLit(table, rng) && !hasLoopBranch(body) {
				cur := []*State{st}
				for i, el := range table.Args {
					for _, c := range cur {
						if id, ok := rng.Value.(*ast.Ident); ok && id.Name != "_" {
							w.bindIdent(id, el, c)
						}
						if id, ok := rng.Key.(*ast.Ident); ok && id.Name != "_" {
							w.bindIdent(id, constTerm(strconv.Itoa(i)), c)
						}
					}
					cur = w.stmts(body.List, cur)
				}
				out = append(out, cur...)
				continue
			}
			out = append(out, w.loopOne(s, rng, fr, body, table, st, keyID)...)
		}
	}
	return out
}

// listLit: the ranged value is a literal array / slice of at most eight elements whose terms are at hand.
func (w *Walker) listLit(t *Term, rng *ast.RangeStmt) bool {
	if t.K != KLocal || !strings.HasPrefix(t.Name, "lit") || len(t.Fields) != 0 || len(t.Args) == 0 || len(t.Args) > 32 || t.ST != nil {
		return false
	}
	switch w.info.TypeOf(rng.X).Underlying().(type) {
	case *types.Array, *types.Slice:
		return true
	}
	return false
}

func (w *Walker) bindIdent(id *ast.Ident, t *Term, st *State) {
	obj := w.info.Defs[id]
	if obj == nil {
		obj = w.info.Uses[id]
	}
	if v, ok := obj.(*types.Var); ok {
		st.Env[v] = t
	}
}

// hasLoopBranch: the body leaves an iteration early (break / continue / goto / return) somewhere.
func hasLoopBranch(body *ast.BlockStmt) bool {
	found := false
	ast.Inspect(body, func(n ast.Node) bool {
		switch n.(type) {
		case *ast.BranchStmt:
			found = true // (a return simply ends the path, in the unrolled form as in the loop)
		case *ast.FuncLit:
			return false
		}
		return !found
	})
	return found
}

// assignedLocals lists local variables (declared outside the loop body) assigned in it.
func (w *Walker) assignedLocals(body ast.Node, st *State) map[*types.Var][]ast.Node {
	res := map[*types.Var][]ast.Node{}
	note := func(e ast.Expr, at ast.Node) {
		if fv := w.localFieldVar(e); fv != nil {
			if _, known := st.Env[fv]; !known {
				// first touched inside the loop: the field of a zero-initialised (or earlier defined) local
				bv, _ := w.info.Uses[ast.Unparen(ast.Unparen(e).(*ast.SelectorExpr).X).(*ast.Ident)].(*types.Var)
				st.Env[fv] = fresh("fld_" + fv.Name() + "_")
				if base, ok := st.Env[bv]; ok && base != nil && len(base.Fields) == len(base.Args) {
					for j, fnm := range base.Fields {
						if fnm == w.A.fieldVarField[fv].Name() {
							st.Env[fv] = base.Args[j]
						}
					}
				}
			}
			res[fv] = append(res[fv], at)
			return
		}
		if id, ok := ast.Unparen(e).(*ast.Ident); ok {
			if v, ok := w.info.Uses[id].(*types.Var); ok && !v.IsField() {
				if _, known := st.Env[v]; known {
					res[v] = append(res[v], at)
				}
			}
		}
	}
	ast.Inspect(body, func(n ast.Node) bool {
		switch x := n.(type) {
		case *ast.AssignStmt:
			for _, l := range x.Lhs {
				note(l, x)
			}
		case *ast.IncDecStmt:
			note(x.X, x)
		case *ast.FuncLit:
			return false
		}
		return true
	})
	return res
}

func (w *Walker) loopOne(s ast.Stmt, rng *ast.RangeStmt, fr *ast.ForStmt, body *ast.BlockStmt, table *Term, st *State, keyID *ast.Ident) []*State {
	loopID := fmt.Sprintf("L%d", w.A.Prog.Fset.Position(s.Pos()).Line)
	// 1. pre-pass: discover what the body may kill
	pre := st.clone()
	// the probe starts with a clean kill record: what matters is what the BODY writes, whether or not the location was
	// already written earlier in the function (facts re-established since then must not survive the loop)
	pre.Killed = map[string]int{}
	probe := &Walker{A: w.A, Fn: w.Fn, info: w.info, record: false, depth: w.depth, inl: w.inl, budget: w.budget, defers: nil}
	probe.loops = append(probe.loops, &loopCtx{})
	savedInl := w.inl
	if w.inl != nil {
		probe.inl = &inlineCtx{}
	}
	probe.bindLoopVars(rng, table, pre, loopID)
	probe.bindCountedKey(keyID, table, pre, loopID)
	preKilled := map[string]int{}
	pouts := probe.stmts(body.List, []*State{pre})
	lc := probe.loops[0]
	collect := func(ss []*State) {
		for _, p := range ss {
			for l, k := range p.Killed {
				if k != 0 {
					preKilled[l] |= k
				}
			}
		}
	}
	collect(pouts)
	collect(lc.breaks)
	collect(lc.conts)
	collect(probe.exits)
	if probe.inl != nil {
		for _, r := range probe.inl.rets {
			collect([]*State{r.st})
		}
	}
	w.inl = savedInl
	// 2. havoc
	assigned := w.assignedLocals(body, st)
	if fr != nil && fr.Post != nil {
		for v, n := range w.assignedLocals(fr.Post, st) {
			assigned[v] = append(assigned[v], n...)
		}
	}
	// locals written by what the body calls inline (a closure incrementing a captured counter, a helper walked with the
	// caller's environment): found in the probe's results, not in the body's own syntax
	staleOf := map[*types.Var]string{}
	dyn := func(ss []*State) {
		for _, p := range ss {
			for v, t := range st.Env {
				if pt, ok := p.Env[v]; ok && pt != t && (pt == nil || t == nil || pt.S != t.S) {
					if pt != nil && pt.K == KLocal && strings.HasPrefix(pt.Name, "stale:") {
						// not assigned: the value went stale because the body wrote what it was derived from
						if i := strings.LastIndex(pt.Name, ":"); i > 0 {
							staleOf[v] = pt.Name[:i+1]
						}
						continue
					}
					if _, have := assigned[v]; !have {
						assigned[v] = nil
					}
				}
			}
		}
	}
	dyn(pouts)
	dyn(lc.breaks)
	dyn(lc.conts)
	dyn(probe.exits)
	if probe.inl != nil {
		for _, r := range probe.inl.rets {
			dyn([]*State{r.st})
		}
	}
	h := st.clone()
	var locs []string
	for l := range preKilled {
		locs = append(locs, l)
	}
	sort.Strings(locs)
	for _, l := range locs {
		applyKill(h, l, preKilled[l], nil)
	}
	initial := map[*types.Var]*Term{}
	for v := range assigned {
		initial[v] = st.Env[v]
		h.Env[v] = fresh("loopvar_" + v.Name() + "_")
	}
	for v, pre := range staleOf {
		if _, isAssigned := assigned[v]; !isAssigned {
			h.Env[v] = fresh(pre) // stale from the first iteration on (and after the loop, if it ran)
		}
	}
	after := h.clone()
	// 3. body walk with recording
	b := h.clone()
	w.bindLoopVars(rng, table, b, loopID)
	w.bindCountedKey(keyID, table, b, loopID)
	bodyIn := []*State{b}
	if fr != nil && fr.Cond != nil && keyID == nil {
		ts, fs := w.cond(fr.Cond, b)
		bodyIn = ts
		// after-loop state satisfies !cond
		var na []*State
		for _, f := range fs {
			na = append(na, f)
		}
		_ = na
	}
	entryFacts := map[string]bool{}
	for _, bi := range bodyIn {
		for k, v := range bi.F.m {
			if v {
				entryFacts[k] = true
			} else {
				entryFacts["!"+k] = true
			}
		}
	}
	w.loops = append(w.loops, &loopCtx{})
	// counter discovery hooks
	w.cnt = append(w.cnt, &cntCtx{table: table, loopID: loopID, entry: entryFacts, sites: map[*types.Var][]cntSite{}, assigned: assigned, trailLen: len(b.TrailL)})
	outs := w.stmts(body.List, bodyIn)
	cc := w.cnt[len(w.cnt)-1]
	w.cnt = w.cnt[:len(w.cnt)-1]
	mylc := w.loops[len(w.loops)-1]
	w.loops = w.loops[:len(w.loops)-1]
	_ = outs
	// 4. after-loop states
	res := []*State{after}
	// loop condition false for `for cond {}` loops
	if fr != nil && fr.Cond != nil && keyID == nil {
		_, fs := w.cond(fr.Cond, after)
		res = fs
	}
	// bind counters
	for v := range assigned {
		t := w.counterTerm(v, initial[v], cc)
		for _, r := range res {
			if t != nil {
				r.Env[v] = t
			}
		}
	}
	for _, br := range mylc.breaks {
		for v := range assigned {
			if _, ok := br.Env[v]; ok {
				br.Env[v] = fresh("brk_" + v.Name() + "_")
			}
		}
		res = append(res, br)
	}
	return res
}

type cntSite struct {
	kind string // "inc" or "settrue" or "other"
	phi  string
	lits []Lit
}

type cntCtx struct {
	table    *Term
	loopID   string
	entry    map[string]bool
	sites    map[*types.Var][]cntSite
	assigned map[*types.Var][]ast.Node
	trailLen int
	altElem  bool
}

func (w *Walker) bindLoopVars(rng *ast.RangeStmt, table *Term, st *State, loopID string) {
	if rng == nil {
		return
	}
	if id, ok := rng.Key.(*ast.Ident); ok && id.Name != "_" {
		k := fresh("key")
		k.Name = "rangekey:" + loopID
		if table != nil {
			kt := table
			if kt.K == KLen && len(kt.Args) == 1 {
				kt = kt.Args[0] // for i := range len(T): the key ranges over T's indices
			}
			k = mkTerm(KLocal, "rangekey:"+loopID+":"+kt.S)
			k.Reads = nil
		}
		k.Unsigned = false
		w.bindLocal(id, k, st)
	}
	if rng.Value != nil {
		if id, ok := rng.Value.(*ast.Ident); ok && id.Name != "_" {
			var e *Term
			if table != nil {
				e = mkTerm(KElem, loopID, table)
			} else {
				e = fresh("elem")
			}
			w.bindLocal(id, e, st)
		}
	}
}

// noteCounter is called from store() hooks when a tracked local is assigned in a loop body.
func (w *Walker) noteCounter(v *types.Var, kind string, st *State) {
	if len(w.cnt) == 0 {
		return
	}
	cc := w.cnt[len(w.cnt)-1]
	if _, ok := cc.assigned[v]; !ok {
		return
	}
	// phi = branch conditions taken since loop body entry; each must be about the loop element
	var lits []string
	var plits []Lit
	elemPrefix := ""
	if cc.table != nil {
		elemPrefix = "elem(" + cc.table.S + ")#" + cc.loopID
	}
	start := cc.trailLen
	if start > len(st.TrailL) {
		start = len(st.TrailL)
	}
	// index-style loops: T[key] is the element
	elemAlt := ""
	if cc.table != nil {
		elemAlt = cc.table.S + "[l:rangekey:" + cc.loopID + ":" + cc.table.S + "]"
	}
	for _, l := range st.TrailL[start:] {
		key := l.A.S
		if !l.Pos {
			key = "!" + key
		}
		if elemPrefix != "" && strings.Contains(key, elemPrefix) {
			lits = append(lits, strings.ReplaceAll(key, elemPrefix, "e"))
			plits = append(plits, l)
		} else if elemAlt != "" && strings.Contains(key, elemAlt) {
			lits = append(lits, strings.ReplaceAll(key, elemAlt, "e"))
			plits = append(plits, l)
			cc.altElem = true
		} else {
			lits = append(lits, "?"+key)
		}
	}
	sort.Strings(lits)
	cc.sites[v] = append(cc.sites[v], cntSite{kind, strings.Join(lits, " & "), plits})
}

func (w *Walker) counterTerm(v *types.Var, init *Term, cc *cntCtx) *Term {
	sites := cc.sites[v]
	if os.Getenv("DBG_CNT") != "" {
		fmt.Fprintf(os.Stderr, "counter %s init=%v sites=%v\n", v.Name(), init, sites)
	}
	if len(sites) == 0 || cc.table == nil || init == nil {
		return nil
	}
	kind := sites[0].kind
	phis := map[string]bool{}
	for _, s := range sites {
		if s.kind != kind || s.kind == "other" || strings.Contains(s.phi, "?") {
			return nil
		}
		phis[s.phi] = true
	}
	var ps []string
	for p := range phis {
		ps = append(ps, p)
	}
	ps = mergePhis(ps)
	sort.Strings(ps)
	name := cc.table.S + "|" + strings.Join(ps, " OR ")
	switch kind {
	case "inc":
		if init.K != KConst || init.S != "0" {
			return nil
		}
		t := mkTerm(KCount, name)
		t.Phi = sites[0].lits
		t.ElemS = "elem(" + cc.table.S + ")#" + cc.loopID
		if cc.altElem {
			t.ElemS = cc.table.S + "[l:rangekey:" + cc.loopID + ":" + cc.table.S + "]"
		}
		t.Table = cc.table.S
		t.Reads = append([]string{}, cc.table.Reads...)
		// phi may read other state (ViewNumber): collect from phi text
		for _, loc := range []string{"ctx.ViewNumber", "ctx.BlockIndex", "ctx.PrimaryIndex", "ctx.MyIndex"} {
			if strings.Contains(name, loc) {
				t.Reads = append(t.Reads, loc)
			}
		}
		t.Reads = uniq(t.Reads)
		return t
	case "settrue":
		if init.K != KConst || init.S != "false" {
			return nil
		}
		t := mkTerm(KExists, name)
		t.Reads = append([]string{}, cc.table.Reads...)
		return t
	}
	return nil
}

// ---- calls ----

type callRes struct {
	st *State
	ts []*Term
}

func (w *Walker) evalCall(call *ast.CallExpr, st *State, nres int) []callRes {
	fun := ast.Unparen(call.Fun)
	// conversions
	if tv, ok := w.info.Types[fun]; ok && tv.IsType() {
		if len(call.Args) != 1 {
			return []callRes{{st, []*Term{fresh("conv")}}}
		}
		var out []callRes
		for _, r := range w.eval(call.Args[0], st) {
			t := r.t
			// conversion to an unsigned type of a possibly negative value is not value preserving:
			dst := tv.Type
			srcT := w.info.TypeOf(call.Args[0])
			if isUnsigned(dst) && srcT != nil && !isUnsigned(srcT) && t.K != KConst {
				if b, ok := srcT.Underlying().(*types.Basic); ok && b.Info()&types.IsInteger != 0 {
					// keep the term (value-preserving when non-negative) but remember signedness of the source
					nt := *t
					nt.Unsigned = false
					t = &nt
				}
			} else if isUnsigned(dst) && t.K != KConst {
				nt := *t
				nt.Unsigned = true
				t = &nt
			}
			out = append(out, callRes{r.st, []*Term{t}})
		}
		return out
	}
	// builtins
	if id, ok := fun.(*ast.Ident); ok {
		if _, ok := w.info.Uses[id].(*types.Builtin); ok {
			return w.builtin(id.Name, call, st)
		}
	}
	// function values: an immediately invoked literal, or a local / parameter holding a literal, a method value or a
	// module function
	if lit, ok := fun.(*ast.FuncLit); ok {
		return w.callFuncVal(call, &FuncVal{Lit: lit, Owner: w.Fn}, st, nres)
	}
	if fv := w.funcValueOf(fun, st); fv != nil {
		return w.callFuncVal(call, fv, st, nres)
	}
	// static callee inside the module
	if fn := w.staticCallee(call); fn != nil {
		return w.callInternal(call, fn, st, nres)
	}
	// call through an entry of a constant dispatch table: a static call per entry
	if rs, ok := w.tableCall(call, fun, st, nres); ok {
		return rs
	}
	// call through a struct field holding a func (Config callbacks)
	if sel, ok := fun.(*ast.SelectorExpr); ok {
		if s := w.info.Selections[sel]; s != nil && s.Kind() == types.FieldVal {
			fv := s.Obj().(*types.Var).Origin()
			owner := w.A.Prog.FieldOwner[fv]
			var out []callRes
			cur := []struct {
				st   *State
				args []*Term
			}{{st, nil}}
			// evaluate base for effects? bases are d / c.Config: pure
			for _, a := range call.Args {
				var next []struct {
					st   *State
					args []*Term
				}
				for _, c := range cur {
					for _, r := range w.eval(a, c.st) {
						next = append(next, struct {
							st   *State
							args []*Term
						}{r.st, append(append([]*Term{}, c.args...), r.t)})
					}
				}
				cur = next
			}
			for _, c := range cur {
				id := "cb:" + sel.Sel.Name
				if owner != "Config" {
					id = "fieldcall:" + owner + "." + sel.Sel.Name
					if w.Fn.Pkg.PkgPath == modPath {
						// a function stored in a field of the library's own structs: the callee is not resolved
						w.undecided(call, "call through the function-valued field "+owner+"."+sel.Sel.Name)
					}
				}
				w.siteExt(call, id, c.st, nil, c.args)
				out = append(out, callRes{c.st, w.cbResult(id, call, c.args, nres)})
			}
			return out
		}
	}
	// interface method or external function
	obj := typeutil.Callee(w.info, call)
	recvs, args, sts := w.evalCallOperands(call, st)
	var out []callRes
	for i, s := range sts {
		for ai, at := range args[i] {
			if at != nil && at.Fun != nil && w.Fn.Pkg.PkgPath == modPath {
				// a side-effect-free predicate handed to one of the standard library's filters: the filter calls it any
				// number of times, which changes nothing; a deleting filter rewrites its first argument
				if f, ok := obj.(*types.Func); ok && f.Pkg() != nil && (f.Pkg().Path() == "slices" || f.Pkg().Path() == "maps" || f.Pkg().Path() == "sort") && at.Fun.Lit != nil && pureLiteral(w.info, at.Fun.Lit) {
					if strings.HasPrefix(f.Name(), "Delete") && ai > 0 && args[i][0] != nil && args[i][0].K == KField {
						applyKill(s, locOf(args[i][0].Name), KillAny, nil)
					}
					continue
				}
				// the callee may call it any number of times: its effects are not accounted for
				w.undecided(call, "a function value is handed to a function outside the module")
			}
		}
		id := "dyn:?"
		var res []*Term
		if f, ok := obj.(*types.Func); ok {
			id = w.A.extID(f)
			// a method promoted from an embedded interface is named by the interface it is called on ("Block"), not by
			// the one that happens to declare it
			if sel, isSel := ast.Unparen(call.Fun).(*ast.SelectorExpr); isSel && strings.HasPrefix(id, "if:") {
				declared := ""
				if r := f.Type().(*types.Signature).Recv(); r != nil {
					declared = namedName(r.Type())
				}
				// (only for a private interface: the public ones are the roles the rules are written in, e.g.
				// ConsensusMessage.ViewNumber called on a ConsensusPayload)
				if sl := w.info.Selections[sel]; declared != "" && !ast.IsExported(declared) && sl != nil && sl.Kind() == types.MethodVal && types.IsInterface(sl.Recv()) {
					if tn, pp := namedName(sl.Recv()), namedPkgPath(sl.Recv()); tn != "" && (pp == modPath || strings.HasPrefix(pp, modPath+"/")) {
						id = "if:" + tn + "." + f.Name()
					}
				}
			}
			res = w.extResult(id, f, recvs[i], args[i], nres, s)
		} else {
			if w.Fn.Pkg.PkgPath == modPath {
				w.undecided(call, "call through a function value")
			}
			res = manyFresh(nres)
		}
		w.siteExt(call, id, s, recvs[i], args[i])
		if w.record && recvs[i] != nil && recvs[i].K == KIndex && recvs[i].Args[0].K == KField && strings.HasPrefix(id, "if:") {
			site := w.recA().siteFor(w.sfn(), call, "deref", id, recvs[i].Args[0].Name)
			w.A.snap(site, s, recvs[i], args[i], nil, recvs[i].Args[1])
		}
		// a method called on one of the lazily built block objects (the cache field itself, or a local holding what the
		// lazy constructor returned): the constructors return nil in several states, and the library tests for that
		// elsewhere — a use without the test is a nil dereference waiting for that state
		if w.record && recvs[i] != nil && strings.HasPrefix(id, "if:") && w.Fn.Pkg.PkgPath == modPath {
			rt := recvs[i]
			if rt.K == KField && (rt.Name == "ctx.block" || rt.Name == "ctx.preBlock" || rt.Name == "ctx.header" || rt.Name == "ctx.preHeader") {
				site := w.recA().siteFor(w.sfn(), call, "deref", id, rt.Name)
				w.A.snap(site, s, rt, args[i], nil, nil)
			} else if rt.K == KNil {
				site := w.recA().siteFor(w.sfn(), call, "deref", id, "nil")
				w.A.snap(site, s, rt, args[i], nil, nil)
			}
		}
		w.extEffects(id, call, recvs[i], args[i], s)
		out = append(out, callRes{s, res})
	}
	return out
}

// tableCall handles h.handle(args), h(args) and tbl[k](args) where the callee comes from a constant dispatch table.
func (w *Walker) tableCall(call *ast.CallExpr, fun ast.Expr, st *State, nres int) ([]callRes, bool) {
	if w.Fn.Pkg.PkgPath != modPath || w.A.entryOf == nil && w.A.tables == nil {
		w.A.findTables()
	}
	var fts []evalRes
	switch f := fun.(type) {
	case *ast.SelectorExpr:
		if s := w.info.Selections[f]; s == nil || s.Kind() != types.FieldVal {
			return nil, false
		}
		if _, isFunc := w.info.TypeOf(f).Underlying().(*types.Signature); !isFunc {
			return nil, false
		}
		fts = w.eval(f, st)
	case *ast.Ident:
		if _, isVar := w.info.Uses[f].(*types.Var); !isVar {
			return nil, false
		}
		fts = w.eval(f, st)
	case *ast.IndexExpr:
		if tr, ok := w.tableLookup(f, st); ok {
			for _, r := range tr {
				fts = append(fts, evalRes{r.st, r.val})
			}
		} else {
			return nil, false
		}
	default:
		return nil, false
	}
	var out []callRes
	for _, ft := range fts {
		var fe ast.Expr
		if e, ok := w.A.fnExprOf[ft.t.S]; ok {
			fe = e
		} else if e, ok := w.A.entryOf[ft.t.S]; ok && e.fn != nil {
			fe = e.fn
		}
		if fe == nil {
			if len(fts) == 1 {
				return nil, false // not a table entry: the generic handling applies
			}
			// the "no such key" value of a table of functions: calling it would panic
			w.undecided(call, "call through a missing entry of a dispatch table")
			continue
		}
		target, methodExpr := w.resolveFuncExpr(fe)
		if target == nil {
			w.undecided(call, "dispatch table entry is not a module function")
			continue
		}
		saved := w.viaValue
		w.viaValue = true
		out = append(out, w.callInternalShift(call, target, ft.st, nres, methodExpr)...)
		w.viaValue = saved
	}
	return out, true
}

func manyFresh(n int) []*Term {
	ts := make([]*Term, n)
	for i := range ts {
		ts[i] = fresh("r")
	}
	return ts
}

func taggedFresh(tag string, n int) []*Term {
	ts := manyFresh(n)
	if n > 0 {
		ts[0] = fresh(tag + ":")
	}
	return ts
}

func (a *Analysis) extID(f *types.Func) string {
	sig := f.Type().(*types.Signature)
	if r := sig.Recv(); r != nil {
		tn := namedName(r.Type())
		pp := namedPkgPath(r.Type())
		if types.IsInterface(r.Type()) || pp == modPath || strings.HasPrefix(pp, modPath+"/") {
			if pp == modPath || strings.HasPrefix(pp, modPath+"/") {
				return "if:" + tn + "." + f.Name()
			}
		}
		if f.Pkg() != nil {
			return "ext:" + f.Pkg().Path() + "." + tn + "." + f.Name()
		}
		return "ext:" + tn + "." + f.Name()
	}
	if f.Pkg() != nil {
		return "ext:" + f.Pkg().Path() + "." + f.Name()
	}
	return "ext:" + f.Name()
}

// pure getters on payload-like interfaces give canonical terms
func (w *Walker) extResult(id string, f *types.Func, recv *Term, args []*Term, nres int, st *State) []*Term {
	if nres == 0 {
		return nil
	}
	sig := f.Type().(*types.Signature)
	if strings.HasPrefix(id, "if:") && recv != nil && sig.Results().Len() == 1 && len(args) == 0 {
		iface := strings.TrimPrefix(id, "if:")
		tn := iface[:strings.Index(iface, ".")]
		switch tn {
		case "ConsensusPayload", "ConsensusMessage", "ChangeView", "PrepareRequest", "PrepareResponse", "Commit", "PreCommit", "RecoveryRequest", "Transaction", "Timer":
			if tn == "Timer" && (f.Name() == "Now" || f.Name() == "C") {
				break
			}
			t := mkTerm(KCall, tn+"."+f.Name(), recv)
			t.Unsigned = isUnsigned(sig.Results().At(0).Type())
			return []*Term{t}
		}
	}
	if id == "ext:fmt.Errorf" || id == "ext:errors.New" {
		ts := manyFresh(nres)
		ts[0].NonNil = true
		return ts
	}
	if id == "ext:slices.Index" && len(args) == 2 {
		t := mkTerm(KCall, "slices.Index", args...)
		return []*Term{t}
	}
	if id == "ext:time.Since" && len(args) == 1 {
		return append([]*Term{mkTerm(KCall, "time.Since", args...)}, manyFresh(nres-1)...)
	}
	if (id == "ext:time.Time.UnixNano" || id == "ext:time.Time.Sub" || id == "ext:time.Time.IsZero") && recv != nil {
		t := mkTerm(KCall, strings.TrimPrefix(id, "ext:"), append([]*Term{recv}, args...)...)
		return append([]*Term{t}, manyFresh(nres-1)...)
	}
	ts := taggedFresh(id, nres)
	if strings.HasPrefix(id, "if:RecoveryMessage.Get") && len(ts) > 0 {
		// what a recovery getter rebuilds depends on what it was given (the primary index the request is stamped
		// with): the result is as old as its arguments
		for _, a := range args {
			if a != nil {
				ts[0].Reads = append(ts[0].Reads, a.Reads...)
			}
		}
		ts[0].Reads = uniq(ts[0].Reads)
	}
	return ts
}

func (w *Walker) cbResult(id string, call *ast.CallExpr, args []*Term, nres int) []*Term {
	if nres == 0 {
		return nil
	}
	if id == "cb:WatchOnly" {
		return []*Term{mkTerm(KCall, "cfg.WatchOnly")}
	}
	if (id == "cb:VerifyPrepareRequest" || id == "cb:VerifyPrepareResponse" || id == "cb:VerifyCommit" || id == "cb:VerifyPreCommit") && len(args) == 1 && !hasLocalTerm(args[0]) {
		// payload verification callbacks are pure queries of their argument (callback contract)
		return append([]*Term{mkTerm(KCall, "cfg."+strings.TrimPrefix(id, "cb:"), args...)}, manyFresh(nres-1)...)
	}
	ts := manyFresh(nres)
	freshCounter++
	ts[0] = mkTerm(KLocal, fmt.Sprintf("cbres:%s:%d", strings.TrimPrefix(id, "cb:"), freshCounter))
	if strings.HasPrefix(id, "cb:New") && id != "cb:NewBlockFromContext" && id != "cb:NewPreBlockFromContext" {
		ts[0].NonNil = true // constructors return objects (callback contract)
	}
	return ts
}

// extEffects applies effects of external calls on tracked state (only objects rooted in state).
func (w *Walker) extEffects(id string, call *ast.CallExpr, recv *Term, args []*Term, st *State) {
	// methods with pointer receivers on state-rooted values from other packages (e.g. sync.Mutex, time.Timer in package timer)
	if recv != nil && recv.K == KField && strings.HasPrefix(id, "ext:") {
		if mutatingExt(id) {
			w.write(locOf(recv.Name), KillAny, nil, nil, st, call)
		}
	}
}

func mutatingExt(id string) bool {
	for _, s := range []string{"time.Timer.Stop", "time.Timer.Reset", "sync.Mutex.Lock", "sync.Mutex.Unlock"} {
		if strings.HasSuffix(id, s) {
			return true
		}
	}
	return false
}

func (w *Walker) builtin(name string, call *ast.CallExpr, st *State) []callRes {
	cur := []struct {
		st   *State
		args []*Term
	}{{st, nil}}
	for i, a := range call.Args {
		if (name == "make" || name == "new") && i == 0 {
			for j := range cur {
				cur[j].args = append(cur[j].args, fresh("type"))
			}
			continue
		}
		var next []struct {
			st   *State
			args []*Term
		}
		for _, c := range cur {
			for _, r := range w.eval(a, c.st) {
				next = append(next, struct {
					st   *State
					args []*Term
				}{r.st, append(append([]*Term{}, c.args...), r.t)})
			}
		}
		cur = next
	}
	var out []callRes
	for _, c := range cur {
		var t *Term
		switch name {
		case "len":
			t = mkTerm(KLen, "", c.args[0])
			t.Unsigned = true
		case "append":
			t = mkTerm(KCall, "append", c.args...)
			t.NonNil = false
			// a written-out list extended element by element stays a written-out list
			if len(c.args) >= 1 && c.args[0] != nil && c.args[0].List && !call.Ellipsis.IsValid() && len(c.args[0].Args)+len(c.args)-1 <= 32 {
				nt := fresh("lit")
				nt.NonNil = true
				nt.List = true
				nt.Args = append(append([]*Term{}, c.args[0].Args...), c.args[1:]...)
				t = nt
			}
		case "make", "new":
			t = fresh("make")
			t.NonNil = true
			t.Args = c.args
			t.Name = "make:" + t.Name
		case "clear":
			if len(c.args) == 1 {
				for _, l := range c.args[0].Reads {
					w.write(l, KillAny, nil, constTerm("cleared"), c.st, call)
				}
			}
			t = fresh("void")
		case "delete":
			if len(c.args) >= 1 {
				for _, l := range c.args[0].Reads {
					w.write(l, KillAny, nil, nil, c.st, call)
				}
			}
			t = fresh("void")
		case "copy":
			if len(c.args) >= 1 {
				for _, l := range c.args[0].Reads {
					w.write(l, KillAny, nil, nil, c.st, call)
				}
			}
			t = fresh("n")
		case "min", "max":
			t = mkTerm(KCall, name, c.args...)
		case "panic":
			w.siteExt(call, "builtin:panic", c.st, nil, c.args)
			continue // path ends
		default:
			t = fresh("bi")
		}
		out = append(out, callRes{c.st, []*Term{t}})
	}
	return out
}

// callInternal handles a static call to a function of the module.
func (w *Walker) callInternal(call *ast.CallExpr, fn *FuncInfo, st *State, nres int) []callRes {
	return w.callInternalShift(call, fn, st, nres, false)
}

// callInternalShift: as callInternal; with methodExpr the first argument is the receiver (T.method(recv, args...)).
func (w *Walker) callInternalShift(call *ast.CallExpr, fn *FuncInfo, st *State, nres int, methodExpr bool) []callRes {
	return w.callInternalFull(call, fn, st, nres, methodExpr, nil)
}

// callInternalRecv: a call of fn through a method value whose receiver was bound earlier.
func (w *Walker) callInternalRecv(call *ast.CallExpr, fn *FuncInfo, st *State, nres int, recv *Term) []callRes {
	return w.callInternalFull(call, fn, st, nres, false, recv)
}

func (w *Walker) callInternalFull(call *ast.CallExpr, fn *FuncInfo, st *State, nres int, methodExpr bool, boundRecv *Term) []callRes {
	recvs, args, sts := w.evalCallOperands(call, st)
	if boundRecv != nil {
		for i := range recvs {
			recvs[i] = boundRecv
		}
	}
	if methodExpr {
		for i := range args {
			if len(args[i]) > 0 {
				recvs[i] = args[i][0]
				args[i] = args[i][1:]
			}
		}
	}
	var out []callRes
	for i, s := range sts {
		id := "fn:" + fn.Name
		if fn.Pkg.PkgPath != modPath {
			id = "fn:" + strings.TrimPrefix(fn.Pkg.PkgPath, modPath+"/") + ":" + fn.Name
		}
		// record site
		if w.record {
			site := w.recA().siteFor(w.sfn(), call, "call", id, "")
			site.Target = fn
			site.Call = call
			w.A.snap(site, s, recvs[i], args[i], nil, nil)
		}
		// higher-order helpers are walked inline with the actual function values
		if w.A.higherOrder(fn) {
			if rs, ok := w.inlineCallHO(fn, recvs[i], args[i], s, nres); ok {
				out = append(out, rs...)
			} else {
				w.undecided(call, "higher-order helper "+fn.Name+" could not be walked inline")
				out = append(out, callRes{s, manyFresh(nres)})
			}
			continue
		}
		// pure functions: canonical terms, no effects (validators — pure functions whose only result is an error — go
		// through the summary instead: what matters about them is what their nil result implies)
		if w.A.isPure(fn) && !errorOnly(fn) {
			if rs, ok := w.inlineCall(fn, recvs[i], args[i], s, nres, true); ok {
				out = append(out, rs...)
				continue
			}
			out = append(out, callRes{s, w.pureResult(call, fn, recvs[i], args[i], s, nres)})
			continue
		}
		if w.inlineHelpers && (w.A.inlinable(fn) || w.viaValue && w.A.inlinableValue(fn) || w.A.inlinableShared(fn)) {
			if rs, ok := w.inlineCall(fn, recvs[i], args[i], s, nres, false); ok {
				out = append(out, rs...)
				continue
			}
		}
		// impure: apply summary
		ctx := w.A.callCtx(fn, args[i], s)
		sum := w.A.summary(fn, ctx)
		// map receiver-relative locations
		recvLoc := ""
		if recvs[i] != nil && recvs[i].K == KField {
			recvLoc = locOf(recvs[i].Name)
		}
		for ci, cl := range sum.Classes {
			ns0 := s
			if ci < len(sum.Classes)-1 {
				ns0 = s.clone()
			}
			// a callee that stores a received payload into its sender's slot: as at a direct store (splitOwnSender), a
			// path holding an "own slot is empty" fact for that table is split by whether the sender is this node
			variants := []*State{ns0}
			if lit, ok := w.ownSenderSplitLit(cl, args[i], ns0); ok {
				ts, fs := split(ns0, lit)
				variants = append(append([]*State{}, ts...), fs...)
			}
			for _, ns := range variants {
				kl := cl.killList()
				sort.SliceStable(kl, func(i, j int) bool { return kl[i].kind&KillStable == 0 && kl[j].kind&KillStable != 0 })
				for _, k := range kl {
					loc := k.loc
					if strings.HasPrefix(loc, "recv.") || loc == "recv" {
						if recvs[i] == rootRecv || fn.RecvVar == nil && hasTerm(args[i], rootRecv) {
							// same receiver object (as receiver, or handed to a plain function): locations coincide
						} else if recvLoc == "" {
							continue
						} else {
							loc = recvLoc
						}
					}
					applyKill(ns, loc, k.kind, nil)
				}
				for e := range cl.Events {
					ns.Events[e] = true
				}
				if cl.Ret == "true" || cl.Ret == "false" || cl.Ret == "nil" || cl.Ret == "nn" {
					ns.Events["fn:"+fn.Name+"="+cl.Ret] = true
				}
				ns.Events["fn:"+fn.Name] = true
				ns.logEv("fn:" + fn.Name)
				if cl.Events["if:Timer.Reset"] {
					ns.logEv("if:Timer.Reset")
				}
				var ts []*Term
				rcs := strings.Split(cl.Ret, ",")
				for r := 0; r < nres; r++ {
					rc := ""
					if r < len(rcs) {
						rc = rcs[r]
					}
					switch rc {
					case "true", "false":
						ts = append(ts, constTerm(rc))
					case "nil":
						ts = append(ts, nilTerm)
					case "nn":
						t := fresh("ret:" + fn.Name + ":")
						t.NonNil = true
						ts = append(ts, t)
					default:
						ts = append(ts, fresh("ret:"+fn.Name+":"))
					}
				}
				if len(ts) > 0 && cl.RetField != "" {
					ts[0] = mkTerm(KField, cl.RetField)
				}
				// post facts (parameter terms stand for the arguments' values at the call)
				var psub map[string]*Term
				for _, l := range cl.Post {
					if hasParamTerm(l.A.A) || hasParamTerm(l.A.B) {
						if psub == nil {
							psub = map[string]*Term{}
							for j, p := range fn.Params {
								if j < len(args[i]) && args[i][j] != nil {
									psub["p:"+p.Name()] = args[i][j]
								}
							}
						}
						if !paramsCovered(l.A.A, psub) || !paramsCovered(l.A.B, psub) {
							continue
						}
						ns.F.add(Lit{substAtomByS(l.A, psub), l.Pos})
						continue
					}
					ns.F.add(l)
				}
				out = append(out, callRes{ns, ts})
			}
		}
	}
	return out
}

// ownSenderSplitLit: the class stores a non-nil payload into a sender's slot of a per-validator table for which the state
// holds "own slot empty", one of the arguments is a received payload, and the state does not know whether its sender is
// this node: the literal to split on.
func (w *Walker) ownSenderSplitLit(cl *ExitClass, args []*Term, st *State) (Lit, bool) {
	if w.Fn.Pkg.PkgPath != modPath {
		return Lit{}, false
	}
	need := false
	for loc, k := range cl.Kills {
		if k&KillNNSender == 0 {
			continue
		}
		switch loc {
		case "ctx.PreparationPayloads", "ctx.PreCommitPayloads", "ctx.CommitPayloads", "ctx.ChangeViewPayloads":
		default:
			continue
		}
		own := mkAtom("nn", mkTerm(KIndex, "", mkTerm(KField, loc), tMyIndex), nil)
		if v, known := st.F.value(own); known && !v {
			need = true
		}
	}
	if !need {
		return Lit{}, false
	}
	var sender *Term
	for _, a := range args {
		if a == nil || a.K != KParam {
			continue
		}
		t := getter("ConsensusPayload", "ValidatorIndex", a, true)
		if idxClass(t, st) != "sender" {
			continue
		}
		if sender != nil {
			return Lit{}, false
		}
		sender = t
	}
	if sender == nil {
		return Lit{}, false
	}
	at := mkAtom("eq", tMyIndex, sender)
	if _, known := st.F.value(at); known {
		return Lit{}, false
	}
	return Lit{at, true}, true
}

// pureResult builds the canonical term for a call to a pure module function.
func (w *Walker) pureResult(call *ast.CallExpr, fn *FuncInfo, recv *Term, args []*Term, st *State, nres int) []*Term {
	if nres == 0 {
		return nil
	}
	// single-return-expression functions are inlined as terms
	if len(fn.Decl.Body.List) == 1 && w.depth < 6 {
		if rs, ok := fn.Decl.Body.List[0].(*ast.ReturnStmt); ok && len(rs.Results) == 1 && !isBoolExpr(fn.Pkg.TypesInfo, rs.Results[0]) {
			sub := &Walker{A: w.A, Fn: fn, info: fn.Pkg.TypesInfo, record: false, depth: w.depth + 1, budget: 2000}
			b := st.clone()
			if fn.RecvVar != nil {
				rt := recv
				if rt == nil {
					rt = w.A.recvRoot(fn)
				}
				b.Env[fn.RecvVar] = adaptRecv(rt, fn, w.A)
			}
			for j, p := range fn.Params {
				if j < len(args) {
					b.Env[p] = args[j]
				}
			}
			rsx := sub.eval(rs.Results[0], b)
			if len(rsx) == 1 {
				return append([]*Term{rsx[0].t}, manyFresh(nres-1)...)
			}
		}
		// an accessor returning several values at once (`return c.BlockIndex, c.ViewNumber`): each result is its term
		if rs, ok := fn.Decl.Body.List[0].(*ast.ReturnStmt); ok && len(rs.Results) > 1 && len(rs.Results) == nres {
			allPlain := true
			for _, re := range rs.Results {
				if isBoolExpr(fn.Pkg.TypesInfo, re) {
					allPlain = false
				}
			}
			if allPlain {
				sub := &Walker{A: w.A, Fn: fn, info: fn.Pkg.TypesInfo, record: false, depth: w.depth + 1, budget: 2000}
				b := st.clone()
				if fn.RecvVar != nil {
					rt := recv
					if rt == nil {
						rt = w.A.recvRoot(fn)
					}
					b.Env[fn.RecvVar] = adaptRecv(rt, fn, w.A)
				}
				for j, p := range fn.Params {
					if j < len(args) {
						b.Env[p] = args[j]
					}
				}
				var ts []*Term
				for _, re := range rs.Results {
					rsx := sub.eval(re, b)
					if len(rsx) != 1 {
						ts = nil
						break
					}
					ts = append(ts, rsx[0].t)
				}
				if len(ts) == nres {
					return ts
				}
			}
		}
	}
	name := fn.Name
	t := mkTerm(KCall, "fn:"+name, args...)
	t.Reads = uniq(append(t.Reads, w.A.readsOf(fn)...))
	sig := fn.Obj.Type().(*types.Signature)
	if sig.Results().Len() > 0 {
		t.Unsigned = isUnsigned(sig.Results().At(0).Type())
	}
	// GetPrimaryIndex(ViewNumber) is the PrimaryIndex field (obligation P-PRIMARY-FIELD)
	if fn.Name == "Context.GetPrimaryIndex" && len(args) == 1 && args[0].S == "ctx.ViewNumber" {
		pt := mkTerm(KField, "ctx.PrimaryIndex")
		pt.Unsigned = true
		return append([]*Term{pt}, manyFresh(nres-1)...)
	}
	return append([]*Term{t}, manyFresh(nres-1)...)
}

var _ = token.ADD

// mergePhis simplifies a disjunction of literal conjunctions: (A ∧ x) ∨ (A ∧ ¬x) = A.
func mergePhis(ps []string) []string {
	sets := make([][]string, len(ps))
	for i, p := range ps {
		sets[i] = strings.Split(p, " & ")
	}
	for changed := true; changed; {
		changed = false
	outer:
		for i := 0; i < len(sets); i++ {
			for j := i + 1; j < len(sets); j++ {
				if len(sets[i]) != len(sets[j]) {
					continue
				}
				mi := map[string]bool{}
				for _, l := range sets[i] {
					mi[l] = true
				}
				var diff []string
				for _, l := range sets[j] {
					if !mi[l] {
						diff = append(diff, l)
					}
				}
				if len(diff) != 1 {
					continue
				}
				d := diff[0]
				neg := "!" + d
				if strings.HasPrefix(d, "!") {
					neg = strings.TrimPrefix(d, "!")
				}
				if !mi[neg] {
					continue
				}
				var merged []string
				for _, l := range sets[i] {
					if l != neg {
						merged = append(merged, l)
					}
				}
				sets[i] = merged
				sets = append(sets[:j], sets[j+1:]...)
				changed = true
				break outer
			}
		}
	}
	var out []string
	for _, s := range sets {
		out = append(out, strings.Join(s, " & "))
	}
	return out
}

// inlineCall walks the callee's body in the caller's state (parameters bound to the argument terms) and returns one
// continuation per return path. pure=true is used for side-effect-free functions with loops or several statements
// (so that e.g. an extracted counting loop keeps its quorum term); it gives up when the callee has too many paths.
func (w *Walker) inlineCall(fn *FuncInfo, recv *Term, args []*Term, st *State, nres int, pure bool) ([]callRes, bool) {
	return w.inlineCallMode(fn, recv, args, st, nres, pure, false)
}

// inlineCallHO: a higher-order helper is always walked inline; the sites inside it are recorded here, in the context of
// this call, and belong to the function whose walk reached them.
func (w *Walker) inlineCallHO(fn *FuncInfo, recv *Term, args []*Term, st *State, nres int) ([]callRes, bool) {
	return w.inlineCallMode(fn, recv, args, st, nres, false, true)
}

func (w *Walker) inlineCallMode(fn *FuncInfo, recv *Term, args []*Term, st *State, nres int, pure, ho bool) ([]callRes, bool) {
	if (!ho && w.depth >= 4) || w.depth >= 8 || fn == w.Fn {
		return nil, false
	}
	if pure {
		// single-expression functions are handled by pureResult (cheaper); predicates by cond()
		if len(fn.Decl.Body.List) == 1 {
			if _, isRet := fn.Decl.Body.List[0].(*ast.ReturnStmt); isRet {
				return nil, false
			}
		}
		if stmtCount(fn.Decl.Body) > 30 || w.A.noPureInline[fn] {
			return nil, false
		}
	}
	sub := &Walker{A: w.A, Fn: fn, info: fn.Pkg.TypesInfo, record: w.record && w.rec != nil, depth: w.depth + 1, inl: &inlineCtx{}, budget: 40000,
		trackFields: w.trackFields, inlineHelpers: w.inlineHelpers, rec: w.rec, siteOwner: w.siteOwner}
	if ho {
		sub.record = w.record
		if w.rec == nil {
			sub.siteOwner = w.sfn()
		}
		sub.cnt = w.cnt // a counter of the caller may be incremented by a function value called in the helper's loop
	}
	b := st.clone()
	if fn.RecvVar != nil {
		rt := recv
		if rt == nil {
			rt = w.A.recvRoot(fn)
		}
		b.Env[fn.RecvVar] = adaptRecv(rt, fn, w.A)
	}
	for j, p := range fn.Params {
		if j < len(args) {
			b.Env[p] = args[j]
		}
	}
	sig := fn.Obj.Type().(*types.Signature)
	for i := 0; i < sig.Results().Len(); i++ {
		if v := sig.Results().At(i); v.Name() != "" && v.Name() != "_" {
			b.Env[v] = zeroTerm(v.Type())
		}
	}
	fall := sub.stmts(fn.Decl.Body.List, []*State{b})
	var out []callRes
	finish := func(s *State, ts []*Term) {
		sts := []*State{s}
		for i := len(sub.defers) - 1; i >= 0; i-- {
			sts = sub.stmts(sub.defers[i].Body.List, sts)
		}
		for _, x := range sts {
			x.Events["fn:"+fn.Name] = true
			x.logEv("fn:" + fn.Name)
			if len(ts) > 0 && ts[0] != nil && ts[0].K == KConst && (ts[0].S == "true" || ts[0].S == "false") {
				x.Events["fn:"+fn.Name+"="+ts[0].S] = true
			}
			if len(ts) == 1 && ts[0] != nil && ts[0].K == KNil {
				x.Events["fn:"+fn.Name+"=nil"] = true
			}
			for len(ts) < nres {
				ts = append(ts, fresh("ret:"+fn.Name+":"))
			}
			out = append(out, callRes{x, ts})
		}
	}
	for _, s := range fall {
		finish(s, sub.namedResults(s))
	}
	for _, r := range sub.inl.rets {
		if len(r.exprs) == 0 {
			finish(r.st, sub.namedResults(r.st))
			continue
		}
		cur := []struct {
			st *State
			ts []*Term
		}{{r.st, nil}}
		for _, re := range r.exprs {
			var next []struct {
				st *State
				ts []*Term
			}
			for _, c := range cur {
				if isBoolExpr(sub.info, re) {
					tst, fst := sub.cond(re, c.st)
					for _, x := range tst {
						next = append(next, struct {
							st *State
							ts []*Term
						}{x, append(append([]*Term{}, c.ts...), constTerm("true"))})
					}
					for _, x := range fst {
						next = append(next, struct {
							st *State
							ts []*Term
						}{x, append(append([]*Term{}, c.ts...), constTerm("false"))})
					}
					continue
				}
				for _, e := range sub.eval(re, c.st) {
					next = append(next, struct {
						st *State
						ts []*Term
					}{e.st, append(append([]*Term{}, c.ts...), e.t)})
				}
			}
			cur = next
		}
		for _, c := range cur {
			finish(c.st, c.ts)
		}
	}
	if pure {
		// only counting helpers are worth inlining: their results carry quorum / existence terms; and duration
		// helpers, whose result the timer rules read structurally
		useful := false
		if sig := fn.Obj.Type().(*types.Signature); sig.Results().Len() == 1 && namedName(sig.Results().At(0).Type()) == "Duration" {
			useful = true
		}
		if sig := fn.Obj.Type().(*types.Signature); sig.Results().Len() >= 2 {
			useful = true // several results decided together (a lookup and its "found"): how they hang together is the point
		}
		for _, o := range out {
			for _, t := range o.ts {
				if t != nil && t.List {
					useful = true // a table built by a function
				}
			}
		}
		// an accessor with a guard ("nil if watch-only, else the own slot"): every result is a piece of state or nil
		if len(out) >= 1 && len(out) <= 4 && stmtCount(fn.Decl.Body) >= 2 {
			state := true
			for _, o := range out {
				if len(o.ts) != 1 || o.ts[0] == nil {
					state = false
					continue
				}
				switch o.ts[0].K {
				case KIndex, KField, KNil:
				default:
					state = false
				}
			}
			if state {
				useful = true
			}
		}
		for _, o := range out {
			for _, t := range o.ts {
				if t != nil && (t.K == KCount || t.K == KExists) {
					useful = true
				}
				if t != nil && len(t.Fields) > 0 {
					for _, a := range t.Args {
						if a != nil && (a.K == KCount || a.K == KExists) {
							useful = true // a result struct carrying counts
						}
					}
				}
			}
		}
		if !useful || len(out) > 8 {
			// remember the verdict only where it cannot depend on the arguments (a result that may be a piece of state
			// for one caller and opaque for another is tried again)
			cache := true
			if sig := fn.Obj.Type().(*types.Signature); sig.Results().Len() == 1 && len(out) <= 6 {
				switch sig.Results().At(0).Type().Underlying().(type) {
				case *types.Interface, *types.Pointer, *types.Slice, *types.Map:
					cache = false
				}
			}
			if cache {
				if w.A.noPureInline == nil {
					w.A.noPureInline = map[*FuncInfo]bool{}
				}
				w.A.noPureInline[fn] = true
			}
			return nil, false
		}
	}
	if len(out) == 0 {
		return nil, false
	}
	return out, true
}

// errorOnly: the function's only result is an error.
func errorOnly(fn *FuncInfo) bool {
	sig := fn.Obj.Type().(*types.Signature)
	return sig.Results().Len() == 1 && sig.Results().At(0).Type().String() == "error"
}

func hasTerm(ts []*Term, t *Term) bool {
	for _, x := range ts {
		if x == t {
			return true
		}
	}
	return false
}

func stmtCount(n ast.Node) int {
	c := 0
	ast.Inspect(n, func(x ast.Node) bool {
		if _, ok := x.(ast.Stmt); ok {
			c++
		}
		return true
	})
	return c
}

// countedFor recognises `for i := 0; i < len(X); i++` and returns i and X.
func countedFor(fr *ast.ForStmt) (*ast.Ident, ast.Expr) {
	as, ok := fr.Init.(*ast.AssignStmt)
	if !ok || as.Tok != token.DEFINE || len(as.Lhs) != 1 || len(as.Rhs) != 1 {
		return nil, nil
	}
	id, ok := as.Lhs[0].(*ast.Ident)
	if !ok {
		return nil, nil
	}
	if bl, ok := as.Rhs[0].(*ast.BasicLit); !ok || bl.Value != "0" {
		return nil, nil
	}
	be, ok := fr.Cond.(*ast.BinaryExpr)
	if !ok || be.Op != token.LSS {
		return nil, nil
	}
	if l, ok := be.X.(*ast.Ident); !ok || l.Name != id.Name {
		return nil, nil
	}
	call, ok := be.Y.(*ast.CallExpr)
	if !ok || len(call.Args) != 1 {
		return nil, nil
	}
	if f, ok := call.Fun.(*ast.Ident); !ok || f.Name != "len" {
		return nil, nil
	}
	inc, ok := fr.Post.(*ast.IncDecStmt)
	if !ok || inc.Tok != token.INC {
		return nil, nil
	}
	if p, ok := inc.X.(*ast.Ident); !ok || p.Name != id.Name {
		return nil, nil
	}
	return id, call.Args[0]
}

func (w *Walker) bindCountedKey(id *ast.Ident, table *Term, st *State, loopID string) {
	if id == nil || table == nil {
		return
	}
	k := mkTerm(KLocal, "rangekey:"+loopID+":"+table.S)
	k.Reads = nil
	w.bindLocal(id, k, st)
}

// pureLiteral: the function literal assigns only to its own locals and calls nothing but builtins and getters (methods of
// interface values) — it can be run any number of times without a trace.
func pureLiteral(info *types.Info, lit *ast.FuncLit) bool {
	pure := true
	local := func(e ast.Expr) bool {
		id, ok := ast.Unparen(e).(*ast.Ident)
		if !ok {
			return false
		}
		obj := info.ObjectOf(id)
		return obj != nil && obj.Pos() >= lit.Pos() && obj.Pos() <= lit.End()
	}
	ast.Inspect(lit.Body, func(n ast.Node) bool {
		switch x := n.(type) {
		case *ast.AssignStmt:
			for _, lhs := range x.Lhs {
				if !local(lhs) {
					pure = false
				}
			}
		case *ast.IncDecStmt:
			if !local(x.X) {
				pure = false
			}
		case *ast.GoStmt, *ast.DeferStmt, *ast.SendStmt:
			pure = false
		case *ast.CallExpr:
			if tv, ok := info.Types[x.Fun]; ok && tv.IsType() {
				return true
			}
			if id, ok := ast.Unparen(x.Fun).(*ast.Ident); ok {
				if _, isB := info.Uses[id].(*types.Builtin); isB && id.Name != "delete" && id.Name != "clear" && id.Name != "copy" && id.Name != "panic" && id.Name != "append" {
					return true
				}
			}
			if sel, ok := ast.Unparen(x.Fun).(*ast.SelectorExpr); ok {
				if sl := info.Selections[sel]; sl != nil && sl.Kind() == types.MethodVal && types.IsInterface(sl.Recv()) && len(x.Args) == 0 {
					return true // a getter of a payload / block interface
				}
			}
			pure = false
		}
		return pure
	})
	return pure
}
