package main

// Rule results, evidence files, known findings.

import (
	"encoding/json"
	"fmt"
	"os"
	"path/filepath"
	"sort"
	"strings"
	"time"
)

type Finding struct {
	Rule      string `json:"rule"`
	Construct string `json:"construct"` // stable key: function / callee / chain by names (no line numbers)
	Where     string `json:"where"`     // file:line for humans
	Detail    string `json:"detail"`
}

type RuleResult struct {
	Rule        string    `json:"rule"`
	Kind        string    `json:"kind"`
	Doc         string    `json:"doc"`
	Sites       int       `json:"sites"`
	Obligations int       `json:"obligations"`
	Discharged  int       `json:"discharged"`
	Findings    []Finding `json:"findings,omitempty"`
	Samples     []string  `json:"samples,omitempty"`
	Notes       []string  `json:"notes,omitempty"`
	Anchors     []string  `json:"anchors,omitempty"`
	Millis      int64     `json:"wall_ms,omitempty"`
}

func (r *RuleResult) ok(sample string) {
	r.Obligations++
	r.Discharged++
	if len(r.Samples) < 4 && sample != "" {
		r.Samples = append(r.Samples, sample)
	}
}

func (r *RuleResult) fail(construct, where, detail string) {
	r.Obligations++
	for _, f := range r.Findings {
		if f.Construct == construct {
			return
		}
	}
	r.Findings = append(r.Findings, Finding{Rule: r.Rule, Construct: construct, Where: where, Detail: detail})
}

func (r *RuleResult) unresolved(what string) {
	r.fail("unresolved-anchor:"+what, "", "unresolved anchor: "+what+" (role resolves to no construct; the rule would be vacuous)")
}

func (r *RuleResult) note(s string) { r.Notes = append(r.Notes, s) }

type KnownFindings struct {
	Findings []struct {
		Property  string `json:"property"`
		Rule      string `json:"rule"`
		Construct string `json:"construct"`
		What      string `json:"what"`
	} `json:"findings"`
	Fixed []string `json:"fixed"`
}

func loadKnown(path string) (*KnownFindings, error) {
	k := &KnownFindings{}
	if path == "" {
		return k, nil
	}
	b, err := os.ReadFile(path)
	if err != nil {
		if os.IsNotExist(err) {
			return k, nil
		}
		return nil, err
	}
	if err := json.Unmarshal(b, k); err != nil {
		return nil, err
	}
	return k, nil
}

type Evidence struct {
	PropertyID  string                 `json:"property_id"`
	Tier        string                 `json:"tier"`
	Seed        int                    `json:"seed"`
	Level       string                 `json:"level"`
	Coverage    map[string]interface{} `json:"coverage"`
	Assumptions []string               `json:"assumptions"`
	WallS       float64                `json:"wall_s"`
	Violations  int                    `json:"violations"`
}

var assumptions = []string{
	"A1 Config.GetKeyPair and Config.WatchOnly are functions of the validator list during one height",
	"A2 callbacks and payload methods do not call back into the DBFT instance or mutate Context; the API is used from one goroutine",
	"A3 Start precedes every other API call",
	"A4 GetKeyPair returns an index < len(validators); GetValidators returns a non-empty list; TimestampIncrement > 0",
	"A5 default 64-bit build (int is 64 bits)",
	"A6 the Go type checker (go/types) and the AST are a faithful view of the compiled program",
	"A7 (withdrawn: a node that lost its state receives its own payloads back from recovery messages; the walker now splits the path at every store into a sender's slot)",
	"A8 payload constructors (Config.New*) return non-nil objects",
	"A9 a payload whose Type() is PrepareRequestType has a non-nil GetPrepareRequest() (type tag agrees with body)",
}

// finish writes evidence, prints the verdict lines and returns the exit code.
func finish(prop, tier, evidPath string, known *KnownFindings, results []*RuleResult, units map[string]interface{}, explanation string, start time.Time, extraAssumptions []string) int {
	obl, dis, sites := 0, 0, 0
	var newF, knownF []Finding
	var samples []interface{}
	distinct := 0
	isKnown := func(f Finding) bool {
		for _, k := range known.Findings {
			if k.Property == prop && k.Rule == f.Rule && k.Construct == f.Construct {
				return true
			}
		}
		return false
	}
	for _, r := range results {
		obl += r.Obligations
		dis += r.Discharged
		sites += r.Sites
		if r.Obligations > 0 {
			distinct++
		}
		for _, s := range r.Samples {
			if len(samples) < 40 {
				samples = append(samples, map[string]string{"rule": r.Rule, "obligation": s})
			}
		}
		for _, f := range r.Findings {
			if isKnown(f) {
				knownF = append(knownF, f)
			} else {
				newF = append(newF, f)
			}
		}
	}
	for _, r := range results {
		status := "ok"
		if len(r.Findings) > 0 {
			status = fmt.Sprintf("%d FINDING(S)", len(r.Findings))
		}
		fmt.Printf("  [%s] %-24s %-8s obligations=%d discharged=%d  %s\n", prop, r.Rule, r.Kind, r.Obligations, r.Discharged, status)
	}
	for _, f := range knownF {
		fmt.Printf("KNOWN-FINDING: property=%s %s %s (%s) %s\n", prop, f.Rule, f.Construct, f.Where, oneLine(f.Detail))
	}
	if len(samples) == 0 {
		samples = append(samples, "no obligations")
	}
	cov := map[string]interface{}{
		"explanation":         explanation,
		"obligations":         obl,
		"discharged":          dis,
		"evaluations":         obl,
		"distinct_nontrivial": distinct,
		"rule":                "one evaluation per (rule, site/path) obligation; distinct_nontrivial counts rules that matched at least one real construct of /repo",
		"samples":             samples,
		"rules":               results,
		"units":               units,
		"known_findings":      knownF,
		"new_findings":        newF,
		"checker_cmd":         "bin/check " + prop + " --tier " + tier,
		"trusted_base":        []string{"go/parser, go/types (Go toolchain)", "golang.org/x/tools/go/packages v0.29.0", "the rule tables in /verif/lint"},
	}
	if cov["evaluations"].(int) < 1 {
		cov["evaluations"] = 1
	}
	ev := Evidence{PropertyID: prop, Tier: tier, Seed: 0, Level: "other", Coverage: cov,
		Assumptions: append(append([]string{}, assumptions...), extraAssumptions...), WallS: time.Since(start).Seconds(), Violations: len(newF)}
	if evidPath != "" {
		os.MkdirAll(filepath.Dir(evidPath), 0o755)
		b, _ := json.MarshalIndent(ev, "", " ")
		if err := os.WriteFile(evidPath, b, 0o644); err != nil {
			fmt.Println("cannot write evidence:", err)
			return 2
		}
	}
	if len(newF) > 0 {
		sort.Slice(newF, func(i, j int) bool { return newF[i].Rule+newF[i].Construct < newF[j].Rule+newF[j].Construct })
		vpath := strings.TrimSuffix(evidPath, ".json") + ".violation.json"
		b, _ := json.MarshalIndent(map[string]interface{}{"property": prop, "findings": newF}, "", " ")
		os.WriteFile(vpath, b, 0o644)
		for _, f := range newF {
			fmt.Printf("FINDING property=%s rule=%s construct=%s at %s: %s\n", prop, f.Rule, f.Construct, f.Where, oneLine(f.Detail))
		}
		fmt.Printf("VIOLATION property=%s replay=%s\n", prop, vpath)
		return 1
	}
	fmt.Printf("OK property=%s tier=%s rules=%d obligations=%d discharged=%d known_findings=%d\n", prop, tier, len(results), obl, dis, len(knownF))
	return 0
}

func oneLine(s string) string {
	s = strings.ReplaceAll(s, "\n", " ")
	if len(s) > 600 {
		s = s[:600] + "..."
	}
	return s
}
