package main

import (
	"go/types"
)

// Holder structs. State fields are sometimes grouped: the four cached block objects move into a private struct
// `blockCache` held by value in `Context.blocks`, with a `clear()` method. Nothing changes for the state machine, so
// nothing may change for the rules: a private struct type of the root package that is the type of exactly one field of
// Context (by value), and that contains at least one field carrying a canonical Context role name the Context itself no
// longer has, is transparent: its fields are Context fields ("ctx.header"), a write of the whole struct is a write of
// each of them, and its methods work on that one instance.
func (p *Program) flattenHolders() {
	p.HolderSubs = map[string][]*types.Var{}
	p.HolderOf = map[*types.Var]*types.Var{}
	p.HolderType = map[string]string{}
	ctx := p.Structs["Context"]
	if ctx == nil {
		return
	}
	uses := map[string]int{}
	for _, st := range p.Structs {
		for i := 0; i < st.NumFields(); i++ {
			if n := structTypeName(st.Field(i).Type()); n != "" {
				uses[n]++
			}
		}
	}
	for i := 0; i < ctx.NumFields(); i++ {
		f := ctx.Field(i)
		if f.Embedded() {
			continue
		}
		if _, isPtr := f.Type().(*types.Pointer); isPtr {
			continue
		}
		tn := structTypeName(f.Type())
		if tn == "" || types.Unalias(f.Type()).(*types.Named).Obj().Exported() || uses[tn] != 1 {
			continue
		}
		nt := types.Unalias(f.Type()).(*types.Named)
		if nt.Obj().Pkg() == nil || p.Pkgs[""] == nil || nt.Obj().Pkg() != p.Pkgs[""].Types {
			continue
		}
		sub, ok := nt.Origin().Underlying().(*types.Struct)
		if !ok {
			continue
		}
		carries := false
		for j := 0; j < sub.NumFields(); j++ {
			n := sub.Field(j).Name()
			_, pv := perView[n]
			_, ph := perHeight[n]
			if (pv || ph) && fieldByName(ctx, n) == nil {
				carries = true
			}
			if fieldByName(ctx, n) != nil {
				carries = false // a name clash: keep the nesting
				break
			}
		}
		tentative := false
		if !carries {
			// no canonical names in it — but its fields may still play canonical roles under other names ("startedAt" for
			// the block-start instant): flatten tentatively, let the role derivation look, keep it only if a role was found
			simple := sub.NumFields() > 0 && sub.NumFields() <= 8
			for j := 0; j < sub.NumFields(); j++ {
				switch sub.Field(j).Type().Underlying().(type) {
				case *types.Basic:
				case *types.Struct:
					if !isTimeTime(sub.Field(j).Type()) {
						simple = false
					}
				default:
					simple = false
				}
				if fieldByName(ctx, sub.Field(j).Name()) != nil {
					simple = false
				}
			}
			if !simple {
				continue
			}
			tentative = true
		}
		loc := "ctx." + f.Name()
		if tentative {
			p.tentativeHolders = append(p.tentativeHolders, loc)
			p.tentativeType = append(p.tentativeType, tn)
		}
		p.HolderType[tn] = loc
		for j := 0; j < sub.NumFields(); j++ {
			sf := sub.Field(j).Origin()
			p.FieldOwner[sf] = "Context"
			p.HolderOf[sf] = f
			p.HolderSubs[loc] = append(p.HolderSubs[loc], sf)
		}
	}
}

func structTypeName(t types.Type) string {
	if pt, ok := t.(*types.Pointer); ok {
		t = pt.Elem()
	}
	n, ok := types.Unalias(t).(*types.Named)
	if !ok {
		return ""
	}
	if _, ok := n.Underlying().(*types.Struct); !ok {
		return ""
	}
	return n.Obj().Name()
}

// ctxFields: the state fields of Context with holder structs made transparent.
func (p *Program) ctxFields() []*types.Var {
	ctx := p.Structs["Context"]
	var out []*types.Var
	if ctx == nil {
		return nil
	}
	for i := 0; i < ctx.NumFields(); i++ {
		f := ctx.Field(i)
		if subs, ok := p.HolderSubs["ctx."+f.Name()]; ok {
			out = append(out, subs...)
			continue
		}
		out = append(out, f)
	}
	return out
}

// settleHolders: after the role derivation, a tentatively flattened struct stays transparent only if one of its fields
// was given a canonical role; otherwise it is an ordinary struct-valued field again. Returns whether anything was undone
// (the roles then have to be derived afresh).
func (p *Program) settleHolders() bool {
	undone := false
	for i, loc := range p.tentativeHolders {
		keep := false
		for _, sf := range p.HolderSubs[loc] {
			if _, ok := p.FieldAlias[sf]; ok {
				keep = true
			}
		}
		if keep {
			continue
		}
		for _, sf := range p.HolderSubs[loc] {
			delete(p.HolderOf, sf)
			p.FieldOwner[sf] = p.tentativeType[i]
		}
		delete(p.HolderSubs, loc)
		delete(p.HolderType, p.tentativeType[i])
		undone = true
	}
	p.tentativeHolders, p.tentativeType = nil, nil
	return undone
}
