package main

// Thorough-tier audit: an independent second resolution of the program (go/ssa) must agree with the AST engine
// on where the sink roles are called and where the owned fields are written.

import (
	"fmt"
	"go/types"
	"sort"
	"strings"

	"golang.org/x/tools/go/packages"
	"golang.org/x/tools/go/ssa"
	"golang.org/x/tools/go/ssa/ssautil"
)

type auditCounts map[string]map[string]int // function -> sink -> count

func ssaCounts(pkgs []*packages.Package, funcs []*FuncInfo) (auditCounts, error) {
	prog, spkgs := ssautil.AllPackages(pkgs, ssa.BuilderMode(0))
	prog.Build()
	out := auditCounts{}
	add := func(fn, sink string) {
		if out[fn] == nil {
			out[fn] = map[string]int{}
		}
		out[fn][sink]++
	}
	var visit func(fn *ssa.Function, name string)
	visit = func(fn *ssa.Function, name string) {
		for _, b := range fn.Blocks {
			for _, ins := range b.Instrs {
				switch x := ins.(type) {
				case ssa.CallInstruction:
					c := x.Common()
					if c.IsInvoke() {
						recv := namedName(c.Value.Type())
						if recv == "Timer" || recv == "Block" || recv == "PreBlock" {
							add(name, "if:"+recv+"."+c.Method.Name())
						}
						continue
					}
					// call of a value loaded from a struct field of Config
					if u, ok := c.Value.(*ssa.UnOp); ok {
						if fa, ok := u.X.(*ssa.FieldAddr); ok {
							st := fa.X.Type().Underlying().(*types.Pointer).Elem()
							if namedName(st) == "Config" {
								fld := st.Underlying().(*types.Struct).Field(fa.Field).Name()
								add(name, "cb:"+fld)
							}
						}
					}
					if f, ok := c.Value.(*ssa.Field); ok {
						if namedName(f.X.Type()) == "Config" {
							add(name, "cb:"+f.X.Type().Underlying().(*types.Struct).Field(f.Field).Name())
						}
					}
				case *ssa.Store:
					if fa, ok := x.Addr.(*ssa.FieldAddr); ok {
						st := fa.X.Type().Underlying().(*types.Pointer).Elem()
						if namedName(st) == "Context" {
							fld := st.Underlying().(*types.Struct).Field(fa.Field).Name()
							add(name, "write:ctx."+fld)
						}
					}
				}
			}
		}
		for _, af := range fn.AnonFuncs {
			visit(af, name)
		}
	}
	_ = spkgs
	for _, fi := range funcs {
		fn := prog.FuncValue(fi.Obj)
		if fn == nil {
			continue
		}
		visit(fn, fi.Name)
	}
	return out, nil
}

// astCounts: the same counts from the AST engine's site table (syntactic sites, not path snapshots).
func (c *RC) astCounts() auditCounts {
	out := auditCounts{}
	add := func(fn, sink string) {
		if out[fn] == nil {
			out[fn] = map[string]int{}
		}
		out[fn][sink]++
	}
	for _, fn := range c.Prog.dbftFuncs() {
		for _, s := range c.A.FnSites[fn] {
			switch {
			case s.Kind == "call" && strings.HasPrefix(s.Callee, "cb:"):
				add(fn.Name, s.Callee)
			case s.Kind == "call" && (strings.HasPrefix(s.Callee, "if:Timer.") || strings.HasPrefix(s.Callee, "if:Block.") || strings.HasPrefix(s.Callee, "if:PreBlock.")):
				add(fn.Name, s.Callee)
			case s.Kind == "write" && strings.HasPrefix(s.Loc, "ctx."):
				add(fn.Name, "write:"+s.Loc)
			}
		}
	}
	return out
}

var auditedSinks = map[string]bool{
	"cb:Broadcast": true, "cb:ProcessBlock": true, "cb:ProcessPreBlock": true, "cb:NewConsensusPayload": true, "cb:NewBlockFromContext": true,
	"cb:NewPreBlockFromContext": true, "cb:SubscribeForTxs": true, "cb:RequestTx": true, "cb:NewPrepareResponse": true, "cb:NewPrepareRequest": true,
	"cb:NewChangeView": true, "cb:NewCommit": true, "cb:NewPreCommit": true, "cb:VerifyBlock": true, "cb:VerifyPreBlock": true, "cb:GetKeyPair": true,
	"if:Timer.Reset": true, "if:Timer.Extend": true, "if:Block.Sign": true, "if:PreBlock.SetData": true, "if:Block.Verify": true, "if:PreBlock.Verify": true,
	"write:ctx.ViewNumber": true, "write:ctx.BlockIndex": true, "write:ctx.blockProcessed": true, "write:ctx.preBlockProcessed": true, "write:ctx.PrimaryIndex": true,
	"write:ctx.MyIndex": true, "write:ctx.Validators": true, "write:ctx.txSubscriptionOn": true, "write:ctx.lastBlockTimestamp": true, "write:ctx.Timestamp": true,
	"write:ctx.header": true, "write:ctx.preHeader": true, "write:ctx.block": true, "write:ctx.preBlock": true,
}

func ruleSSAAudit(c *RC) *RuleResult {
	r := &RuleResult{Rule: "AUDIT-SSA", Kind: "AUDIT", Doc: "thorough tier: go/ssa's independent resolution agrees with the AST engine on every function's calls of sink roles and writes of owned fields"}
	var pkgs []*packages.Package
	for _, p := range c.Prog.Pkgs {
		pkgs = append(pkgs, p)
	}
	sc, err := ssaCounts(pkgs, c.Prog.dbftFuncs())
	if err != nil {
		r.fail("ssa-build", "", err.Error())
		return r
	}
	ac := c.astCounts()
	fns := map[string]bool{}
	for f := range sc {
		fns[f] = true
	}
	for f := range ac {
		fns[f] = true
	}
	var names []string
	for f := range fns {
		names = append(names, f)
	}
	sort.Strings(names)
	total := 0
	for _, f := range names {
		for sink := range auditedSinks {
			a, s := ac[f][sink], sc[f][sink]
			if a == 0 && s == 0 {
				continue
			}
			total++
			r.Sites++
			// the AST engine records one site per syntactic occurrence; SSA may duplicate stores for tuple assignments: require >= and same zero-ness
			if (a == 0) != (s == 0) || (strings.HasPrefix(sink, "cb:") || strings.HasPrefix(sink, "if:")) && a != s {
				r.fail("audit:"+f+":"+sink, "", fmt.Sprintf("function %s: AST engine sees %d occurrence(s) of %s, go/ssa sees %d — the two resolutions disagree, verdicts about this role are not trustworthy", f, a, sink, s))
			} else {
				r.ok(fmt.Sprintf("%s: %s ×%d (AST) / ×%d (SSA)", f, sink, a, s))
			}
		}
	}
	if total < 45 {
		r.unresolved(fmt.Sprintf("audited (function, sink) pairs (found %d)", total))
	}
	if len(r.Samples) > 4 {
		r.Samples = r.Samples[:4]
	}
	return r
}
