package main

import (
	"fmt"
	"strings"
)

// G-VERIFY-WINDOW: a stored (pre)commit of the current view counts towards the quorum, so the window in which it sits
// unverified must be closed before anything counts it. Three obligations, all on today's structure by role:
//  1. kept unverified only for a reason: an exit of the (pre)commit handler that leaves the freshly stored current-view
//     payload in its slot without having called Verify for it must be on a path where the object to verify against could
//     not be had — the lazy constructor returned nil — or, for a table that the transaction recorder re-validates on
//     completion, where a transaction is still missing;
//  2. re-validation before counting: in a function that calls a re-validation routine for table T and also calls
//     something that can reach T's acceptance callback, the routine comes first on every path;
//  3. re-validation tries to build: inside a re-validation routine the Verify call is skipped only because the entry is
//     nil / of another view, a transaction is missing, or the lazy constructor returned nil — not because a cache field
//     happens to be empty.
func ruleVerifyWindow(c *RC) *RuleResult {
	r := &RuleResult{Rule: "G-VERIFY-WINDOW", Kind: "GUARD+MUST", Doc: "a stored current-view (pre)commit stays unverified only while the header/pre-block cannot be had (or a transaction is missing and completion re-validates); re-validation precedes every call that can count the entries; a re-validation routine skips Verify only when the lazy constructor returned nil"}
	hs := c.handlers()
	vr := c.verifyRoutines()
	rec := c.txRecorder()
	allTx := fAllTx().Atom.S
	// which tables does completion re-validate?
	completes := map[string]bool{}
	if rec != nil {
		var scan func(g *FuncInfo, depth int)
		scan = func(g *FuncInfo, depth int) {
			for _, s := range c.A.FnSites[g] {
				if s.Kind == "call" && s.Target != nil {
					if t, ok := vr[s.Target]; ok {
						completes[t] = true
					} else if depth < 2 && c.A.inlinableShared(s.Target) {
						scan(s.Target, depth+1) // the recorder's tail extracted for a second caller
					}
				}
			}
		}
		for g := range c.A.cluster(rec) {
			scan(g, 0)
		}
	}
	// ... on EVERY completing path, whatever the node's role: a watch-only validator does not answer the proposal, but it
	// processes the pre-block and the block like everybody else and counts what is parked in its tables
	if rec != nil {
		at := fAllTx().Atom
		// the functions in which a proposal can become complete: the recorder, and whoever else stores a transaction of
		// the proposal (a re-query of the pool), with their callers — the proposal's own builder excepted
		var roots []*FuncInfo
		seenRoot := map[*FuncInfo]bool{}
		addRoot := func(f *FuncInfo) {
			if f != nil && !seenRoot[f] {
				seenRoot[f] = true
				roots = append(roots, f)
			}
		}
		addRoot(c.phaseRoot(rec))
		delegates := map[*FuncInfo]bool{}
		builders := map[*FuncInfo]bool{}
		for _, f := range c.senderOf("PrepareRequestType") {
			builders[f] = true
			builders[c.phaseRoot(f)] = true
		}
		for _, ws := range c.writesTo("ctx.Transactions") {
			elem := false
			for _, sn := range ws.Snaps {
				if sn.Idx != nil {
					elem = true
				}
			}
			if !elem || c.inEpoch(ws.Fn) {
				continue
			}
			w := c.phaseRoot(ws.Fn)
			onlyB := func(f *FuncInfo) bool {
				if builders[f] {
					return true
				}
				cs := c.A.callers[f]
				if len(cs) == 0 {
					return false
				}
				for _, s := range cs {
					if !builders[s.Fn] && !builders[c.phaseRoot(s.Fn)] {
						return false
					}
				}
				return true
			}
			if onlyB(w) {
				continue
			}
			addRoot(w)
			for _, cs := range c.A.callers[w] {
				if g := c.phaseRoot(cs.Fn); !onlyB(g) {
					addRoot(g)
					delegates[w] = true // a helper that stores may leave what follows completion to its callers, all of them
				}
			}
		}
		for fn, table := range vr {
			if !completes[table] {
				continue
			}
			for _, root := range roots {
				r.Sites++
				bad := ""
				for _, e := range c.exitsOf(root) {
					if v, known := e.F.value(at); !known || !v {
						continue
					}
					if e.Killed["ctx.Transactions"] == 0 || e.Events["fn:"+fn.Name] {
						continue
					}
					if v, ok := e.F.value(mkAtom("eq", tMyIndex, tPrimaryIndex)); ok && v {
						continue // the primary has its transactions from the start: nothing was parked for their sake
					}
					// the node's own answer is stored although transactions were missing: the state of known finding D29
					// (an answer restored from a recovery message), which G-OWN-ANSWER-COMPLETE reports where it arises
					ownAnswer := false
					for _, tbl := range []string{"ctx.PreparationPayloads", "ctx.PreCommitPayloads", "ctx.CommitPayloads"} {
						if v, ok := e.F.value(mkAtom("nn", mkTerm(KIndex, "", fld(tbl, false), tMyIndex), nil)); ok && v {
							ownAnswer = true
						}
					}
					// (an answer given on this very path does not count: it came after the completion)
					for _, k := range []string{"PrepareResponseType", "PreCommitType", "CommitType"} {
						for _, f := range c.senderOf(k) {
							if e.Events["fn:"+f.Name] {
								ownAnswer = false
							}
						}
					}
					if ownAnswer {
						continue
					}
					skip := false
					for _, ini := range c.initialisers() {
						if e.Events["fn:"+ini.Name] {
							skip = true // a new epoch was entered
						}
					}
					// the re-validator is about anti-MEV payloads only
					if table == "ctx.PreCommitPayloads" {
						if v, ok := e.F.value(mkAtom("lt", tAMEVHeight, tZero)); ok && v {
							skip = true
						}
						if v, ok := e.F.value(mkAtom("lt", tBlockIndex, tAMEVHeight)); ok && v {
							skip = true
						}
					}
					if !skip {
						bad = strings.Join(e.Trail, "; ")
					}
				}
				if bad == "" {
					r.ok(fmt.Sprintf("%s: every path on which the last transaction arrives re-validates %s", root.Name, table))
				} else if delegates[root] {
					r.ok(fmt.Sprintf("%s leaves what follows the completion to its callers, which are judged each", root.Name))
				} else {
					r.fail(root.Name+"/completion-without-revalidation:"+table, c.Prog.Pos(root.Decl), fmt.Sprintf("on path {%s} the last missing transaction is recorded and %s is not called: entries of %s parked while the transaction was missing stay unverified and are counted (a watch-only validator leaves before the check, yet it processes the pre-block like every node)", bad, fn.Name, table))
				}
			}
		}
	}
	kinds := []struct{ kind, table, verify, ctor, accept string }{
		{"CommitType", "ctx.CommitPayloads", "if:Block.Verify", "cb:NewBlockFromContext", "cb:ProcessBlock"},
		{"PreCommitType", "ctx.PreCommitPayloads", "if:PreBlock.Verify", "cb:NewPreBlockFromContext", "cb:ProcessPreBlock"},
	}
	for _, k := range kinds {
		h := hs[k.kind]
		if h == nil {
			r.unresolved("handler of " + k.kind)
			continue
		}
		ctors := c.funcsReaching(k.ctor)
		n := 0
		for _, e := range c.exitsOf(h) {
			kl := e.Killed[k.table]
			if kl == 0 || kl&KillNilAny != 0 || kl&KillAny != 0 {
				continue // nothing stored, or removed again
			}
			cur := false
			for _, l := range e.TrailL {
				if l.Pos && l.A.Op == "eq" && strings.Contains(l.A.S, "ViewNumber(p:") && strings.Contains(l.A.S, "ctx.ViewNumber") {
					cur = true
				}
			}
			if !cur {
				continue
			}
			verified := false
			for kf := range e.F.m {
				if strings.HasPrefix(kf, "l:"+k.verify+":") {
					verified = true
				}
			}
			if verified {
				continue
			}
			n++
			r.Sites++
			why := ""
			for ev := range e.Events {
				if strings.HasSuffix(ev, "=nil") && strings.HasPrefix(ev, "fn:") {
					name := strings.TrimSuffix(strings.TrimPrefix(ev, "fn:"), "=nil")
					if f := c.Prog.fn(name); f != nil && ctors[f] {
						why = name + " returned nil"
						// ... but a constructor that gives up while a transaction is missing defers the check to the
						// moment the proposal is complete: somebody has to make it then
						if c.nilWhileTxMissing(f) && !completes[k.table] {
							why = ""
							r.fail(h.Name+"/kept-unverified:tx-missing", c.Prog.Pos(h.Decl), fmt.Sprintf("a current-view %s payload stays stored without Verify because %s returns nil while a transaction of the proposal is missing, and completing the proposal does not re-validate %s: it is counted later without ever being checked", k.kind, name, k.table))
							why = "-"
						}
					}
				}
			}
			if why == "" && completes[k.table] {
				for _, l := range e.TrailL {
					if !l.Pos && l.A.S == allTx {
						why = "a transaction is missing (completion re-validates " + k.table + ")"
					}
				}
			}
			if why == "-" {
				continue
			}
			if why != "" {
				r.ok(fmt.Sprintf("%s: payload kept unverified because %s", h.Name, why))
			} else {
				r.fail(h.Name+"/kept-unverified", c.Prog.Pos(h.Decl), fmt.Sprintf("a current-view %s payload stays stored without Verify on path {%s} although nothing says the header/pre-block could not be built: it is counted later without ever being checked", k.kind, strings.Join(e.Trail, "; ")))
			}
		}
		if n == 0 {
			r.unresolved("exits of the " + k.kind + " handler that keep the payload unverified (the header-unavailable path)")
		}
		// 2. order
		for fn, table := range vr {
			if table != k.table {
				continue
			}
			seenCaller := map[*FuncInfo]bool{}
			for _, cs := range c.A.callers[fn] {
				f := c.phaseRoot(cs.Fn)
				if seenCaller[f] {
					continue
				}
				seenCaller[f] = true
				// callees of f that can reach the acceptance callback of this table
				acc := map[string]bool{}
				for g := range c.A.cluster(f) {
					for _, s := range c.A.FnSites[g] {
						if s.Kind == "call" && s.Target != nil && s.Target != fn && !c.A.cluster(f)[s.Target] && c.reachesCallbackSameEpoch(s.Target, k.accept, c.A.cluster(f)) {
							acc["fn:"+s.Target.Name] = true
						}
					}
				}
				if len(acc) == 0 {
					continue
				}
				r.Sites++
				bad := ""
				for _, e := range c.exitsOf(f) {
					seenR := false
					for _, ev := range e.Log {
						if ev == "fn:"+fn.Name {
							seenR = true
						}
						if acc[ev] && !seenR && e.Events["fn:"+fn.Name] {
							bad = fmt.Sprintf("%s before %s on path {%s}", strings.TrimPrefix(ev, "fn:"), fn.Name, strings.Join(e.Trail, "; "))
						}
					}
				}
				if bad == "" {
					r.ok(fmt.Sprintf("%s: %s runs before anything that can count %s", f.Name, fn.Name, table))
				} else {
					r.fail(f.Name+"/count-before-revalidate:"+table, c.Prog.Pos(f.Decl), "parked entries of "+table+" can be counted before they are re-validated: "+bad)
				}
			}
		}
		// 3. inside the routine
		for fn, table := range vr {
			if table != k.table {
				continue
			}
			for _, s := range c.A.FnSites[fn] {
				if s.Kind != "call" || s.Callee != k.verify {
					continue
				}
				r.Sites++
				bad := ""
				for _, l := range condLits(s) {
					a := canonElem(l.A.S)
					switch {
					case strings.HasPrefix(a, "elem(") || strings.Contains(a, "elem("):
					case l.A.S == allTx && l.Pos:
					case l.A.Op == "nn" && l.Pos && isLocalResult(l.A.A):
					case strings.Contains(l.A.S, "rangekey:"):
					default:
						bad = l.String()
					}
				}
				if bad == "" {
					r.ok(fn.Name + ": Verify is skipped only for absent / other-view entries, a missing transaction or a nil result of the lazy constructor")
				} else {
					r.fail(fn.Name+"/revalidate-skips", c.Prog.Pos(s.Node), "the re-validation of "+table+" reaches Verify only under "+bad+": when that does not hold although the header/pre-block could be built, parked entries stay unverified")
				}
			}
		}
	}
	//  4. under anti-MEV the header cannot be had until the pre-block is processed: commits that arrive before that are
	//     parked unverified (obligation 1 accepts it). The window closes when the flag is set — on every path that sets
	//     it the parked commits are re-validated, whatever the node's own role (a node that has not sent its own
	//     pre-commit, or a watch-only one, counts them later just the same)
	commitRoutine := ""
	for f, t := range vr {
		if t == "ctx.CommitPayloads" {
			commitRoutine = f.Name
		}
	}
	seenRoot := map[*FuncInfo]bool{}
	for _, ws := range c.writesTo("ctx.preBlockProcessed") {
		setsTrue := false
		for _, sn := range ws.Snaps {
			if sn.Val != nil && sn.Val.K == KConst && sn.Val.S == "true" {
				setsTrue = true
			}
		}
		root := c.phaseRoot(ws.Fn)
		if !setsTrue || seenRoot[root] || commitRoutine == "" {
			continue
		}
		seenRoot[root] = true
		r.Sites++
		bad := ""
		for _, e := range c.exitsOf(root) {
			if e.Killed["ctx.preBlockProcessed"] == 0 {
				continue
			}
			if v, known := e.F.value(mkAtom("b", fld("ctx.preBlockProcessed", false), nil)); !known || !v {
				continue
			}
			if !e.Events["fn:"+commitRoutine] {
				bad = "{" + strings.Join(e.Trail, "; ") + "}"
			}
		}
		if bad == "" {
			r.ok(root.Name + ": every path that marks the pre-block as processed re-validates the parked commits")
		} else {
			r.fail(root.Name+"/preblock-processed-without-revalidation", c.Prog.Pos(ws.Node), "the pre-block is marked as processed (from now on the header can be built) without re-validating the commits that were parked unverified while it could not, on path "+bad+": a node that has not sent its own pre-commit (or is watch-only) later counts them towards the M commits without ever having checked their signatures")
		}
	}
	return r
}

// funcsReaching: module functions from which the callback is (transitively) called.
func (c *RC) funcsReaching(cb string) map[*FuncInfo]bool {
	out := map[*FuncInfo]bool{}
	for _, fn := range c.Prog.dbftFuncs() {
		if c.reachesCallback(fn, cb) {
			out[fn] = true
		}
	}
	return out
}

func (c *RC) reachesCallback(fn *FuncInfo, cb string) bool {
	seen := map[*FuncInfo]bool{}
	var visit func(f *FuncInfo) bool
	visit = func(f *FuncInfo) bool {
		if seen[f] {
			return false
		}
		seen[f] = true
		for _, s := range c.A.FnSites[f] {
			if s.Kind == "call" && s.Callee == cb {
				return true
			}
			if s.Target != nil && visit(s.Target) {
				return true
			}
		}
		return false
	}
	return visit(fn)
}

// reachesCallbackSameEpoch: like reachesCallback, but not through an initialiser: what is counted after an epoch change
// belongs to the new view (the entries counted there are those of the new view).
// skip: functions not to look into — the function under judgement itself: a nested activation of it (through a cycle of
// the call graph) re-validates before it counts, by the very order being established for the outer one.
func (c *RC) reachesCallbackSameEpoch(fn *FuncInfo, cb string, skip ...map[*FuncInfo]bool) bool {
	inis := map[*FuncInfo]bool{}
	for _, m := range skip {
		for f := range m {
			inis[f] = true
		}
	}
	for _, i := range c.initialisers() {
		inis[i] = true
	}
	seen := map[*FuncInfo]bool{}
	var visit func(f *FuncInfo) bool
	visit = func(f *FuncInfo) bool {
		if seen[f] || inis[f] {
			return false
		}
		seen[f] = true
		for _, s := range c.A.FnSites[f] {
			if s.Kind == "call" && s.Callee == cb {
				return true
			}
			if s.Target != nil && visit(s.Target) {
				return true
			}
		}
		return false
	}
	return visit(fn)
}

// nilWhileTxMissing: the lazy constructor has a way out with a nil result on which a transaction of the proposal is
// known to be missing (the nil is *because* of that, or at least in that situation).
func (c *RC) nilWhileTxMissing(f *FuncInfo) bool {
	at := fAllTx().Atom
	for _, e := range c.exitsOf(f) {
		if len(e.Ret) != 1 || e.Ret[0] == nil || e.Ret[0].K != KNil {
			continue
		}
		if v, known := e.F.value(at); known && !v {
			return true
		}
	}
	return false
}
