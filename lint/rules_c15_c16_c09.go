package main

// C15 (honest proposals), C16 (dynamic block time), C09 (recovery, narrow).

import (
	"fmt"
	"go/types"
	"regexp"
	"strings"
)

func init() {
	propertyRules["C15"] = []ruleFn{ruleTimestamp, rulePool, ruleRequestArgs, ruleProposalFields, ruleCacheObl, ruleViewResetCover}
	propertyExplain["C15"] = "A-TIMESTAMP: on every non-declining path of the proposal builder the stored Timestamp is max(lastBlockTimestamp + TimestampIncrement, T) — decided semantically from the path conditions and the symbolic final value — where T is the result of the truncation function, whose normal form is (UnixNano(Timer.Now()) div I)·I with I = TimestampIncrement; lastBlockTimestamp comes only from the initialiser's parameter. P-POOL: hashes and transactions are copied from the pool result index by index. P-REQUEST-ARGS: NewPrepareRequest(Timestamp, Nonce, TransactionHashes). O-PROPOSAL/L2-OBL: the primary's own block is built from the same fields and header caches are dropped on every epoch write. Sanity of the clock and nonce uniqueness are not decided."
	propertyRules["C16"] = []ruleFn{ruleViewResetCover, ruleOptionalCB, ruleSubscribeOwner, ruleDeclinePure, ruleNoIdleCV, ruleForce, ruleRearm, ruleTimerOwner}
	propertyExplain["C16"] = "Structural clauses only: the subscription callback and MaxTimePerBlock are called only when the extension is configured; one subscription wrapper sets the flag, which is cleared by every request send, forced timeout and epoch write; a declining proposal builder has no effect; the timeout handler's ChangeView is not reachable for an idle backup on its first view-0 timeout; OnNewTransaction forces the pending timeout only while subscribed with the timer's own epoch. Every timing clause (minimum spacing, 'only once the maximum elapsed', promptness) depends on numeric relations between durations and the clock and is not applicable to static analysis."
	propertyRules["C09"] = []ruleFn{ruleRecoveryBuild, ruleRecoveryReplay, ruleLadder, ruleResponder, ruleRearm}
	propertyExplain["C09"] = "Structural necessary conditions of recovery only: the recovery builder adds every stored preparation and last ChangeView, and the (pre)commits once the node has its own; the recovery handler consumes every payload getter of the RecoveryMessage interface and hands each element to OnReceive; LastChangeViewPayloads is refreshed on a view change; every admitted timeout path says something or is a deferral of the dynamic-block-time extension, and re-arms; a node with an own (pre)commit always answers a recovery request. Progress, bounds on the deciding view, partitions and restarts need multi-node timed executions: not applicable."
}

// ---- C15 ----

func ruleTimestamp(c *RC) *RuleResult {
	r := &RuleResult{Rule: "A-TIMESTAMP", Kind: "ARITH", Doc: "builder: Timestamp = max(lastBlockTimestamp + TimestampIncrement, trunc(clock)); trunc ≡ (UnixNano(Timer.Now()) div I)·I"}
	b := c.proposalBuilder()
	if b == nil {
		r.unresolved("proposal builder (function calling GetVerified and assigning Timestamp)")
		return r
	}
	wantA := "cfg.TimestampIncrement+ctx.lastBlockTimestamp"
	truncRe := regexp.MustCompile(`^mul\(cfg\.TimestampIncrement,div\(time\.Time\.UnixNano\(l:if:Timer\.Now:\d+\),cfg\.TimestampIncrement\)\)$`)
	isClock := func(t *Term) bool {
		if t == nil {
			return false
		}
		if t.K == KLocal && strings.HasPrefix(t.Name, "ret:") {
			return true
		}
		return truncRe.MatchString(nfString(t))
	}
	directTrunc := false
	exits := c.exitsFrom(b, newState(), true)
	n := 0
	var truncFn string
	for _, e := range exits {
		if len(e.Ret) == 0 || e.Ret[0].S != "true" {
			continue
		}
		n++
		r.Sites++
		v := e.FieldVal["ctx.Timestamp"]
		if v == nil {
			r.fail(b.Name+"/timestamp-unset", c.Prog.Pos(b.Decl), "a non-declining path leaves Timestamp unassigned or assigned from an untracked value: {"+strings.Join(e.Trail, "; ")+"}")
			continue
		}
		// identify A and B on this path
		isA := nfString(v) == wantA
		isB := isClock(v)
		if isB && v.K != KLocal {
			directTrunc = true
		}
		// find the comparison between A and B on the trail
		var cmp *Lit
		for i := range e.TrailL {
			l := e.TrailL[i]
			if l.A.Op != "lt" {
				continue
			}
			a, bb := l.A.A, l.A.B
			if (nfString(a) == wantA && isClock(bb)) || (nfString(bb) == wantA && isClock(a)) {
				cmp = &e.TrailL[i]
			}
		}
		switch {
		case cmp == nil:
			r.fail(b.Name+"/timestamp-max", c.Prog.Pos(b.Decl), "Timestamp ("+v.S+") is not chosen by comparing lastBlockTimestamp+TimestampIncrement with the truncated clock on path {"+strings.Join(e.Trail, "; ")+"}")
		default:
			aLess := false // A < B known?
			if nfString(cmp.A.A) == wantA {
				aLess = cmp.Pos // lt(A,B)=Pos
				if cmp.A.B.K == KLocal {
					truncFn = strings.TrimSuffix(strings.TrimPrefix(cmp.A.B.Name, "ret:"), ":"+lastSeg(cmp.A.B.Name))
				}
			} else {
				// lt(B,A)=Pos : if true then B<A so A is max; if false then A<=B so B is max (ties equal)
				aLess = !cmp.Pos
				if cmp.A.A.K == KLocal {
					truncFn = strings.TrimSuffix(strings.TrimPrefix(cmp.A.A.Name, "ret:"), ":"+lastSeg(cmp.A.A.Name))
				}
			}
			strictTie := nfString(cmp.A.A) != wantA && !cmp.Pos // lt(B,A) false ⇒ A<=B: choosing B is fine (equal on ties)
			_ = strictTie
			if (aLess && isB) || (!aLess && isA) {
				r.ok(fmt.Sprintf("%s: Timestamp = %s on path with %s", b.Name, v.S, cmp.String()))
			} else if !aLess && isB && nfString(cmp.A.A) != wantA {
				r.ok(fmt.Sprintf("%s: Timestamp = clock when clock >= prev+incr (%s)", b.Name, cmp.String()))
			} else {
				r.fail(b.Name+"/timestamp-max", c.Prog.Pos(b.Decl), fmt.Sprintf("Timestamp = %s on a path where %s: not the maximum of prev+increment and the truncated clock", v.S, cmp.String()))
			}
		}
	}
	if n == 0 {
		r.unresolved("non-declining paths of the proposal builder")
	}
	// truncation function normal form
	r.Sites++
	tf := c.Prog.fn(truncFn)
	if tf == nil && directTrunc {
		r.ok(b.Name + ": the clock value is (UnixNano(Timer.Now()) div TimestampIncrement) · TimestampIncrement (inline)")
	} else if tf == nil {
		r.fail(b.Name+"/trunc-fn", c.Prog.Pos(b.Decl), "the clock value compared in the builder is not the result of a truncation function (got "+truncFn+")")
	} else {
		t, ok := c.singleRet(tf)
		re := regexp.MustCompile(`^mul\(cfg\.TimestampIncrement,div\(time\.Time\.UnixNano\(l:if:Timer\.Now:\d+\),cfg\.TimestampIncrement\)\)$`)
		if ok && re.MatchString(nfString(t)) {
			r.ok(tf.Name + "() ≡ (UnixNano(Timer.Now()) div TimestampIncrement) · TimestampIncrement")
		} else {
			got := "?"
			if ok {
				got = nfString(t)
			}
			r.fail(tf.Name+"/normal-form", c.Prog.Pos(tf.Decl), "truncation has normal form "+got+", expected (UnixNano(Timer.Now()) div I)*I")
		}
	}
	// lastBlockTimestamp provenance
	ws := c.writesTo("ctx.lastBlockTimestamp")
	if len(ws) == 0 {
		r.unresolved("write of lastBlockTimestamp")
	}
	for _, s := range ws {
		for _, sn := range s.Snaps {
			r.Sites++
			if c.inEpoch(s.Fn) && sn.Val != nil && sn.Val.K == KParam {
				r.ok("lastBlockTimestamp ← parameter " + sn.Val.S + " of the epoch writer")
			} else {
				r.fail(s.Fn.Name+"/write:ctx.lastBlockTimestamp", c.Prog.Pos(s.Node), "lastBlockTimestamp assigned outside the epoch writer or not from its parameter")
			}
		}
	}
	for _, s := range append(c.initCalls(true), c.initCalls(false)...) {
		for _, sn := range s.Snaps {
			r.Sites++
			if len(sn.Args) == 2 && (sn.Args[1].K == KParam || sn.Args[1].S == "ctx.lastBlockTimestamp") {
				r.ok(s.Fn.Name + ": initialiser receives " + sn.Args[1].S)
			} else {
				r.fail(s.Fn.Name+"/init-ts", c.Prog.Pos(s.Node), "initialiser is not handed the caller's previous-block timestamp")
			}
		}
	}
	return r
}

func lastSeg(s string) string {
	if i := strings.LastIndex(s, ":"); i >= 0 {
		return s[i+1:]
	}
	return s
}

var reNum = regexp.MustCompile(`:\d+`)

func normFresh(s string) string { return reNum.ReplaceAllString(canonElem(s), ":#") }

// canonElem rewrites "T[l:rangekey:L:T]" (the table indexed by the key of the loop ranging it) to the loop element
// "elem(T)#L": the two spell the same value.
func canonElem(s string) string {
	const mark = "[l:rangekey:"
	for from := 0; ; {
		i := strings.Index(s[from:], mark)
		if i < 0 {
			return s
		}
		i += from
		rest := s[i+len(mark):]
		c := strings.Index(rest, ":")
		e := strings.Index(rest, "]")
		if c < 0 || e < 0 || c > e {
			from = i + len(mark)
			continue
		}
		loop, table := rest[:c], rest[c+1:e]
		if table == "" || !strings.HasSuffix(s[:i], table) {
			from = i + len(mark)
			continue
		}
		s = s[:i-len(table)] + "elem(" + table + ")#" + loop + rest[e+1:]
		from = 0
	}
}

func rulePool(c *RC) *RuleResult {
	r := &RuleResult{Rule: "P-POOL", Kind: "PROV", Doc: "builder: TransactionHashes = make(len(pool)); hashes[i] = pool[i].Hash(); Transactions[hash] = pool[i] with i the range index over the pool result"}
	b := c.proposalBuilder()
	if b == nil {
		r.unresolved("proposal builder")
		return r
	}
	var sawMake, sawHash, sawTx bool
	rec := c.inlineSites(b, false)
	var bsites []*Site
	for _, ss := range rec.FnSites {
		bsites = append(bsites, ss...)
	}
	for _, s := range bsites {
		if s.Kind != "write" {
			continue
		}
		for _, sn := range s.Snaps {
			switch {
			case s.Loc == "ctx.TransactionHashes" && sn.Idx == nil && sn.Val != nil:
				r.Sites++
				if strings.HasPrefix(sn.Val.Name, "make:") && len(sn.Val.Args) == 2 && normFresh(sn.Val.Args[1].S) == "len(l:cbres:GetVerified:#)" {
					sawMake = true
					r.ok("TransactionHashes = make([]H, len(GetVerified()))")
				} else {
					r.fail(b.Name+"/hashes-alloc", c.Prog.Pos(s.Node), "TransactionHashes is not allocated with the length of the pool result")
				}
			case s.Loc == "ctx.TransactionHashes" && sn.Idx != nil:
				r.Sites++
				k := sn.Idx.S
				_ = k
				okHash := false
				if strings.HasPrefix(sn.Idx.Name, "rangekey:") && sn.Val != nil {
					// hashes[i] for the key i of the loop over the pool result: the value is Hash() of that loop's element
					parts := strings.SplitN(strings.TrimPrefix(sn.Idx.Name, "rangekey:"), ":", 2)
					if len(parts) == 2 {
						okHash = normFresh(sn.Val.S) == normFresh("Transaction.Hash(elem("+parts[1]+")#"+parts[0]+")") && strings.HasPrefix(normFresh(parts[1]), "l:cbres:GetVerified:#")
					}
				}
				if okHash {
					sawHash = true
					r.ok("TransactionHashes[i] = pool[i].Hash()")
				} else {
					r.fail(b.Name+"/hashes-order", c.Prog.Pos(s.Node), "TransactionHashes element is not pool[i].Hash() at the range index i")
				}
			case s.Loc == "ctx.Transactions" && sn.Idx != nil:
				r.Sites++
				if sn.Val != nil && normFresh(sn.Idx.S) == "Transaction.Hash("+normFresh(sn.Val.S)+")" && strings.HasPrefix(normFresh(sn.Val.S), "elem(l:cbres:GetVerified:#)#L") {
					sawTx = true
					r.ok("Transactions[pool[i].Hash()] = pool[i]")
				} else {
					r.fail(b.Name+"/tx-map", c.Prog.Pos(s.Node), "Transactions entry is not keyed by the hash of the same pool element")
				}
			}
		}
	}
	if !sawMake || !sawHash || !sawTx {
		r.unresolved("allocation / hash copy / transaction copy in the builder")
	}
	return r
}

func ruleRequestArgs(c *RC) *RuleResult {
	r := &RuleResult{Rule: "P-REQUEST-ARGS", Kind: "PROV", Doc: "NewPrepareRequest(Timestamp, Nonce, TransactionHashes) in that order, after the builder succeeded"}
	ss := c.callSites("cb:NewPrepareRequest")
	if len(ss) == 0 {
		r.unresolved("call site of Config.NewPrepareRequest")
	}
	b := c.proposalBuilder()
	for _, s := range ss {
		for _, sn := range s.Snaps {
			r.Sites++
			if len(sn.Args) == 3 && sn.Args[0].S == "ctx.Timestamp" && sn.Args[1].S == "ctx.Nonce" && sn.Args[2].S == "ctx.TransactionHashes" {
				if b != nil && !sn.Events["fn:"+b.Name+"=true"] {
					r.fail(s.Fn.Name+"/request-before-fill", c.Prog.Pos(s.Node), "NewPrepareRequest is reachable without the proposal builder having succeeded")
				} else {
					r.ok(s.Fn.Name + ": NewPrepareRequest(Timestamp, Nonce, TransactionHashes) after the builder returned true")
				}
			} else {
				var as []string
				for _, a := range sn.Args {
					as = append(as, a.S)
				}
				r.fail(s.Fn.Name+"/request-args", c.Prog.Pos(s.Node), "NewPrepareRequest("+strings.Join(as, ", ")+") does not pass Timestamp, Nonce, TransactionHashes in the roles ts, nonce, transactionHashes")
			}
		}
	}
	return r
}

// ---- C16 ----

func ruleSubscribeOwner(c *RC) *RuleResult {
	r := &RuleResult{Rule: "O-SUBSCRIBE", Kind: "OWN+MUST", Doc: "SubscribeForTxs is called from one wrapper that sets txSubscriptionOn; the flag is cleared by the epoch writer and on every path that sends a PrepareRequest"}
	ss := c.callSites("cb:SubscribeForTxs")
	if len(ss) != 1 {
		r.Sites++
		r.fail("SubscribeForTxs/sites", "", fmt.Sprintf("SubscribeForTxs has %d call sites (expected one wrapper)", len(ss)))
		return r
	}
	w := ss[0].Fn
	r.Sites++
	okk := true
	for _, e := range c.exitsOf(w) {
		if v, ok := e.F.value(mkAtom("b", fld("ctx.txSubscriptionOn", false), nil)); !ok || !v {
			okk = false
		}
	}
	if okk {
		r.ok(w.Name + " sets txSubscriptionOn on every path")
	} else {
		r.fail(w.Name+"/flag", c.Prog.Pos(w.Decl), "the subscription wrapper does not set txSubscriptionOn")
	}
	// the flag means "the application has been asked": every path of the wrapper that sets it makes the call (when the
	// extension is configured)
	r.Sites++
	skipped := ""
	for _, e := range c.exitsOf(w) {
		if v, ok := e.F.value(mkAtom("b", fld("ctx.txSubscriptionOn", false), nil)); ok && v && !e.Events["cb:SubscribeForTxs"] {
			if v2, ok2 := e.F.value(mkAtom("nn", fld("cfg.SubscribeForTxs", false), nil)); ok2 && !v2 {
				continue // not configured
			}
			if v2, ok2 := e.F.value(mkAtom("nn", fld("cfg.MaxTimePerBlock", false), nil)); ok2 && !v2 {
				continue
			}
			skipped = "{" + strings.Join(e.Trail, "; ") + "}"
		}
	}
	if skipped == "" {
		r.ok(w.Name + ": the flag is set only together with the SubscribeForTxs call")
	} else {
		r.fail(w.Name+"/flag-without-call", c.Prog.Pos(w.Decl), "the wrapper marks the node as subscribed without asking the application on path "+skipped+" (a later notification never comes, the node waits the maximum interval)")
	}
	// the node subscribes only while handling a timeout of its current epoch: every feasible call chain from an API entry
	// to the wrapper passes through the timeout handler (a subscription made earlier — at initialisation, on a message —
	// lets a notification force a proposal before the minimum block time has passed). Decided by demanding `false` at
	// the wrapper's call sites: the demand must die out on infeasible paths (e.g. Start's forced proposal never
	// declines) or reach the timeout handler.
	if th := c.timeoutHandler(); th != nil {
		inTH := c.A.cluster(th)
		var sites []*Site
		for _, cs := range c.A.callers[w] {
			if inTH[cs.Fn] {
				r.Sites++
				r.ok(fmt.Sprintf("%s@%s subscribes while handling a timeout", cs.Fn.Name, c.Prog.Pos(cs.Node)))
				continue
			}
			sites = append(sites, cs)
		}
		for _, cs := range sites {
			for _, sn := range cs.Snaps {
				r.Sites++
				// what this path knows about the function's own parameters must be refuted by every caller outside the
				// timeout handler (with nothing known about them the demand is plain `false`)
				var ps []*Formula
				for k, v := range sn.F.m {
					at := sn.F.atoms[k]
					if at == nil || !hasParamTerm(at.A) && !hasParamTerm(at.B) || strings.Contains(at.S, "ctx.") || strings.Contains(at.S, "l:") {
						continue
					}
					if v {
						ps = append(ps, fAtom(at))
					} else {
						ps = append(ps, fNot(fAtom(at)))
					}
				}
				need := fFalse
				if len(ps) > 0 {
					need = fNot(fAnd(ps...))
				}
				d := c.A.newDemand(c.apiList)
				d.ExemptCall = func(call *Site, g *Formula) *Formula {
					if inTH[call.Fn] {
						return fTrue
					}
					return nil
				}
				if f := d.proveEntry(cs.Fn, need, 0); f == nil {
					r.ok(fmt.Sprintf("%s@%s: reached only through the timeout handler (other callers cannot take this path)", cs.Fn.Name, c.Prog.Pos(cs.Node)))
				} else {
					r.fail(cs.Fn.Name+"/subscribe-outside-timeout via "+chainNames(f.Chain), c.Prog.Pos(cs.Node), "the node can subscribe for transactions outside the handling of a timeout (a notification then forces a proposal before the minimum block time has passed): "+f.String())
				}
			}
		}
	} else {
		r.unresolved("timeout handler")
	}
	// cleared by the epoch writer
	if ew := c.A.epochWriter; ew != nil {
		r.Sites++
		okk = true
		for _, e := range c.exitsOf(ew) {
			if v, ok := e.F.value(mkAtom("b", fld("ctx.txSubscriptionOn", false), nil)); !ok || v {
				okk = false
			}
		}
		if okk {
			r.ok("epoch writer clears txSubscriptionOn on every path")
		} else {
			r.fail(ew.Name+"/clear-subscription", c.Prog.Pos(ew.Decl), "the epoch writer leaves txSubscriptionOn set on some path")
		}
	}
	// request sender clears it before sending
	for _, f := range c.senderOf("PrepareRequestType") {
		r.Sites++
		bad := ""
		for _, s := range c.sendSitesOf("PrepareRequestType") {
			if s.Fn != f {
				continue
			}
			for _, sn := range s.Snaps {
				if v, ok := sn.F.value(mkAtom("b", fld("ctx.txSubscriptionOn", false), nil)); !ok || v {
					bad = "{" + sn.Trail + "}"
				}
			}
		}
		if bad == "" {
			r.ok(f.Name + ": subscription flag cleared before the request is sent")
		} else {
			r.fail(f.Name+"/unsubscribe-before-send", c.Prog.Pos(f.Decl), "PrepareRequest sent with the subscription flag possibly still set on path "+bad)
		}
	}
	return r
}

func ruleDeclinePure(c *RC) *RuleResult {
	r := &RuleResult{Rule: "G-DECLINE-PURE", Kind: "GUARD", Doc: "a declining proposal builder leaves the context untouched and declines only when the extension is configured, not forced, and the pool is empty"}
	b := c.proposalBuilder()
	if b == nil {
		r.unresolved("proposal builder")
		return r
	}
	n := 0
	for _, e := range c.exitsOf(b) {
		if len(e.Ret) == 0 || e.Ret[0].S != "false" {
			continue
		}
		n++
		r.Sites++
		var ks []string
		for l := range e.Killed {
			ks = append(ks, l)
		}
		condOK := false
		if v, ok := e.F.value(mkAtom("nn", fld("cfg.MaxTimePerBlock", false), nil)); ok && v {
			condOK = true
		}
		forced := false
		for _, l := range e.TrailL {
			if l.Pos && l.A.Op == "b" && l.A.A.K == KParam {
				forced = true
			}
		}
		switch {
		case len(ks) > 0:
			r.fail(b.Name+"/decline-writes", c.Prog.Pos(b.Decl), "declining path writes "+strings.Join(ks, ","))
		case !condOK || forced:
			r.fail(b.Name+"/decline-cond", c.Prog.Pos(b.Decl), "the builder declines without MaxTimePerBlock configured or although forced: {"+strings.Join(e.Trail, "; ")+"}")
		default:
			r.ok(b.Name + ": declines only under MaxTimePerBlock≠nil ∧ ¬force ∧ empty pool, without touching the context")
		}
	}
	if n == 0 {
		r.unresolved("declining path of the proposal builder")
	}
	return r
}

func ruleNoIdleCV(c *RC) *RuleResult {
	r := &RuleResult{Rule: "G-NO-IDLE-CV", Kind: "GUARD", Doc: "timeout handler: the ChangeView sender is not reachable for an idle backup on its first view-0 timeout with the extension configured (it defers instead)"}
	th := c.timeoutHandler()
	cvs := c.senderOf("ChangeViewType")
	if th == nil || len(cvs) == 0 {
		r.unresolved("timeout handler / ChangeView sender")
		return r
	}
	n := 0
	rec := c.inlineSites(th, false)
	var tsites []*Site
	for _, ss := range rec.FnSites {
		tsites = append(tsites, ss...)
	}
	for _, s := range tsites {
		if s.Kind != "call" || s.Target == nil {
			continue
		}
		isCV := false
		for _, f := range cvs {
			if f == s.Target {
				isCV = true
			}
		}
		if !isCV {
			continue
		}
		for _, sn := range s.Snaps {
			n++
			r.Sites++
			// the conjunction must be refuted by a decision on the path
			refuted := ""
			for _, l := range sn.TrailL {
				k := l.A.S
				switch {
				case !l.Pos && k == "ctx.ViewNumber==0":
					refuted = "view > 0"
				case !l.Pos && k == "cfg.MaxTimePerBlock!=nil":
					refuted = "extension not configured"
				case l.Pos && k == "ctx.MyIndex==ctx.PrimaryIndex":
					refuted = "primary"
				case l.Pos && k == "ctx.txSubscriptionOn":
					refuted = "already subscribed (second timeout)"
				case !l.Pos && strings.HasPrefix(normFresh(k), "len(l:cbres:GetVerified:#)==0"):
					refuted = "pool not empty"
				}
			}
			if refuted != "" {
				r.ok(th.Name + ": ChangeView on timeout only when " + refuted)
			} else {
				r.fail(th.Name+"/idle-cv", c.Prog.Pos(s.Node), "ChangeView is reachable for an idle backup on its first view-0 timeout: {"+sn.Trail+"}")
			}
		}
	}
	if n == 0 {
		r.unresolved("ChangeView call in the timeout handler")
	}
	return r
}

func ruleForce(c *RC) *RuleResult {
	r := &RuleResult{Rule: "G-FORCE", Kind: "GUARD+PROV", Doc: "OnNewTransaction reaches the timeout handler only while subscribed, with the timer's own Height()/View() and force=true; OnTimeout passes force=false"}
	th := c.timeoutHandler()
	if th == nil {
		r.unresolved("timeout handler")
		return r
	}
	// every call of the handler is judged from the API entry it comes from (forwarding wrappers walked inline)
	seenCaller := map[*FuncInfo]bool{}
	for _, api := range []*FuncInfo{c.API["OnNewTransaction"], c.API["OnTimeout"]} {
		if api == nil {
			continue
		}
		rec := c.inlineSites(api, false)
		for _, g := range c.Prog.sortedFuncs() {
			for _, s := range rec.FnSites[g] {
				if s.Kind != "call" || s.Target != th {
					continue
				}
				seenCaller[s.Fn] = true
				for _, sn := range s.Snaps {
					r.Sites++
					if api == c.API["OnNewTransaction"] {
						sub, _ := sn.F.value(mkAtom("b", fld("ctx.txSubscriptionOn", false), nil))
						if sub && len(sn.Args) == 3 && sn.Args[0].S == "Timer.Height(cfg.Timer)" && sn.Args[1].S == "Timer.View(cfg.Timer)" && sn.Args[2].S == "true" {
							r.ok("OnNewTransaction → timeout(Timer.Height(), Timer.View(), true) under txSubscriptionOn")
						} else {
							r.fail(api.Name+"/force", c.Prog.Pos(s.Node), "OnNewTransaction forces a timeout without an active subscription or with another epoch than the timer's")
						}
					} else {
						if len(sn.Args) == 3 && sn.Args[0].K == KParam && sn.Args[1].K == KParam && sn.Args[2].S == "false" {
							r.ok("OnTimeout → timeout(height, view, false)")
						} else {
							r.fail(api.Name+"/force", c.Prog.Pos(s.Node), "OnTimeout does not pass its arguments through with force=false")
						}
					}
				}
			}
		}
	}
	for _, s := range c.A.callers[th] {
		if !seenCaller[s.Fn] {
			r.Sites++
			r.fail(s.Fn.Name+"/timeout-caller", c.Prog.Pos(s.Node), "the timeout handler is called from a function that is not reached from OnTimeout / OnNewTransaction alone")
		}
	}
	// a notification is not a timeout: a subscribed backup that is told about a new transaction gives the primary a
	// regular round, whatever it has received meanwhile — it never asks for a view change (or recovery) on that call.
	// The backup subscribes only in view 0 with the extension configured (checked first), so that is what a forced call
	// may assume.
	cvs := c.senderOf("ChangeViewType")
	if len(th.Params) == 3 && len(cvs) > 0 {
		hp, vp, fp := mkTerm(KParam, th.Params[0].Name()), mkTerm(KParam, th.Params[1].Name()), mkTerm(KParam, th.Params[2].Name())
		viewZero := mkAtom("eq", tViewNumber, tZero)
		maxSet := mkAtom("nn", fld("cfg.MaxTimePerBlock", false), nil)
		subOK := true
		for _, w := range c.funcsCallingCB("cb:SubscribeForTxs") {
			for _, cs := range c.A.callers[w] {
				if !c.A.cluster(th)[cs.Fn] {
					continue
				}
				for _, sn := range c.preciseSnapsAll(cs) {
					if v, ok := sn.F.value(mkAtom("eq", tMyIndex, tPrimaryIndex)); ok && v {
						continue // the primary's subscription
					}
					v0, ok0 := sn.F.value(viewZero)
					m0, ok1 := sn.F.value(maxSet)
					if !(ok0 && v0 && ok1 && m0) {
						subOK = false
					}
				}
			}
		}
		init := newState()
		for _, l := range []Lit{
			{mkAtom("b", fp, nil), true}, {mkAtom("b", fld("ctx.txSubscriptionOn", false), nil), true},
			{viewZero, true}, {maxSet, true},
			{mkAtom("lt", tMyIndex, tZero), false}, {mkAtom("eq", tMyIndex, tPrimaryIndex), false},
			{mkAtom("b", mkTerm(KCall, "cfg.WatchOnly"), nil), false},
			{mkAtom("eq", hp, tBlockIndex), true}, {mkAtom("eq", vp, tViewNumber), true},
		} {
			init.F.add(l)
		}
		r.Sites++
		bad := ""
		n := 0
		for _, e := range c.exitsFrom(th, init, false) {
			n++
			for _, f := range cvs {
				if e.Events["fn:"+f.Name] {
					bad = "{" + strings.Join(e.Trail, "; ") + "}"
				}
			}
		}
		switch {
		case !subOK:
			r.fail(th.Name+"/backup-subscribes-elsewhere", c.Prog.Pos(th.Decl), "a backup subscribes for transactions outside view 0 / without the extension configured: a forced timeout cannot assume either")
		case n == 0:
			r.unresolved("forced paths of the timeout handler for a subscribed backup")
		case bad != "":
			r.fail(th.Name+"/forced-change-view", c.Prog.Pos(th.Decl), "a new-transaction notification makes a subscribed backup ask for a view change (or recovery) on path "+bad+": the chain is healthy, the primary has just been given something to propose")
		default:
			r.ok(fmt.Sprintf("%s: a forced call on a subscribed backup never reaches the ChangeView sender (%d paths)", th.Name, n))
		}
	}
	return r
}

// funcsCallingCB: module functions that call the given Config callback directly.
func (c *RC) funcsCallingCB(cb string) []*FuncInfo {
	seen := map[*FuncInfo]bool{}
	var out []*FuncInfo
	for _, s := range c.callSites(cb) {
		if !seen[s.Fn] {
			seen[s.Fn] = true
			out = append(out, s.Fn)
		}
	}
	return out
}

// ---- C09 ----

func (c *RC) recoveryBuilder() *FuncInfo {
	for _, s := range c.callSites("cb:NewRecoveryMessage") {
		return s.Fn
	}
	return nil
}

func ruleRecoveryBuild(c *RC) *RuleResult {
	r := &RuleResult{Rule: "A-RECOVERY-BUILD", Kind: "AGREE", Doc: "recovery builder: every non-nil PreparationPayloads and LastChangeViewPayloads entry is added unconditionally; PreCommitPayloads under PreCommitSent; CommitPayloads under CommitSent"}
	b := c.recoveryBuilder()
	if b == nil {
		r.unresolved("recovery builder (function calling NewRecoveryMessage)")
		return r
	}
	cond := map[string]string{"ctx.PreparationPayloads": "", "ctx.LastChangeViewPayloads": "", "ctx.PreCommitPayloads": "ctx.PreCommitPayloads[ctx.MyIndex]!=nil", "ctx.CommitPayloads": "ctx.CommitPayloads[ctx.MyIndex]!=nil"}
	seen := map[string]bool{}
	// an "add" is a call of AddPayload with the ranged element of a table, in the builder itself or in a helper that
	// adds every non-nil element of a slice parameter (then the table is the argument at the builder's call)
	type add struct {
		site  *Site
		table string
		conds []Lit
	}
	var adds []add
	adderParam := func(g *FuncInfo) int {
		for _, s := range c.A.FnSites[g] {
			if s.Kind != "call" || s.Callee != "if:RecoveryMessage.AddPayload" {
				continue
			}
			for _, sn := range s.Snaps {
				if len(sn.Args) != 1 || elemTable(sn.Args[0]) == nil || elemTable(sn.Args[0]).K != KParam {
					continue
				}
				only := true
				for _, l := range condLits(s) {
					if !strings.HasPrefix(canonElem(l.A.S), "elem(") {
						only = false
					}
				}
				if !only {
					continue
				}
				for j, p := range g.Params {
					if p.Name() == elemTable(sn.Args[0]).Name {
						return j
					}
				}
			}
		}
		return -1
	}
	for _, s := range c.A.FnSites[b] {
		if s.Kind != "call" {
			continue
		}
		if s.Callee == "if:RecoveryMessage.AddPayload" {
			for _, sn := range s.Snaps {
				if len(sn.Args) == 1 && elemTable(sn.Args[0]) != nil {
					adds = append(adds, add{s, elemTable(sn.Args[0]).S, condLits(s)})
				}
			}
			continue
		}
		if s.Target != nil && s.Target != b && s.Target.Pkg.PkgPath == modPath {
			if j := adderParam(s.Target); j >= 0 {
				for _, sn := range s.Snaps {
					if j < len(sn.Args) && sn.Args[j] != nil {
						adds = append(adds, add{s, sn.Args[j].S, condLits(s)})
					}
				}
			}
		}
	}
	for _, ad := range adds {
		s, table := ad.site, ad.table
		{
			want, known := cond[table]
			r.Sites++
			if !known {
				r.fail(b.Name+"/table:"+table, c.Prog.Pos(s.Node), "unexpected table "+table+" in the recovery message")
				continue
			}
			// allowed conditions for reaching the site: element != nil, and (for commits) the own-(pre)commit predicate
			bad := ""
			for _, l := range ad.conds {
				k := canonElem(l.A.S)
				switch {
				case strings.HasPrefix(k, "elem("):
				case want != "" && (k == want || k == "ctx.MyIndex<0" || k == "cfg.WatchOnly()"):
				default:
					bad = l.String()
				}
			}
			if bad == "" {
				seen[table] = true
				r.ok(fmt.Sprintf("%s: every non-nil element of %s is added%s", b.Name, table, map[bool]string{true: " once the node has its own", false: ""}[want != ""]))
			} else {
				r.fail(b.Name+"/cond:"+table, c.Prog.Pos(s.Node), "elements of "+table+" are added only under the extra condition "+bad)
			}
		}
	}
	for t := range cond {
		if !seen[t] {
			r.Sites++
			r.fail(b.Name+"/missing:"+t, c.Prog.Pos(b.Decl), "the recovery message does not carry "+t)
		}
	}
	return r
}

func ruleRecoveryReplay(c *RC) *RuleResult {
	r := &RuleResult{Rule: "A-RECOVERY-REPLAY", Kind: "AGREE", Doc: "recovery handler: every payload getter of the RecoveryMessage interface is called and every element is handed to OnReceive; LastChangeViewPayloads is refreshed from ChangeViewPayloads on a view change"}
	h := c.handlers()["RecoveryMessageType"]
	if h == nil {
		r.unresolved("recovery message handler")
		return r
	}
	iface := c.Prog.Pkgs[""].Types.Scope().Lookup("RecoveryMessage")
	if iface == nil {
		r.unresolved("RecoveryMessage interface")
		return r
	}
	// derived from the interface itself: all methods named Get*
	getters := interfaceGetters(iface.Type())
	if len(getters) < 5 {
		r.unresolved("payload getters of the RecoveryMessage interface")
	}
	fed := map[string]bool{}
	mark := func(t *Term) {
		for _, g := range getters {
			if strings.Contains(t.S, "l:if:RecoveryMessage."+g+":") {
				fed[g] = true
			}
		}
	}
	// helpers that hand (the elements of) a parameter to OnReceive: parameter positions
	feeds := func(fn *FuncInfo) map[int]bool {
		out := map[int]bool{}
		for _, s := range c.A.FnSites[fn] {
			if s.Kind == "call" && s.Target == c.API["OnReceive"] {
				for _, sn := range s.Snaps {
					if len(sn.Args) == 1 {
						for i, p := range fn.Params {
							a0 := sn.Args[0]
							if a0.K == KIndex && a0.Args[0].K == KParam && a0.Args[0].Name == p.Name() {
								out[i] = true // an element of the slice parameter, by whatever index
							}
							if as := canonElem(a0.S); strings.Contains(as, "p:"+p.Name()+")") || strings.HasSuffix(as, "p:"+p.Name()) {
								out[i] = true
							}
						}
					}
				}
			}
		}
		return out
	}
	rec := c.inlineSites(h, false)
	var hsites []*Site
	for _, g := range c.Prog.sortedFuncs() {
		hsites = append(hsites, rec.FnSites[g]...)
	}
	for _, s := range hsites {
		if s.Kind != "call" || s.Target == nil {
			continue
		}
		if s.Target == c.API["OnReceive"] {
			for _, sn := range s.Snaps {
				if len(sn.Args) == 1 && strings.Contains(sn.Args[0].S, "l:stale:") {
					// rebuilt from the recovery message before the node's epoch changed under it (the ChangeViews of the
					// same message moved it to another view): stamped with the old view's primary, it is refused
					r.Sites++
					r.fail(h.Name+"/stale-rebuilt-payload", c.Prog.Pos(s.Node), "a payload rebuilt from the recovery message is handed to OnReceive after a call that may have changed the epoch it was rebuilt for ("+sn.Args[0].S+"): a request stamped with the previous view's primary is dropped as coming from the wrong node")
				}
				if len(sn.Args) == 1 {
					mark(sn.Args[0])
				}
			}
			continue
		}
		if s.Target != h && s.Target.Pkg.PkgPath == modPath {
			for i := range feeds(s.Target) {
				for _, sn := range s.Snaps {
					if i < len(sn.Args) && sn.Args[i] != nil {
						mark(sn.Args[i])
					}
				}
			}
		}
	}
	for _, g := range getters {
		r.Sites++
		if fed[g] {
			r.ok(h.Name + ": results of " + g + " are handed to OnReceive")
		} else {
			r.fail(h.Name+"/getter:"+g, c.Prog.Pos(h.Decl), "payloads returned by RecoveryMessage."+g+" are never replayed through OnReceive")
		}
	}
	// scenario reachability: each replay must be reachable in the situations it exists for
	m := msgParam()
	mv := getter("ConsensusMessage", "ViewNumber", m, true)
	scen := map[string][][]Lit{
		"GetCommits":          {{{mkAtom("eq", mv, tViewNumber), true}}, {{mkAtom("lt", mv, tViewNumber), true}}},
		"GetPreCommits":       {{{mkAtom("eq", mv, tViewNumber), true}}, {{mkAtom("lt", mv, tViewNumber), true}}},
		"GetChangeViews":      {{{mkAtom("lt", tViewNumber, mv), true}}},
		"GetPrepareRequest":   {{{mkAtom("eq", mv, tViewNumber), true}}},
		"GetPrepareResponses": {{{mkAtom("eq", mv, tViewNumber), true}}},
	}
	for _, g := range getters {
		ss, ok := scen[g]
		if !ok {
			continue
		}
		for _, sc := range ss {
			r.Sites++
			reach := false
			for _, s := range c.A.FnSites[h] {
				if s.Kind != "call" || s.Callee != "if:RecoveryMessage."+g {
					continue
				}
				for _, sn := range s.Snaps {
					f := sn.F.clone()
					cons := true
					for _, l := range sc {
						if !f.add(l) {
							cons = false
						}
					}
					if cons {
						reach = true
					}
				}
			}
			if reach {
				r.ok(fmt.Sprintf("%s: replay of %s is reachable when %s", h.Name, g, sc[0].String()))
			} else {
				r.fail(h.Name+"/scenario:"+g+":"+sc[0].String(), c.Prog.Pos(h.Decl), "payloads from "+g+" are never replayed when "+sc[0].String()+" (the recovery message is their only retransmission path)")
			}
		}
	}
	// refresh of LastChangeViewPayloads
	if ew := c.A.epochWriter; ew != nil {
		r.Sites++
		good := false
		stale := ""
		for _, s := range c.epochSites() {
			if s.Kind == "write" && s.Loc == "ctx.LastChangeViewPayloads" {
				for _, sn := range s.Snaps {
					if sn.Val != nil && sn.Val.K == KIndex && sn.Val.Args[0].S == "ctx.ChangeViewPayloads" && sn.Idx != nil && sn.Val.Args[1].S == sn.Idx.S {
						if sn.Killed["ctx.ChangeViewPayloads"] != 0 {
							stale = c.Prog.Pos(s.Node)
							continue
						}
						for _, l := range sn.TrailL {
							if !l.Pos && l.A.Op == "lt" && strings.Contains(l.A.A.S, "ChangeView.NewViewNumber(") && l.A.B.K == KParam {
								good = true
							}
						}
					}
				}
			}
		}
		if stale != "" {
			r.fail(ew.Name+"/last-cv-refresh-after-clear", stale, "LastChangeViewPayloads is refreshed from ChangeViewPayloads after that table was already re-initialised in the same reset: the carried-over change views are all nil and recovery messages lose the evidence for the current view")
		} else if good {
			r.ok("LastChangeViewPayloads[i] ← ChangeViewPayloads[i] for entries with NewViewNumber ≥ view, read before the table is cleared")
		} else {
			r.fail(ew.Name+"/last-cv-refresh", c.Prog.Pos(ew.Decl), "LastChangeViewPayloads is not refreshed from the ChangeView payloads that justified the view change")
		}
	}
	return r
}

func ruleLadder(c *RC) *RuleResult {
	r := &RuleResult{Rule: "M-LADDER", Kind: "MUST", Doc: "every admitted timeout path broadcasts something or is a deferral of the dynamic-block-time extension"}
	th := c.timeoutHandler()
	if th == nil {
		r.unresolved("timeout handler")
		return r
	}
	// "says something" = the broadcast wrapper itself ran on the path (a must-event of the callee's summary for this
	// calling context), not merely a function that contains a send site was entered: a sender that skips its broadcast
	// on some path (e.g. "my request for this view is out already") does not count
	var senders []string
	for w := range c.wrappers {
		senders = append(senders, "fn:"+w.Name)
	}
	reqSenders := c.senderOf("PrepareRequestType")
	hp, vp := mkTerm(KParam, th.Params[0].Name()), mkTerm(KParam, th.Params[1].Name())
	adm1, adm2 := mkAtom("eq", hp, tBlockIndex).S, mkAtom("eq", vp, tViewNumber).S
	n := 0
	for _, e := range c.exitsOf(th) {
		a1, a2, defer_ := false, false, false
		for _, l := range e.TrailL {
			if l.Pos && l.A.S == adm1 {
				a1 = true
			}
			if l.Pos && l.A.S == adm2 {
				a2 = true
			}
			if l.Pos && l.A.S == "cfg.MaxTimePerBlock!=nil" {
				defer_ = true
			}
		}
		if !a1 || !a2 {
			continue
		}
		n++
		r.Sites++
		said := false
		for _, s := range senders {
			if e.Events[s] {
				said = true
			}
		}
		viaReq := false
		for _, f := range reqSenders {
			if e.Events["fn:"+f.Name] {
				viaReq = true
			}
		}
		switch {
		case said:
			r.ok(th.Name + ": timeout path broadcasts")
		case viaReq:
			r.ok(th.Name + ": timeout path goes through the request sender (sends or defers, judged below)")
		case defer_:
			r.ok(th.Name + ": deferral exit of the dynamic-block-time extension")
		default:
			r.fail(th.Name+"/silent-timeout", c.Prog.Pos(th.Decl), "an admitted timeout returns without broadcasting and is not a deferral of the extension: {"+strings.Join(e.Trail, "; ")+"}")
		}
	}
	if n < 4 {
		r.unresolved("admitted timeout paths")
	}
	// the request sender either broadcasts or subscribes (deferral)
	for _, f := range reqSenders {
		for _, e := range c.exitsOf(f) {
			r.Sites++
			sent := false
			for w := range c.wrappers {
				if e.Events["fn:"+w.Name] {
					sent = true
				}
			}
			if sent || e.Events["cb:SubscribeForTxs"] {
				r.ok(f.Name + ": sends the request or subscribes and defers")
			} else {
				r.fail(f.Name+"/silent-request", c.Prog.Pos(f.Decl), "the request sender returns without sending or subscribing: {"+strings.Join(e.Trail, "; ")+"}")
			}
		}
	}
	if len(r.Samples) > 4 {
		r.Samples = r.Samples[:4]
	}
	return r
}

func ruleResponder(c *RC) *RuleResult {
	r := &RuleResult{Rule: "G-RESPONDER", Kind: "MUST", Doc: "recovery-request handler: a validator holding its own commit (or pre-commit under anti-MEV) always answers with a recovery message"}
	h := c.handlers()["RecoveryRequestType"]
	rs := c.senderOf("RecoveryMessageType")
	if h == nil || len(rs) == 0 {
		r.unresolved("recovery-request handler / recovery message sender")
		return r
	}
	cases := []struct {
		name string
		lits []Lit
	}{
		{"own commit", []Lit{{mkAtom("lt", tMyIndex, tZero), false}, {mkAtom("b", mkTerm(KCall, "cfg.WatchOnly"), nil), false}, {mkAtom("nn", slot("CommitPayloads", tMyIndex), nil), true}}},
		{"own pre-commit under anti-MEV", []Lit{{mkAtom("lt", tMyIndex, tZero), false}, {mkAtom("b", mkTerm(KCall, "cfg.WatchOnly"), nil), false}, {mkAtom("nn", slot("PreCommitPayloads", tMyIndex), nil), true}}},
	}
	for _, cs := range cases {
		r.Sites++
		st := newState()
		for _, l := range cs.lits {
			st.F.add(l)
		}
		bad := ""
		for _, e := range c.exitsFrom(h, st, false) {
			okk := false
			for _, f := range rs {
				if e.Events["fn:"+f.Name] {
					okk = true
				}
			}
			if !okk {
				bad = "{" + strings.Join(e.Trail, "; ") + "}"
			}
		}
		if bad == "" {
			r.ok(h.Name + " with " + cs.name + ": always sends a recovery message")
		} else {
			r.fail(h.Name+"/responder:"+cs.name, c.Prog.Pos(h.Decl), "a node with "+cs.name+" may ignore a recovery request on path "+bad)
		}
	}
	return r
}

func interfaceGetters(t types.Type) []string {
	it, ok := t.Underlying().(*types.Interface)
	if !ok {
		return nil
	}
	var out []string
	for i := 0; i < it.NumMethods(); i++ {
		m := it.Method(i)
		if strings.HasPrefix(m.Name(), "Get") {
			out = append(out, m.Name())
		}
	}
	return out
}

// condLits: the decisions common to every path snapshot reaching the site (its reach conditions).
func condLits(s *Site) []Lit {
	if len(s.Snaps) == 0 {
		return nil
	}
	count := map[string]int{}
	lit := map[string]Lit{}
	for _, sn := range s.Snaps {
		seen := map[string]bool{}
		for _, l := range sn.TrailL {
			k := l.String()
			if !seen[k] {
				seen[k] = true
				count[k]++
				lit[k] = l
			}
		}
	}
	var out []Lit
	for k, n := range count {
		if n == len(s.Snaps) {
			out = append(out, lit[k])
		}
	}
	return out
}
