package main

import (
	"go/ast"
	"go/token"
	"go/types"

	"golang.org/x/tools/go/types/typeutil"
)

// epochTag decides whether a Context field is an "epoch tag": state whose every read (anywhere in the module) is one side of a
// comparison whose other side is made of the current height / view only. Such a field cannot carry anything of an old proposal
// into a later view - whatever it holds is only ever asked "is this the current epoch?" - so it needs no reset on view change.
// Returns the number of reads inspected and, if some read is of another kind, where.
func (c *RC) epochTag(fv *types.Var) (reads int, bad string) {
	for _, fn := range c.Prog.sortedFuncs() {
		info := fn.Pkg.TypesInfo
		var stack []ast.Node
		ast.Inspect(fn.Decl.Body, func(n ast.Node) bool {
			if n == nil {
				stack = stack[:len(stack)-1]
				return true
			}
			stack = append(stack, n)
			sel, ok := n.(*ast.SelectorExpr)
			if !ok {
				return true
			}
			s := info.Selections[sel]
			if s == nil || s.Kind() != types.FieldVal {
				return true
			}
			v, _ := s.Obj().(*types.Var)
			if v == nil || v.Origin() != fv.Origin() {
				return true
			}
			// climb: sub-field selections, parentheses, +/- with an epoch-only operand
			i := len(stack) - 1
			var cur ast.Node = sel
			for i > 0 {
				par := stack[i-1]
				switch p := par.(type) {
				case *ast.SelectorExpr:
					if p.X == cur {
						cur = p
						i--
						continue
					}
				case *ast.ParenExpr:
					cur = p
					i--
					continue
				case *ast.BinaryExpr:
					if p.Op == token.ADD || p.Op == token.SUB {
						other := p.X
						if other == cur {
							other = p.Y
						}
						if c.epochOnly(info, other, 0) {
							cur = p
							i--
							continue
						}
					}
				}
				break
			}
			if i == 0 {
				bad = c.Prog.Pos(sel)
				return true
			}
			switch p := stack[i-1].(type) {
			case *ast.AssignStmt:
				for _, l := range p.Lhs {
					if l == cur {
						return true // a write
					}
				}
				reads++
				bad = c.Prog.Pos(sel)
			case *ast.BinaryExpr:
				reads++
				switch p.Op {
				case token.EQL, token.NEQ, token.LSS, token.LEQ, token.GTR, token.GEQ:
					other := p.X
					if other == cur {
						other = p.Y
					}
					if !c.epochOnly(info, other, 0) {
						bad = c.Prog.Pos(sel)
					}
				default:
					bad = c.Prog.Pos(sel)
				}
			default:
				reads++
				bad = c.Prog.Pos(sel)
			}
			return true
		})
	}
	return reads, bad
}

// epochOnly: the expression is built from constants, the current height and view (Context fields with those roles), +/-,
// conversions, composite literals of those, and calls of module functions whose every return is such an expression.
func (c *RC) epochOnly(info *types.Info, e ast.Expr, depth int) bool {
	if depth > 4 {
		return false
	}
	e = ast.Unparen(e)
	if tv, ok := info.Types[e]; ok && tv.Value != nil {
		return true
	}
	switch x := e.(type) {
	case *ast.BasicLit:
		return true
	case *ast.SelectorExpr:
		s := info.Selections[x]
		if s == nil || s.Kind() != types.FieldVal {
			return false
		}
		v, _ := s.Obj().(*types.Var)
		if v == nil || c.Prog.FieldOwner[v.Origin()] != "Context" {
			return false
		}
		role := c.Prog.fieldRole(v, v.Name())
		return role == "BlockIndex" || role == "ViewNumber"
	case *ast.BinaryExpr:
		return (x.Op == token.ADD || x.Op == token.SUB) && c.epochOnly(info, x.X, depth) && c.epochOnly(info, x.Y, depth)
	case *ast.UnaryExpr:
		return x.Op == token.AND && c.epochOnly(info, x.X, depth)
	case *ast.CompositeLit:
		for _, el := range x.Elts {
			if kv, ok := el.(*ast.KeyValueExpr); ok {
				el = kv.Value
			}
			if !c.epochOnly(info, el, depth) {
				return false
			}
		}
		return true
	case *ast.CallExpr:
		if tv, ok := info.Types[x.Fun]; ok && tv.IsType() && len(x.Args) == 1 {
			return c.epochOnly(info, x.Args[0], depth)
		}
		fo, _ := typeutil.Callee(info, x).(*types.Func)
		if fo == nil {
			return false
		}
		t := c.Prog.Funcs[fo.Origin()]
		if t == nil || t.Decl == nil || t.Decl.Body == nil || len(x.Args) != 0 {
			return false
		}
		ok, n := true, 0
		ast.Inspect(t.Decl.Body, func(nd ast.Node) bool {
			switch y := nd.(type) {
			case *ast.FuncLit:
				return false
			case *ast.ReturnStmt:
				n++
				for _, res := range y.Results {
					if !c.epochOnly(t.Pkg.TypesInfo, res, depth+1) {
						ok = false
					}
				}
			case *ast.AssignStmt, *ast.IncDecStmt, *ast.GoStmt, *ast.DeferStmt, *ast.SendStmt:
				ok = false
			}
			return true
		})
		return ok && n > 0
	}
	return false
}

// epochMentions: does the (epoch-only) expression mention the height / the view?
func (c *RC) epochMentions(info *types.Info, e ast.Node, depth int) (h, v bool) {
	if depth > 4 {
		return
	}
	ast.Inspect(e, func(n ast.Node) bool {
		switch x := n.(type) {
		case *ast.SelectorExpr:
			if s := info.Selections[x]; s != nil && s.Kind() == types.FieldVal {
				if fv, _ := s.Obj().(*types.Var); fv != nil && c.Prog.FieldOwner[fv.Origin()] == "Context" {
					switch c.Prog.fieldRole(fv, fv.Name()) {
					case "BlockIndex":
						h = true
					case "ViewNumber":
						v = true
					}
				}
			}
		case *ast.CallExpr:
			if fo, _ := typeutil.Callee(info, x).(*types.Func); fo != nil {
				if t := c.Prog.Funcs[fo.Origin()]; t != nil && t.Decl != nil && t.Decl.Body != nil {
					h2, v2 := c.epochMentions(t.Pkg.TypesInfo, t.Decl.Body, depth+1)
					h, v = h || h2, v || v2
				}
			}
		}
		return true
	})
	return
}

// epochTagField: the one struct-valued Context field that is an epoch tag (see epochTag), nil if there is none or several.
func (c *RC) epochTagField() *types.Var {
	var out *types.Var
	for _, fv := range c.Prog.ctxFields() {
		if _, isStruct := fv.Type().Underlying().(*types.Struct); !isStruct || isTimeTime(fv.Type()) {
			continue
		}
		f := c.Prog.fieldRole(fv, fv.Name())
		if _, ok := perView[f]; ok {
			continue
		}
		if _, ok := perHeight[f]; ok {
			continue
		}
		if n, bad := c.epochTag(fv); n > 0 && bad == "" {
			if out != nil {
				return nil
			}
			out = fv
		}
	}
	return out
}
