package main

import (
	"fmt"
	"go/ast"
	"go/types"
	"golang.org/x/tools/go/types/typeutil"
	"strings"
)

func init() {
	propertyRules["C13"] = []ruleFn{ruleGSilent}
	propertyExplain["C13"] = "All-paths guard rule G-SILENT: for every call of Config.Broadcast, Block.Sign and PreBlock.SetData in package dbft, on every path snapshot from every API entry (Start, Reset, OnReceive, OnTimeout, OnTransaction, OnNewTransaction) the fact not-watch-only (MyIndex >= 0 and !Config.WatchOnly()) is established before the call; residual requirements are pushed to all callers (backward demand over the resolved call graph). Decides silence of watch-only nodes; does not decide that other validators progress."
	propertyRules["C14"] = []ruleFn{ruleNoWallclock, ruleInstantProv, ruleInstantSet, ruleTimestamp}
	propertyExplain["C14"] = "Ownership rule O-NO-WALLCLOCK: no function of package dbft references a wall-clock reading function of package time (resolved by types.Func identity, calls and method values alike). Provenance rule P-INSTANT: every time.Time value stored in Context/DBFT and every UnixNano() feeding a timestamp originates in Config.Timer.Now(); P-INSTANT-SET: a stored instant is used only where it is known to have been recorded (the zero time.Time is an absolute date). Decides that time enters only through the injected timer; the equality of two shifted runs is the behavioural consequence and is not re-established dynamically."
}

// G-SILENT (C13)
func ruleGSilent(c *RC) *RuleResult {
	r := &RuleResult{Rule: "G-SILENT", Kind: "GUARD", Doc: "reach ⇒ MyIndex>=0 ∧ ¬Config.WatchOnly()"}
	sinks := c.sitesWhere(func(s *Site) bool {
		return s.Kind == "call" && (s.Callee == "cb:Broadcast" || s.Callee == "if:Block.Sign" || s.Callee == "if:PreBlock.SetData")
	})
	kinds := map[string]int{}
	for _, s := range sinks {
		kinds[s.Callee]++
	}
	for _, k := range []string{"cb:Broadcast", "if:Block.Sign", "if:PreBlock.SetData"} {
		if kinds[k] == 0 {
			r.unresolved("call site of " + k)
		}
	}
	if len(c.apiList) != 6 {
		r.unresolved("the six API entries of *DBFT")
	}
	c.guardRule(r, sinks, c.apiList, func(s *Site, sn *Snap) *Formula { return fNotWatchOnly() }, nil)
	return r
}

var wallclock = map[string]bool{
	"time.Now": true, "time.Since": true, "time.Until": true, "time.After": true, "time.AfterFunc": true,
	"time.Tick": true, "time.NewTimer": true, "time.NewTicker": true, "time.Sleep": true,
}

// O-NO-WALLCLOCK (C14)
func ruleNoWallclock(c *RC) *RuleResult {
	r := &RuleResult{Rule: "O-NO-WALLCLOCK", Kind: "OWN", Doc: "package dbft never references a wall-clock function of package time"}
	pkg := c.Prog.Pkgs[""]
	if pkg == nil {
		r.unresolved("package dbft")
		return r
	}
	nfuncs := 0
	for _, fn := range c.Prog.dbftFuncs() {
		nfuncs++
		r.Sites++
		bad := false
		ast.Inspect(fn.Decl, func(n ast.Node) bool {
			id, ok := n.(*ast.Ident)
			if !ok {
				return true
			}
			f, ok := fn.Pkg.TypesInfo.Uses[id].(*types.Func)
			if !ok || f.Pkg() == nil || f.Pkg().Path() != "time" {
				return true
			}
			name := "time." + f.Name()
			if sig := f.Type().(*types.Signature); sig.Recv() != nil {
				return true
			}
			if wallclock[name] {
				bad = true
				r.fail(fn.Name+"/"+name, c.Prog.Pos(id), "wall-clock function "+name+" referenced in "+fn.Name+"; instants must come from Config.Timer.Now()")
			}
			return true
		})
		if !bad {
			r.ok(fn.Name + ": no reference to time.Now/Since/Until/After/AfterFunc/Tick/NewTimer/NewTicker/Sleep")
		}
	}
	// ... and never calls (statically) a function of another package of the module that reaches one: the only way time
	// may come in is the injected Timer interface
	wall := map[*FuncInfo]string{}
	for _, fn := range c.Prog.sortedFuncs() {
		ast.Inspect(fn.Decl, func(n ast.Node) bool {
			if id, ok := n.(*ast.Ident); ok {
				if f, ok := fn.Pkg.TypesInfo.Uses[id].(*types.Func); ok && f.Pkg() != nil && f.Pkg().Path() == "time" && f.Type().(*types.Signature).Recv() == nil && wallclock["time."+f.Name()] {
					wall[fn] = "time." + f.Name()
				}
			}
			return true
		})
	}
	for changed := true; changed; {
		changed = false
		for _, fn := range c.Prog.sortedFuncs() {
			if wall[fn] != "" {
				continue
			}
			info := fn.Pkg.TypesInfo
			ast.Inspect(fn.Decl.Body, func(n ast.Node) bool {
				if call, ok := n.(*ast.CallExpr); ok {
					if fo, ok := typeutil.Callee(info, call).(*types.Func); ok {
						if t := c.Prog.Funcs[fo.Origin()]; t != nil && wall[t] != "" && wall[fn] == "" {
							wall[fn] = t.Name + " -> " + wall[t]
							changed = true
						}
					}
				}
				return true
			})
		}
	}
	for _, fn := range c.Prog.dbftFuncs() {
		info := fn.Pkg.TypesInfo
		ast.Inspect(fn.Decl.Body, func(n ast.Node) bool {
			if call, ok := n.(*ast.CallExpr); ok {
				if fo, ok := typeutil.Callee(info, call).(*types.Func); ok {
					if t := c.Prog.Funcs[fo.Origin()]; t != nil && t.Pkg != fn.Pkg && wall[t] != "" {
						r.Sites++
						r.fail(fn.Name+"/via:"+t.Name, c.Prog.Pos(call), fn.Name+" calls "+t.Name+" ("+t.Pkg.PkgPath+"), which reads the machine's clock ("+wall[t]+"): time enters the state machine beside the injected timer")
					}
				}
			}
			return true
		})
	}
	// package-level initialisers
	for _, f := range pkg.Syntax {
		for _, d := range f.Decls {
			if gd, ok := d.(*ast.GenDecl); ok {
				ast.Inspect(gd, func(n ast.Node) bool {
					if id, ok := n.(*ast.Ident); ok {
						if fo, ok := pkg.TypesInfo.Uses[id].(*types.Func); ok && fo.Pkg() != nil && fo.Pkg().Path() == "time" && wallclock["time."+fo.Name()] {
							r.fail("pkginit/time."+fo.Name(), c.Prog.Pos(id), "wall-clock function in a package-level declaration")
						}
					}
					return true
				})
			}
		}
	}
	if nfuncs < 40 {
		r.unresolved("functions of package dbft (expected >= 40)")
	}
	return r
}

// P-INSTANT (C14): time.Time values stored in state come from Timer.Now().
func ruleInstantProv(c *RC) *RuleResult {
	r := &RuleResult{Rule: "P-INSTANT", Kind: "PROV", Doc: "every time.Time stored in Context/DBFT and every UnixNano() used as a timestamp originates in Timer.Now()"}
	nnow := 0
	for _, fn := range c.Prog.dbftFuncs() {
		info := fn.Pkg.TypesInfo
		// (1) assignments to fields of type time.Time
		ast.Inspect(fn.Decl.Body, func(n ast.Node) bool {
			as, ok := n.(*ast.AssignStmt)
			if !ok {
				return true
			}
			for i, l := range as.Lhs {
				sel, ok := ast.Unparen(l).(*ast.SelectorExpr)
				if !ok {
					continue
				}
				s := info.Selections[sel]
				if s == nil || s.Kind() != types.FieldVal || !isTimeTime(s.Obj().Type()) {
					continue
				}
				owner := c.Prog.FieldOwner[s.Obj().(*types.Var).Origin()]
				if owner != "Context" && owner != "DBFT" {
					continue
				}
				r.Sites++
				if i >= len(as.Rhs) {
					r.fail(fn.Name+"/"+sel.Sel.Name, c.Prog.Pos(as), "tuple assignment to an instant field")
					continue
				}
				src := c.instantSource(info, fn, as.Rhs[i], 0)
				if src == "Timer.Now" || src == "zero" {
					r.ok(fn.Name + ": " + sel.Sel.Name + " ← " + src)
				} else {
					r.fail(fn.Name+"/"+sel.Sel.Name, c.Prog.Pos(as), "instant field "+sel.Sel.Name+" assigned from "+src+", not from Config.Timer.Now()")
				}
			}
			return true
		})
		// (2) every UnixNano() call has a receiver originating in Timer.Now(); every Sub has both operands so
		ast.Inspect(fn.Decl.Body, func(n ast.Node) bool {
			call, ok := n.(*ast.CallExpr)
			if !ok {
				return true
			}
			sel, ok := ast.Unparen(call.Fun).(*ast.SelectorExpr)
			if !ok {
				return true
			}
			s := info.Selections[sel]
			if s == nil || s.Kind() != types.MethodVal || !isTimeTime(s.Recv()) {
				return true
			}
			r.Sites++
			operands := []ast.Expr{sel.X}
			if sel.Sel.Name == "Sub" || sel.Sel.Name == "Before" || sel.Sel.Name == "After" || sel.Sel.Name == "Equal" || sel.Sel.Name == "Compare" {
				operands = append(operands, call.Args...)
			}
			switch sel.Sel.Name {
			case "Sub", "IsZero", "UnixNano", "Before", "After", "Equal", "Compare":
			default:
				r.fail(fn.Name+"/time.Time."+sel.Sel.Name, c.Prog.Pos(call), "time.Time method "+sel.Sel.Name+" is not in the shift-equivariant set {Sub, IsZero, UnixNano, comparisons}")
				return true
			}
			okAll := true
			for _, o := range operands {
				src := c.instantSource(info, fn, o, 0)
				if src != "Timer.Now" && src != "state" {
					okAll = false
					r.fail(fn.Name+"/time.Time."+sel.Sel.Name, c.Prog.Pos(call), "operand of "+sel.Sel.Name+" originates in "+src+", not in Config.Timer.Now() or a stored injected instant")
				}
			}
			if okAll && sel.Sel.Name == "UnixNano" {
				// UnixNano() is for absolute timestamps only: durations must be formed with Sub (which saturates and is
				// well defined for the zero Time), never as a difference of UnixNano readings or a Duration conversion
				if why := unixNanoMisuse(info, fn, call); why != "" {
					okAll = false
					r.fail(fn.Name+"/unixnano-duration", c.Prog.Pos(call), why)
				}
			}
			if okAll {
				if sel.Sel.Name == "UnixNano" {
					nnow++
				}
				r.ok(fn.Name + ": time.Time." + sel.Sel.Name + " on injected instants")
			}
			return true
		})
	}
	if nnow == 0 {
		r.unresolved("UnixNano() of an injected instant (timestamp source)")
	}
	return r
}

func isTimeTime(t types.Type) bool {
	n, ok := types.Unalias(t).(*types.Named)
	return ok && n.Obj().Pkg() != nil && n.Obj().Pkg().Path() == "time" && n.Obj().Name() == "Time"
}

// instantSource classifies where a time.Time expression comes from.
func (c *RC) instantSource(info *types.Info, fn *FuncInfo, e ast.Expr, depth int) string {
	e = ast.Unparen(e)
	if depth > 6 {
		return "unknown"
	}
	switch x := e.(type) {
	case *ast.CallExpr:
		if sel, ok := ast.Unparen(x.Fun).(*ast.SelectorExpr); ok {
			if s := info.Selections[sel]; s != nil && s.Kind() == types.MethodVal {
				if namedName(s.Recv()) == "Timer" && sel.Sel.Name == "Now" && strings.HasPrefix(namedPkgPath(s.Recv()), modPath) {
					return "Timer.Now"
				}
			}
			if f, ok := info.Uses[sel.Sel].(*types.Func); ok && f.Pkg() != nil {
				return f.Pkg().Path() + "." + f.Name()
			}
		}
		return "call"
	case *ast.CompositeLit:
		if len(x.Elts) == 0 {
			return "zero"
		}
		return "literal"
	case *ast.SelectorExpr:
		if s := info.Selections[x]; s != nil && s.Kind() == types.FieldVal && isTimeTime(s.Obj().Type()) {
			return "state"
		}
		return "selector"
	case *ast.Ident:
		v, ok := info.Uses[x].(*types.Var)
		if !ok {
			return "unknown"
		}
		res := ""
		ast.Inspect(fn.Decl.Body, func(n ast.Node) bool {
			switch s := n.(type) {
			case *ast.AssignStmt:
				for i, l := range s.Lhs {
					if id, ok := ast.Unparen(l).(*ast.Ident); ok {
						obj := info.Defs[id]
						if obj == nil {
							obj = info.Uses[id]
						}
						if obj == v && i < len(s.Rhs) {
							src := c.instantSource(info, fn, s.Rhs[i], depth+1)
							if res == "" || res == src {
								res = src
							} else {
								res = "mixed(" + res + "," + src + ")"
							}
						}
					}
				}
			case *ast.ValueSpec:
				for i, id := range s.Names {
					if info.Defs[id] == v && i < len(s.Values) {
						src := c.instantSource(info, fn, s.Values[i], depth+1)
						if res == "" || res == src {
							res = src
						} else {
							res = "mixed(" + res + "," + src + ")"
						}
					}
				}
			}
			return true
		})
		if res == "" {
			// a parameter that is never re-assigned: what every caller passes
			if pi := paramIndexOf(fn, v); pi >= 0 && !c.A.escapes[fn] && !fn.Decl.Name.IsExported() {
				cs := c.A.callers[fn]
				for _, s := range cs {
					if s.Call == nil || pi >= len(s.Call.Args) || s.Call.Ellipsis.IsValid() {
						return "unknown"
					}
					src := c.instantSource(s.Fn.Pkg.TypesInfo, s.Fn, s.Call.Args[pi], depth+1)
					if res == "" || res == src {
						res = src
					} else {
						res = "mixed(" + res + "," + src + ")"
					}
				}
			}
		}
		if res == "" {
			return "unknown"
		}
		return res
	}
	return "unknown"
}

// paramIndexOf: the position of v among fn's declared parameters, -1 if it is not one.
func paramIndexOf(fn *FuncInfo, v *types.Var) int {
	if fn.Decl == nil || fn.Decl.Type.Params == nil {
		return -1
	}
	i := 0
	for _, f := range fn.Decl.Type.Params.List {
		if len(f.Names) == 0 {
			i++
			continue
		}
		for _, n := range f.Names {
			if fn.Pkg.TypesInfo.Defs[n] == v {
				return i
			}
			i++
		}
	}
	return -1
}

// unixNanoMisuse: the UnixNano() call is used to build a duration.
func unixNanoMisuse(info *types.Info, fn *FuncInfo, target *ast.CallExpr) string {
	res := ""
	var stack []ast.Node
	ast.Inspect(fn.Decl.Body, func(n ast.Node) bool {
		if n == nil {
			stack = stack[:len(stack)-1]
			return true
		}
		if n == ast.Node(target) {
			for i := len(stack) - 1; i >= 0; i-- {
				switch x := stack[i].(type) {
				case *ast.CallExpr:
					if tv, ok := info.Types[x.Fun]; ok && tv.IsType() {
						if nt, ok := types.Unalias(tv.Type).(*types.Named); ok && nt.Obj().Pkg() != nil && nt.Obj().Pkg().Path() == "time" && nt.Obj().Name() == "Duration" {
							res = "UnixNano() feeds a time.Duration conversion: elapsed time must be computed with Time.Sub on injected instants"
						}
					} else {
						return false // argument of an ordinary call (constructor): fine
					}
				case *ast.BinaryExpr:
					if x.Op.String() == "-" {
						other := x.X
						if containsNode(x.X, target) {
							other = x.Y
						}
						found := false
						ast.Inspect(other, func(m ast.Node) bool {
							if s, ok := m.(*ast.SelectorExpr); ok && s.Sel.Name == "UnixNano" {
								found = true
							}
							return true
						})
						if found {
							res = "difference of two UnixNano() readings: use Time.Sub (UnixNano of the zero Time is not meaningful)"
						}
					}
				case ast.Stmt:
					return false
				}
			}
			return false
		}
		stack = append(stack, n)
		return true
	})
	return res
}

func containsNode(root ast.Node, target ast.Node) bool {
	found := false
	ast.Inspect(root, func(n ast.Node) bool {
		if n == target {
			found = true
		}
		return !found
	})
	return found
}

// P-INSTANT-SET: a stored instant that was never recorded is the zero time.Time, an absolute point of the calendar: a
// duration measured from it (Sub, comparisons) depends on the injected clock's epoch, so a constant clock shift changes
// the requested timer durations. Every use of a stored instant other than IsZero() is therefore made only where the
// field is known to be set (path fact !X.IsZero()).
func ruleInstantSet(c *RC) *RuleResult {
	r := &RuleResult{Rule: "P-INSTANT-SET", Kind: "GUARD", Doc: "a stored instant (time.Time field of Context/DBFT) is used in Sub/comparisons/UnixNano only where it is known to have been recorded (!X.IsZero() on the path): the zero Time is an absolute date, not an injected instant"}
	n := 0
	for _, fn := range c.Prog.dbftFuncs() {
		for _, s := range c.A.FnSites[fn] {
			if s.Kind != "call" || !strings.HasPrefix(s.Callee, "ext:time.Time.") || s.Callee == "ext:time.Time.IsZero" {
				continue
			}
			for _, sn := range s.Snaps {
				ops := append([]*Term{sn.Recv}, sn.Args...)
				for _, o := range ops {
					if o == nil || o.K != KField {
						continue
					}
					n++
					r.Sites++
					iz := mkAtom("b", mkTerm(KCall, "time.Time.IsZero", o), nil)
					if v, ok := sn.F.value(iz); ok && !v {
						r.ok(fmt.Sprintf("%s: %s of %s under !IsZero()", fn.Name, strings.TrimPrefix(s.Callee, "ext:"), o.S))
						continue
					}
					r.fail(fn.Name+"/unset-instant:"+o.S, c.Prog.Pos(s.Node), fmt.Sprintf("%s is applied to the stored instant %s on path {%s} where it may never have been recorded (zero time.Time): the result depends on the absolute epoch of the injected clock, so two runs with clocks differing by a constant offset request different timer durations", strings.TrimPrefix(s.Callee, "ext:"), o.S, sn.Trail))
				}
			}
		}
	}
	if n == 0 {
		r.unresolved("use of a stored instant (Sub/compare on a time.Time field)")
	}
	return r
}
