package main

// Structured path walker: enumerates the paths of a function as conjunctions of
// literals, applies writes/kills, callee summaries, and records a snapshot of the
// path state at every call / write / table-index site.

import (
	"fmt"
	"go/ast"
	"go/constant"
	"go/token"
	"go/types"
	"sort"
	"strings"

	"golang.org/x/tools/go/types/typeutil"
)

// kill kinds (bitmask)
const (
	KillNil       = 1  // a slot was set to nil
	KillNNOwn     = 2  // own slot set to a non-nil value
	KillNNSender  = 4  // a sender's slot set to a non-nil value
	KillNNOther   = 8  // some other slot set to a non-nil value
	KillAny       = 16 // anything else
	KillNNPrimary = 32 // the primary's slot set to a non-nil value
	KillStable    = 64 // write of a per-height stable location (MyIndex/Priv/Pub): a kill only if the validator list changed
	// KillNilResp: an entry of the preparation table known to be a PrepareResponse was set to nil. The proposal slot
	// holds the request or nothing (responses from the primary are refused, G-ADMIT-PREP; L4), so "proposal recorded"
	// survives it; otherwise it is a nil-store
	KillNilResp = 128
	KillNilAny  = KillNil | KillNilResp
)

type State struct {
	F      *Facts
	Env    map[*types.Var]*Term
	Killed map[string]int
	Events map[string]bool
	Ret    []*Term
	Trail  []string
	TrailL []Lit
	// ReadSeen: state locations read on this path
	ReadSeen map[string]bool
	// Log: ordered events (bounded)
	Log []string
	// Pending: stable locations written before any change of the validator list on this path
	Pending map[string]bool
	// FieldVal: symbolic values of scalar fields written on this path (only with Walker.trackFields)
	FieldVal map[string]*Term
	// Sticky: literals that were facts on this path before a write invalidated them (admission facts)
	Sticky map[string]Lit
	// RetConst: "true","false","nil","" classification of first result
}

func newState() *State {
	return &State{F: newFacts(), Env: map[*types.Var]*Term{}, Killed: map[string]int{}, Events: map[string]bool{}}
}

func (s *State) clone() *State {
	n := &State{F: s.F.clone(), Env: make(map[*types.Var]*Term, len(s.Env)), Killed: make(map[string]int, len(s.Killed)), Events: make(map[string]bool, len(s.Events))}
	for k, v := range s.Env {
		n.Env[k] = v
	}
	for k, v := range s.Killed {
		n.Killed[k] = v
	}
	for k, v := range s.Events {
		n.Events[k] = v
	}
	n.Trail = append([]string{}, s.Trail...)
	n.TrailL = append([]Lit{}, s.TrailL...)
	n.Log = append([]string{}, s.Log...)
	if s.ReadSeen != nil {
		n.ReadSeen = make(map[string]bool, len(s.ReadSeen))
		for k := range s.ReadSeen {
			n.ReadSeen[k] = true
		}
	}
	if s.Pending != nil {
		n.Pending = make(map[string]bool, len(s.Pending))
		for k := range s.Pending {
			n.Pending[k] = true
		}
	}
	if s.FieldVal != nil {
		n.FieldVal = make(map[string]*Term, len(s.FieldVal))
		for k, v := range s.FieldVal {
			n.FieldVal[k] = v
		}
	}
	if s.Sticky != nil {
		n.Sticky = make(map[string]Lit, len(s.Sticky))
		for k, v := range s.Sticky {
			n.Sticky[k] = v
		}
	}
	return n
}

func (s *State) key() string {
	var ks []string
	for v, t := range s.Env {
		ks = append(ks, fmt.Sprintf("%s@%d=%s", v.Name(), v.Pos(), t.S))
	}
	sort.Strings(ks)
	var kk []string
	for l, m := range s.Killed {
		kk = append(kk, fmt.Sprintf("%s:%d", l, m))
	}
	sort.Strings(kk)
	var ev []string
	for e := range s.Events {
		ev = append(ev, e)
	}
	sort.Strings(ev)
	return s.F.key() + " | " + strings.Join(ks, ",") + " | " + strings.Join(kk, ",") + " | " + strings.Join(ev, ",")
}

func dedupe(states []*State) []*State {
	if len(states) < 2 {
		return states
	}
	seen := map[string]bool{}
	var out []*State
	for _, s := range states {
		k := s.key()
		if !seen[k] {
			seen[k] = true
			out = append(out, s)
		}
	}
	return out
}

// ---- sites ----

type Snap struct {
	F      *Facts
	Killed map[string]int
	Events map[string]bool
	Recv   *Term
	Args   []*Term
	Val    *Term // written value (writes)
	Idx    *Term // index (slot stores / index sites)
	Trail  string
	TrailL []Lit
	Sticky map[string]Lit
}

type Site struct {
	Fn     *FuncInfo
	Node   ast.Node
	Kind   string // "call", "write", "index"
	Callee string // classification id, e.g. "fn:checkCommit", "cb:Broadcast", "if:Timer.Reset", "ext:time.Since"
	Target *FuncInfo
	Call   *ast.CallExpr
	Loc    string // written / indexed location
	Store  int    // kill kind for writes
	Snaps  []*Snap
	seen   map[string]bool
}

func (s *Site) String() string { return s.Kind + " " + s.Callee + s.Loc }

// ---- walker ----

type loopCtx struct {
	breaks []*State
	conts  []*State
}

type Walker struct {
	storeBase *Term
	A         *Analysis
	Fn        *FuncInfo
	info      *types.Info
	record    bool
	exits     []*State
	loops     []*loopCtx
	defers    []*ast.FuncLit
	depth     int
	// inline return collection (for predicate inlining)
	inl      *inlineCtx
	budget   int
	swBreaks []*State
	cnt      []*cntCtx
	// trackFields: substitute reads of scalar state fields by the value last written on this path
	trackFields bool
	lvalue      bool
	selfUpdated map[string]bool
	// inlineHelpers: single-caller private helpers are walked inline (used by exit-based rules so that extracting a
	// helper does not change what a rule sees)
	inlineHelpers bool
	// viaValue: the call being applied goes through a function value (callFuncVal)
	viaValue bool
	// rec: private site recorder (nil = the analysis-wide table)
	rec *Analysis
	// siteOwner: sites recorded while a higher-order helper or a function literal is walked inline belong to the
	// function whose walk reached them (their facts are relative to its entry)
	siteOwner *FuncInfo
}

type inlineCtx struct {
	rets []inlRet
}
type inlRet struct {
	st    *State
	expr  ast.Expr   // single result expression (may be nil)
	exprs []ast.Expr // all result expressions
}

type evalRes struct {
	st *State
	t  *Term
}

var freshCounter int

func fresh(prefix string) *Term {
	freshCounter++
	return mkTerm(KLocal, fmt.Sprintf("%s%d", prefix, freshCounter))
}

func (w *Walker) undecided(n ast.Node, msg string) {
	w.A.undecided(w.Fn, n, msg)
}

// walkFunc walks fn from the initial state; returns exit states.
func (a *Analysis) walkFunc(fn *FuncInfo, init *State, record bool) []*State {
	return a.walkFuncOpt(fn, init, record, false)
}

func (a *Analysis) walkFuncOpt(fn *FuncInfo, init *State, record, trackFields bool) []*State {
	return a.walkFuncFull(fn, init, record, trackFields, false, nil)
}

// walkFuncFull: inline=true walks single-caller helpers inline; rec (optional) receives the recorded sites.
func (a *Analysis) walkFuncFull(fn *FuncInfo, init *State, record, trackFields, inline bool, rec *Analysis) []*State {
	w := &Walker{A: a, Fn: fn, info: fn.Pkg.TypesInfo, record: record, budget: 200000, trackFields: trackFields, inlineHelpers: inline, rec: rec}
	st := init
	// bind receiver / params
	a.bindParams(fn, st)
	out := w.stmts(fn.Decl.Body.List, []*State{st})
	for _, s := range out {
		w.doExit(s, nil)
	}
	return w.exits
}

func (a *Analysis) bindParams(fn *FuncInfo, st *State) {
	if fn.RecvVar != nil {
		st.Env[fn.RecvVar] = a.recvRoot(fn)
	}
	for _, p := range fn.Params {
		if _, ok := st.Env[p]; ok {
			continue
		}
		// a parameter holding the node itself (a private method turned into a plain function): there is one instance
		if fn.Pkg.PkgPath == modPath {
			if _, isPtr := p.Type().(*types.Pointer); isPtr {
				switch namedName(p.Type()) {
				case "DBFT":
					st.Env[p] = rootDbft
					continue
				case "Context":
					st.Env[p] = rootCtx
					continue
				}
			}
		}
		// package timer: a plain function handed the timer works on the same object as its methods
		if fn.RecvVar == nil && fn.Pkg.PkgPath == modPath+"/timer" {
			if _, isPtr := p.Type().(*types.Pointer); isPtr && namedName(p.Type()) == "Timer" {
				st.Env[p] = rootRecv
				continue
			}
		}
		t := mkTerm(KParam, p.Name())
		t.Unsigned = isUnsigned(p.Type())
		if isPayloadLike(p.Type()) {
			t.NonNil = true
		}
		st.Env[p] = t
	}
}

var rootCtx = &Term{K: KOpaque, Name: "ROOT:ctx", S: "ROOT:ctx"}
var rootCfg = &Term{K: KOpaque, Name: "ROOT:cfg", S: "ROOT:cfg"}
var rootDbft = &Term{K: KOpaque, Name: "ROOT:dbft", S: "ROOT:dbft"}
var rootRecv = &Term{K: KOpaque, Name: "ROOT:recv", S: "ROOT:recv"}

func (a *Analysis) recvRoot(fn *FuncInfo) *Term {
	if fn.Pkg.PkgPath == modPath {
		switch fn.Recv {
		case "DBFT":
			return rootDbft
		case "Context":
			return rootCtx
		case "Config":
			return rootCfg
		case "cache":
			return mkTerm(KField, "dbft.cache")
		case "rtt":
			return mkTerm(KField, "ctx.rttEstimates")
		}
		if loc, ok := a.Prog.HolderType[fn.Recv]; ok {
			return mkTerm(KField, loc) // methods of a transparent holder struct work on its one instance
		}
	}
	return rootRecv
}

func isUnsigned(t types.Type) bool {
	if t == nil {
		return false
	}
	b, ok := t.Underlying().(*types.Basic)
	return ok && b.Info()&types.IsUnsigned != 0
}

func isPayloadLike(t types.Type) bool {
	n := namedName(t)
	return n == "ConsensusPayload" || n == "Transaction"
}

func (w *Walker) doExit(s *State, rets []*Term) {
	// deferred func literals run at exit
	sts := []*State{s}
	for i := len(w.defers) - 1; i >= 0; i-- {
		sts = w.stmts(w.defers[i].Body.List, sts)
	}
	for _, x := range sts {
		x.Ret = rets
		for l := range x.Pending {
			x.Killed[l] |= KillStable
		}
		w.exits = append(w.exits, x)
	}
}

func (w *Walker) stmts(list []ast.Stmt, in []*State) []*State {
	cur := in
	for _, s := range list {
		if len(cur) == 0 {
			return nil
		}
		cur = dedupe(w.stmt(s, cur))
	}
	return cur
}

func (w *Walker) stmt(s ast.Stmt, in []*State) []*State {
	w.budget--
	if w.budget < 0 {
		w.undecided(s, "path budget exhausted")
		return nil
	}
	switch s := s.(type) {
	case *ast.ExprStmt:
		var out []*State
		for _, st := range in {
			for _, r := range w.eval(s.X, st) {
				out = append(out, r.st)
			}
		}
		return out
	case *ast.BlockStmt:
		return w.stmts(s.List, in)
	case *ast.AssignStmt:
		return w.assign(s, in)
	case *ast.DeclStmt:
		gd, ok := s.Decl.(*ast.GenDecl)
		if !ok || gd.Tok != token.VAR {
			return in
		}
		cur := in
		for _, sp := range gd.Specs {
			vs := sp.(*ast.ValueSpec)
			var next []*State
			for _, st := range cur {
				sts := []*State{st}
				if len(vs.Values) == len(vs.Names) {
					for i, nm := range vs.Names {
						var n2 []*State
						for _, s2 := range sts {
							for _, r := range w.eval(vs.Values[i], s2) {
								w.bindLocal(nm, r.t, r.st)
								n2 = append(n2, r.st)
							}
						}
						sts = n2
					}
				} else if len(vs.Values) == 0 {
					for _, nm := range vs.Names {
						for _, s2 := range sts {
							w.bindLocal(nm, zeroTerm(w.info.TypeOf(nm)), s2)
						}
					}
				} else {
					for _, s2 := range sts {
						for _, nm := range vs.Names {
							w.bindLocal(nm, fresh("v"), s2)
						}
					}
				}
				next = append(next, sts...)
			}
			cur = next
		}
		return cur
	case *ast.IncDecStmt:
		var out []*State
		for _, st := range in {
			op := "+"
			if s.Tok == token.DEC {
				op = "-"
			}
			for _, r := range w.eval(s.X, st) {
				nv := mkTerm(KBin, op, r.t, constTerm("1"))
				if r.t.K == KCount || r.t.K == KOpaque && strings.HasPrefix(r.t.Name, "cnt:") {
					nv = r.t // counting handled by loop analysis
				}
				w.store(s.X, nv, r.st, s)
				out = append(out, r.st)
			}
		}
		return out
	case *ast.IfStmt:
		cur := in
		if s.Init != nil {
			cur = w.stmt(s.Init, cur)
		}
		var out []*State
		for _, st := range cur {
			ts, fs := w.cond(s.Cond, st)
			out = append(out, w.stmts(s.Body.List, ts)...)
			if s.Else != nil {
				out = append(out, w.stmt(s.Else, fs)...)
			} else {
				out = append(out, fs...)
			}
		}
		return out
	case *ast.ReturnStmt:
		for _, st := range in {
			if w.inl != nil && w.depth > 0 {
				var e ast.Expr
				if len(s.Results) == 1 {
					e = s.Results[0]
				}
				w.inl.rets = append(w.inl.rets, inlRet{st, e, s.Results})
				continue
			}
			sts := []evalRes{{st, nil}}
			var terms [][]*Term
			terms = append(terms, nil)
			cur := []struct {
				st *State
				ts []*Term
			}{{st, nil}}
			for _, re := range s.Results {
				var next []struct {
					st *State
					ts []*Term
				}
				for _, c := range cur {
					// boolean expressions: split by condition so that results are constants
					if isBoolExpr(w.info, re) {
						tst, fst := w.cond(re, c.st)
						for _, x := range tst {
							next = append(next, struct {
								st *State
								ts []*Term
							}{x, append(append([]*Term{}, c.ts...), constTerm("true"))})
						}
						for _, x := range fst {
							next = append(next, struct {
								st *State
								ts []*Term
							}{x, append(append([]*Term{}, c.ts...), constTerm("false"))})
						}
						continue
					}
					for _, r := range w.eval(re, c.st) {
						next = append(next, struct {
							st *State
							ts []*Term
						}{r.st, append(append([]*Term{}, c.ts...), r.t)})
					}
				}
				cur = next
			}
			_ = sts
			_ = terms
			for _, c := range cur {
				if len(s.Results) == 0 {
					// named results
					c.ts = w.namedResults(c.st)
				}
				w.doExit(c.st, c.ts)
			}
		}
		return nil
	case *ast.ForStmt:
		return w.loop(s, in)
	case *ast.RangeStmt:
		return w.loop(s, in)
	case *ast.SwitchStmt:
		return w.switchStmt(s, in)
	case *ast.TypeSwitchStmt:
		return w.typeSwitch(s, in)
	case *ast.BranchStmt:
		if len(w.loops) > 0 && s.Label == nil {
			lc := w.loops[len(w.loops)-1]
			switch s.Tok {
			case token.BREAK:
				lc.breaks = append(lc.breaks, in...)
				return nil
			case token.CONTINUE:
				lc.conts = append(lc.conts, in...)
				return nil
			}
		}
		if s.Tok == token.BREAK || s.Tok == token.FALLTHROUGH {
			// break inside switch: handled by switchStmt via marker
			if s.Tok == token.BREAK {
				w.swBreaks = append(w.swBreaks, in...)
				return nil
			}
		}
		w.undecided(s, "unsupported branch statement")
		return in
	case *ast.DeferStmt:
		if fl, ok := s.Call.Fun.(*ast.FuncLit); ok && len(s.Call.Args) == 0 {
			w.defers = append(w.defers, fl)
			return in
		}
		// defer of a plain call: evaluate at exit is approximated by evaluating now for effects
		if w.Fn.Pkg.PkgPath == modPath {
			w.undecided(s, "defer of a non-literal in package dbft")
		}
		var out []*State
		for _, st := range in {
			for _, r := range w.eval(s.Call, st) {
				out = append(out, r.st)
			}
		}
		return out
	case *ast.GoStmt:
		if w.Fn.Pkg.PkgPath == modPath {
			w.undecided(s, "go statement in package dbft")
		}
		return in
	case *ast.EmptyStmt:
		return in
	case *ast.LabeledStmt:
		return w.stmt(s.Stmt, in)
	case *ast.SendStmt:
		var out []*State
		for _, st := range in {
			for _, r := range w.eval(s.Chan, st) {
				for _, r2 := range w.eval(s.Value, r.st) {
					w.siteExt(s, "chan:send", r2.st, r.t, []*Term{r2.t})
					out = append(out, r2.st)
				}
			}
		}
		return out
	case *ast.SelectStmt:
		// each clause is an alternative
		var out []*State
		for _, cl := range s.Body.List {
			cc := cl.(*ast.CommClause)
			cur := cloneAll(in)
			if cc.Comm != nil {
				cur = w.stmt(cc.Comm, cur)
			}
			out = append(out, w.stmts(cc.Body, cur)...)
		}
		return out
	}
	w.undecided(s, fmt.Sprintf("unsupported statement %T", s))
	return in
}

func cloneAll(in []*State) []*State {
	out := make([]*State, len(in))
	for i, s := range in {
		out[i] = s.clone()
	}
	return out
}

func (w *Walker) namedResults(st *State) []*Term {
	sig := w.Fn.Obj.Type().(*types.Signature)
	var ts []*Term
	for i := 0; i < sig.Results().Len(); i++ {
		v := sig.Results().At(i)
		if t, ok := st.Env[v]; ok {
			ts = append(ts, t)
		} else {
			ts = append(ts, fresh("res"))
		}
	}
	return ts
}

func isBoolExpr(info *types.Info, e ast.Expr) bool {
	t := info.TypeOf(e)
	if t == nil {
		return false
	}
	b, ok := t.Underlying().(*types.Basic)
	return ok && b.Info()&types.IsBoolean != 0
}

func zeroTerm(t types.Type) *Term {
	if t == nil {
		return fresh("z")
	}
	switch u := t.Underlying().(type) {
	case *types.Basic:
		switch {
		case u.Info()&types.IsBoolean != 0:
			return constTerm("false")
		case u.Info()&types.IsNumeric != 0:
			z := constTerm("0")
			return z
		case u.Info()&types.IsString != 0:
			return constTerm(`""`)
		}
	case *types.Pointer, *types.Slice, *types.Map, *types.Chan, *types.Signature, *types.Interface:
		return nilTerm
	case *types.Struct:
		if u.NumFields() > 0 && u.NumFields() <= 8 {
			z := fresh("lit")
			for i := 0; i < u.NumFields(); i++ {
				ft := u.Field(i).Type()
				if _, nested := ft.Underlying().(*types.Struct); nested {
					z.Args = append(z.Args, fresh("z"))
				} else {
					z.Args = append(z.Args, zeroTerm(ft))
				}
				z.Fields = append(z.Fields, u.Field(i).Name())
			}
			return z
		}
	}
	return fresh("z")
}

func (w *Walker) bindLocal(id *ast.Ident, t *Term, st *State) {
	if id.Name == "_" {
		return
	}
	obj := w.info.Defs[id]
	if obj == nil {
		obj = w.info.Uses[id]
	}
	if v, ok := obj.(*types.Var); ok {
		st.Env[v] = t
	}
}

// ---- assignment ----

func (w *Walker) assign(s *ast.AssignStmt, in []*State) []*State {
	var out []*State
	in = w.splitOwnSender(s, in)
	for _, st := range in {
		if len(s.Rhs) == 1 && len(s.Lhs) > 1 {
			// tuple assignment from call / map index / type assert
			for _, r := range w.evalTuple(s.Rhs[0], st, len(s.Lhs)) {
				for i, lh := range s.Lhs {
					w.storeOrBind(lh, r.ts[i], r.st, s, s.Tok == token.DEFINE)
				}
				out = append(out, r.st)
			}
			continue
		}
		cur := []struct {
			st *State
			ts []*Term
		}{{st, nil}}
		for i, rh := range s.Rhs {
			var next []struct {
				st *State
				ts []*Term
			}
			for _, c := range cur {
				if s.Tok != token.ASSIGN && s.Tok != token.DEFINE {
					// op-assign: x op= e
					for _, l := range w.eval(s.Lhs[i], c.st) {
						for _, r := range w.eval(rh, l.st) {
							op := strings.TrimSuffix(s.Tok.String(), "=")
							nt := mkTerm(KBin, op, l.t, r.t)
							next = append(next, struct {
								st *State
								ts []*Term
							}{r.st, append(append([]*Term{}, c.ts...), nt)})
						}
					}
					continue
				}
				for _, r := range w.eval(rh, c.st) {
					next = append(next, struct {
						st *State
						ts []*Term
					}{r.st, append(append([]*Term{}, c.ts...), r.t)})
				}
			}
			cur = next
		}
		for _, c := range cur {
			for i, lh := range s.Lhs {
				w.storeOrBind(lh, c.ts[i], c.st, s, s.Tok == token.DEFINE)
			}
			out = append(out, c.st)
		}
	}
	return out
}

type tupleRes struct {
	st *State
	ts []*Term
}

func (w *Walker) evalTuple(e ast.Expr, st *State, n int) []tupleRes {
	e = ast.Unparen(e)
	switch x := e.(type) {
	case *ast.CallExpr:
		var out []tupleRes
		for _, r := range w.evalCall(x, st, n) {
			ts := r.ts
			for len(ts) < n {
				ts = append(ts, fresh("t"))
			}
			out = append(out, tupleRes{r.st, ts})
		}
		return out
	case *ast.IndexExpr: // v, ok := m[k]
		var out []tupleRes
		if tr, ok := w.tableLookup(x, st); ok {
			for _, r := range tr {
				okT := constTerm("false")
				if r.found {
					okT = constTerm("true")
				}
				out = append(out, tupleRes{r.st, []*Term{r.val, okT}})
			}
			return out
		}
		for _, r := range w.eval(x, st) {
			out = append(out, tupleRes{r.st, []*Term{r.t, fresh("ok")}})
		}
		return out
	case *ast.TypeAssertExpr:
		var out []tupleRes
		for _, r := range w.eval(x.X, st) {
			out = append(out, tupleRes{r.st, []*Term{r.t, fresh("ok")}})
		}
		return out
	case *ast.UnaryExpr: // v, ok := <-ch
		var out []tupleRes
		for _, r := range w.eval(x.X, st) {
			out = append(out, tupleRes{r.st, []*Term{fresh("rcv"), fresh("ok")}})
		}
		return out
	}
	ts := make([]*Term, n)
	for i := range ts {
		ts[i] = fresh("t")
	}
	return []tupleRes{{st, ts}}
}

// localFieldVar: x.f where x is a local variable of struct type (not a pointer, not the receiver or a parameter holding
// shared state) is a variable of its own; the synthetic variable standing for it is returned (nil otherwise).
func (w *Walker) localFieldVar(e ast.Expr) *types.Var {
	sel, ok := ast.Unparen(e).(*ast.SelectorExpr)
	if !ok {
		return nil
	}
	id, ok := ast.Unparen(sel.X).(*ast.Ident)
	if !ok {
		return nil
	}
	base, ok := w.info.Uses[id].(*types.Var)
	if !ok || base.IsField() || base == w.Fn.RecvVar || base.Parent() == nil || base.Pkg() == nil || base.Parent() == base.Pkg().Scope() {
		return nil
	}
	for _, p := range w.Fn.Params {
		if p == base {
			return nil
		}
	}
	if _, isStruct := base.Type().Underlying().(*types.Struct); !isStruct {
		return nil
	}
	s := w.info.Selections[sel]
	if s == nil || s.Kind() != types.FieldVal || len(s.Index()) != 1 {
		return nil
	}
	fv := s.Obj().(*types.Var)
	if w.A.fieldVars == nil {
		w.A.fieldVars = map[[2]*types.Var]*types.Var{}
		w.A.fieldVarsOf = map[*types.Var][]*types.Var{}
		w.A.fieldVarField = map[*types.Var]*types.Var{}
	}
	k := [2]*types.Var{base, fv.Origin()}
	if v, ok := w.A.fieldVars[k]; ok {
		return v
	}
	v := types.NewVar(sel.Pos(), base.Pkg(), base.Name()+"."+fv.Name(), fv.Type())
	w.A.fieldVars[k] = v
	w.A.fieldVarsOf[base] = append(w.A.fieldVarsOf[base], v)
	w.A.fieldVarField[v] = fv.Origin()
	return v
}

func (w *Walker) storeOrBind(lh ast.Expr, t *Term, st *State, at ast.Node, define bool) {
	lh = ast.Unparen(lh)
	if fv := w.localFieldVar(lh); fv != nil {
		if len(w.cnt) > 0 {
			kind := "other"
			switch x := at.(type) {
			case *ast.IncDecStmt:
				if x.Tok == token.INC {
					kind = "inc"
				}
			case *ast.AssignStmt:
				if x.Tok == token.ADD_ASSIGN && len(x.Rhs) == 1 {
					if tv, ok := w.info.Types[x.Rhs[0]]; ok && tv.Value != nil && tv.Value.ExactString() == "1" {
						kind = "inc"
					}
				} else if x.Tok == token.ASSIGN && t != nil && t.K == KConst && t.S == "true" {
					kind = "settrue"
				}
			}
			w.noteCounter(fv, kind, st)
		}
		st.Env[fv] = t
		return
	}
	if id, ok := lh.(*ast.Ident); ok {
		if id.Name == "_" {
			return
		}
		obj := w.info.Defs[id]
		if obj == nil {
			obj = w.info.Uses[id]
		}
		if v, ok := obj.(*types.Var); ok && !v.IsField() {
			if v.Parent() != nil && v.Parent() == v.Pkg().Scope() {
				// package-level variable
				w.write("pkgvar."+v.Name(), KillAny, nil, t, st, at)
				return
			}
			if len(w.cnt) > 0 {
				kind := "other"
				switch x := at.(type) {
				case *ast.IncDecStmt:
					if x.Tok == token.INC {
						kind = "inc"
					}
				case *ast.AssignStmt:
					if x.Tok == token.ADD_ASSIGN && len(x.Rhs) == 1 {
						if tv, ok := w.info.Types[x.Rhs[0]]; ok && tv.Value != nil && tv.Value.ExactString() == "1" {
							kind = "inc"
						}
					} else if x.Tok == token.ASSIGN && t != nil && t.K == KConst && t.S == "true" {
						kind = "settrue"
					}
				}
				w.noteCounter(v, kind, st)
			}
			st.Env[v] = t
			return
		}
	}
	w.store(lh, t, st, at)
}

// store handles a write through a non-local lvalue.
func (w *Walker) store(lh ast.Expr, val *Term, st *State, at ast.Node) {
	lh = ast.Unparen(lh)
	if w.localFieldVar(lh) != nil {
		w.storeOrBind(lh, val, st, at, false)
		return
	}
	switch x := lh.(type) {
	case *ast.Ident:
		w.storeOrBind(lh, val, st, at, false)
	case *ast.SelectorExpr:
		w.lvalue = true
		rs := w.eval(x, st) // no calls expected in lvalues; take first
		w.lvalue = false
		if len(rs) == 0 {
			return
		}
		t := rs[0].t
		if t.K == KField {
			loc := locOf(t.Name)
			kind := KillAny
			if t.Name != loc && strings.Count(t.Name, ".") == 2 {
				// a field of a struct-valued field ("t.period.d = x"): the struct as a whole changes (its value is no
				// longer known), the named part gets the value
				saved := map[string]*Term{}
				for k, v := range st.FieldVal {
					if strings.HasPrefix(k, loc+".") && k != t.Name && !v.readsLoc(loc) {
						saved[k] = v // the struct's other parts keep what they were given
					}
				}
				w.write(loc, kind, nil, nil, st, at)
				for k, v := range saved {
					st.FieldVal[k] = v
				}
				w.write(t.Name, kind, nil, val, st, at)
				w.afterScalarWrite(t, val, st)
				return
			}
			w.write(loc, kind, nil, val, st, at)
			// record scalar facts
			if t.Name == loc {
				w.afterScalarWrite(t, val, st)
			}
			return
		}
		// write through alias: kill everything the base reads
		for _, l := range t.Reads {
			w.write(l, KillAny, nil, val, st, at)
		}
	case *ast.IndexExpr:
		w.lvalue = true
		bs := w.eval(x.X, st)
		w.lvalue = false
		if len(bs) == 0 {
			return
		}
		base := bs[0].t
		is := w.eval(x.Index, st)
		var idx *Term
		if len(is) > 0 {
			idx = is[0].t
		}
		if base.K == KField && base.Name == locOf(base.Name) {
			kind := w.storeKind(base, idx, val, st)
			if kind == KillNil && base.Name == "ctx.PreparationPayloads" && idx != nil && w.knownResponse(base, idx, st) {
				kind = KillNilResp
			}
			w.indexSite(x, base, idx, st)
			w.write(base.Name, kind, idx, val, st, at)
			return
		}
		w.storeBase = base // which part of the location is stored into (a bucket of the message cache, say)
		for _, l := range base.Reads {
			w.write(l, KillAny, idx, val, st, at)
		}
		w.storeBase = nil
	case *ast.StarExpr:
		rs := w.eval(x.X, st)
		if len(rs) > 0 {
			for _, l := range rs[0].t.Reads {
				w.write(l, KillAny, nil, val, st, at)
			}
		}
	default:
		w.undecided(lh, "unsupported lvalue")
	}
}

func locOf(name string) string {
	parts := strings.SplitN(name, ".", 3)
	if len(parts) >= 2 {
		return parts[0] + "." + parts[1]
	}
	return name
}

func (w *Walker) storeKind(base, idx, val *Term, st *State) int {
	if val == nil {
		return KillAny
	}
	if val.K == KNil {
		return KillNil
	}
	nn := val.NonNil
	if !nn {
		if v, ok := st.F.value(mkAtom("nn", val, nil)); ok && v {
			nn = true
		}
	}
	if !nn {
		return KillAny
	}
	if idx == nil {
		return KillNNOther
	}
	switch idxClass(idx, st) {
	case "own":
		return KillNNOwn
	case "sender":
		return KillNNSender
	case "primary":
		return KillNNPrimary
	}
	return KillNNOther
}

// idxClass classifies an index term.
func idxClass(idx *Term, st *State) string {
	if idx.S == "ctx.MyIndex" {
		return "own"
	}
	if idx.S == "ctx.PrimaryIndex" {
		return "primary"
	}
	if idx.K == KCall && strings.HasSuffix(idx.Name, ".ValidatorIndex") && len(idx.Args) == 1 && (idx.Args[0].K == KParam) {
		return "sender"
	}
	return "other"
}

func (w *Walker) afterScalarWrite(field, val *Term, st *State) {
	if val == nil {
		return
	}
	if val.K == KConst && (val.S == "true" || val.S == "false") {
		st.F.add(Lit{mkAtom("b", field, nil), val.S == "true"})
		return
	}
	if val.K == KNil {
		st.F.add(Lit{mkAtom("nn", field, nil), false})
		return
	}
	if val.K == KConst || val.K == KParam {
		if !val.readsLoc(locOf(field.Name)) {
			st.F.add(Lit{mkAtom("eq", field, val), true})
		}
	}
	if val.NonNil {
		st.F.add(Lit{mkAtom("nn", field, nil), true})
	}
}

// write applies a write to a location: site record, kills, fact transforms.
func (w *Walker) write(loc string, kind int, idx, val *Term, st *State, at ast.Node) {
	if subs, ok := w.A.Prog.HolderSubs[loc]; ok && idx == nil {
		// the whole holder struct is replaced: each of its fields is written (with its component of a literal value)
		for i, sf := range subs {
			var cv *Term
			if val != nil && val.K == KLocal && len(val.Fields) == 0 && len(val.Args) == 0 {
				cv = zeroTerm(sf.Type()) // T{}
			} else if val != nil && len(val.Fields) == len(val.Args) && len(val.Args) > 0 {
				cv = zeroTerm(sf.Type())
				for j, fnm := range val.Fields {
					if fnm == sf.Name() {
						cv = val.Args[j]
					}
				}
			} else if val != nil && len(val.Args) == len(subs) && len(val.Fields) == 0 {
				cv = val.Args[i]
			}
			name := w.A.Prog.fieldRole(sf, sf.Name())
			w.write("ctx."+name, KillAny, nil, cv, st, at)
			ft := mkTerm(KField, "ctx."+name)
			w.afterScalarWrite(ft, cv, st)
		}
		return
	}
	if isStableLoc(loc) && w.Fn.Pkg.PkgPath == modPath {
		kind = KillStable
	}
	if w.record {
		site := w.recA().siteFor(w.sfn(), at, "write", "", loc)
		if kind == KillNilResp {
			site.Store |= KillNil
		} else {
			site.Store |= kind
		}
		w.A.snap(site, st, w.storeBase, nil, val, idx)
	}
	st.logEv("write:" + loc)
	applyKill(st, loc, kind, idx)
	if w.trackFields && idx == nil && val != nil {
		if st.FieldVal == nil {
			st.FieldVal = map[string]*Term{}
		}
		// a self-referential update (x = x + d) is kept relative to the entry value, once
		if !val.readsLoc(loc) || !w.selfUpdated[loc] {
			if val.readsLoc(loc) {
				if w.selfUpdated == nil {
					w.selfUpdated = map[string]bool{}
				}
				w.selfUpdated[loc] = true
			}
			st.FieldVal[loc] = val
		}
	}
	if idx != nil && kind&(KillNNOwn|KillNNSender|KillNNOther|KillNNPrimary) != 0 && kind&KillAny == 0 {
		st.F.add(Lit{mkAtom("nn", mkTerm(KIndex, "", mkTerm(KField, loc), idx), nil), true})
	}
	if idx != nil && (kind == KillNil || kind == KillNilResp) {
		st.F.add(Lit{mkAtom("nn", mkTerm(KIndex, "", mkTerm(KField, loc), idx), nil), false})
	}
	// a struct-valued field assigned a literal as a whole ("t.e = epoch{height: h, view: v}"): each of its fields is
	// written with its component (facts reading the struct were dropped by the write above)
	if idx == nil && val != nil && val.ST != nil && strings.Count(loc, ".") < 3 {
		for i := 0; i < val.ST.NumFields(); i++ {
			sf := val.ST.Field(i)
			cv := zeroTerm(sf.Type())
			switch {
			case len(val.Fields) == len(val.Args) && len(val.Args) > 0:
				for j, fnm := range val.Fields {
					if fnm == sf.Name() {
						cv = val.Args[j]
					}
				}
			case len(val.Args) == val.ST.NumFields() && len(val.Fields) == 0:
				cv = val.Args[i]
			}
			sub := loc + "." + sf.Name()
			w.write(sub, KillAny, nil, cv, st, at)
			ft := mkTerm(KField, sub)
			ft.Unsigned = isUnsigned(sf.Type())
			w.afterScalarWrite(ft, cv, st)
		}
	}
}

// applyKill transforms the state for a write of the given kind to loc.
func (s *State) logEv(e string) {
	if len(s.Log) < 400 {
		s.Log = append(s.Log, e)
	}
}

func applyKill(st *State, loc string, kind int, idx *Term) {
	if kind&KillStable != 0 && kind&^KillStable != 0 {
		kind = KillAny
	}
	if kind&KillStable != 0 {
		// re-derivation from the validator list: the same value unless the list itself was replaced on this path (A1)
		if st.Killed["ctx.Validators"] == 0 {
			st.Killed[loc] |= 0
			if st.Pending == nil {
				st.Pending = map[string]bool{}
			}
			st.Pending[loc] = true
			return
		}
		kind = KillAny
	}
	if loc == "ctx.Validators" && st.Pending != nil {
		// the validator list changes after a stable location was written on this path: those writes were real kills
		for l := range st.Pending {
			delete(st.Pending, l)
			applyKill(st, l, KillAny, nil)
		}
	}
	if idx == nil && kind&(KillAny|KillStable) == 0 && kind&(kind-1) != 0 {
		// several kinds of slot stores (from a callee's summary): a fact survives iff it survives each kind
		for bit := 1; bit <= kind; bit <<= 1 {
			if kind&bit != 0 {
				applyKill(st, loc, bit, nil)
			}
		}
		return
	}
	st.Killed[loc] |= kind
	if loc == "ctx.ViewNumber" {
		st.logEv("ev:epoch-write")
	}
	if st.FieldVal != nil {
		delete(st.FieldVal, loc)
		for k, v := range st.FieldVal {
			if v.readsLoc(loc) || strings.HasPrefix(k, loc+".") {
				delete(st.FieldVal, k)
			}
		}
	}
	if idx == nil && kind == KillNNOwn {
		idx = mkTerm(KField, "ctx.MyIndex")
	}
	if idx == nil && kind == KillNNPrimary {
		idx = mkTerm(KField, "ctx.PrimaryIndex")
	}
	// quorum lower bounds !(count{T|phi} < K) survive a non-nil store at idx when the replaced entry did not satisfy phi
	keepCount := map[string]bool{}
	if kind&(KillAny|KillNilAny) == 0 && idx != nil {
		for k, v := range st.F.m {
			at := st.F.atoms[k]
			if v || at.Op != "lt" || at.A.K != KCount || at.A.Table != loc || len(at.A.Phi) == 0 {
				continue
			}
			old := mkTerm(KIndex, "", mkTerm(KField, loc), idx)
			sub := map[string]*Term{at.A.ElemS: old}
			for _, pl := range at.A.Phi {
				inst := substAtomByS(pl.A, sub)
				if val, ok := st.F.value(inst); ok && val != pl.Pos {
					keepCount[k] = true
					break
				}
			}
		}
	}
	isSlot := func(a *Atom) bool {
		return a.Op == "nn" && a.A.K == KIndex && a.A.Args[0].K == KField && a.A.Args[0].Name == loc && !a.A.Args[1].readsLoc(loc)
	}
	if loc == "ctx.blockProcessed" {
		if v, ok := st.F.m["ctx.blockProcessed"]; ok {
			if st.Sticky == nil {
				st.Sticky = map[string]Lit{}
			}
			l := Lit{st.F.atoms["ctx.blockProcessed"], v}
			if _, had := st.Sticky["ctx.blockProcessed"]; !had {
				st.Sticky["ctx.blockProcessed"] = l
			}
		}
	}
	st.F.dropIf(func(a *Atom, val bool) bool {
		if !a.readsLoc(loc) {
			return false
		}
		if keepCount[a.S] {
			return false
		}
		// upper bounds (count < K) survive nil-stores
		if (kind == KillNil || kind == KillNilResp) && val && a.Op == "lt" && a.A.K == KCount && a.A.Table == loc {
			return false
		}
		if kind&KillAny != 0 || !isSlot(a) {
			return true
		}
		if kind == KillNil {
			return val // keep "== nil" facts
		}
		if kind == KillNilResp {
			if val && idxClass(a.A.Args[1], st) == "primary" {
				return false // the proposal slot does not hold a response
			}
			return val
		}
		// non-nil stores only
		if val {
			return false // "!= nil" facts survive
		}
		// "== nil" fact about slot j survives if j cannot alias the stored index
		j := a.A.Args[1]
		jc := idxClass(j, st)
		mask := kind
		// (no blanket "a sender's slot is not the own slot": a node that lost its state receives its own payloads back
		// from recovery messages; the generic test below keeps the fact when the path knows the indices differ)
		if jc == "sender" && mask&^(KillNNOwn) == 0 {
			return false
		}
		if idx != nil {
			if v, ok := st.F.value(mkAtom("eq", j, idx)); ok && !v {
				return false
			}
		}
		// a callee's store into a sender's slot (no index term at hand): the own slot is another one when the path knows
		// that every sender it has met is not this node (the same test the demand engine applies)
		if idx == nil && kind == KillNNSender && jc == "own" && senderIsNotOwn(st.F) {
			return false
		}
		return true
	})
	// env values reading the location become opaque
	for v, t := range st.Env {
		if kind&KillAny == 0 && t.K == KField && t.Name == loc {
			// a local that IS the table (x := d.Table): element stores go through the same backing array, the local
			// keeps denoting the table; only a re-assignment of the field (KillAny) separates the two
			continue
		}
		if t.readsLoc(loc) {
			if t.K == KCount && t.Table == loc {
				keep := false
				for k := range keepCount {
					if strings.HasPrefix(k, t.S+"<") {
						keep = true
					}
				}
				if keep {
					continue
				}
			}
			st.Env[v] = fresh("stale:" + loc + ":")
		}
	}
}

// substAtomByS substitutes terms by canonical string (used to instantiate loop-element conditions).
func substAtomByS(a *Atom, sub map[string]*Term) *Atom {
	na := substTermByS(a.A, sub)
	var nb *Term
	if a.B != nil {
		nb = substTermByS(a.B, sub)
	}
	return mkAtom(a.Op, na, nb)
}

func substTermByS(t *Term, sub map[string]*Term) *Term {
	if t == nil {
		return nil
	}
	if r, ok := sub[t.S]; ok {
		return r
	}
	if len(t.Args) == 0 {
		return t
	}
	nargs := make([]*Term, len(t.Args))
	changed := false
	for i, x := range t.Args {
		nargs[i] = substTermByS(x, sub)
		if nargs[i] != x {
			changed = true
		}
	}
	if !changed {
		return t
	}
	nt := mkTerm(t.K, t.Name, nargs...)
	nt.Unsigned = t.Unsigned
	nt.NonNil = t.NonNil
	return nt
}

// ---- conditions ----

func (w *Walker) cond(e ast.Expr, st *State) (ts, fs []*State) {
	e = ast.Unparen(e)
	switch x := e.(type) {
	case *ast.UnaryExpr:
		if x.Op == token.NOT {
			t, f := w.cond(x.X, st)
			return f, t
		}
	case *ast.BinaryExpr:
		switch x.Op {
		case token.LAND:
			ta, fa := w.cond(x.X, st)
			for _, s := range ta {
				tb, fb := w.cond(x.Y, s)
				ts = append(ts, tb...)
				fs = append(fs, fb...)
			}
			fs = append(fs, fa...)
			return dedupe(ts), dedupe(fs)
		case token.LOR:
			ta, fa := w.cond(x.X, st)
			ts = append(ts, ta...)
			for _, s := range fa {
				tb, fb := w.cond(x.Y, s)
				ts = append(ts, tb...)
				fs = append(fs, fb...)
			}
			return dedupe(ts), dedupe(fs)
		case token.EQL, token.NEQ, token.LSS, token.GTR, token.LEQ, token.GEQ:
			for _, l := range w.eval(x.X, st) {
				for _, r := range w.eval(x.Y, l.st) {
					lit, ok := cmpLit(x.Op, l.t, r.t, isBoolExpr(w.info, x.X))
					if !ok {
						lit = Lit{mkAtom("b", fresh("cmp"), nil), true}
					}
					t2, f2 := split(r.st, lit)
					ts = append(ts, t2...)
					fs = append(fs, f2...)
				}
			}
			return ts, fs
		}
	case *ast.CallExpr:
		// inlineable pure predicate?
		if fn := w.staticCallee(x); fn != nil && w.A.isPurePredicate(fn) && w.depth < 6 {
			return w.inlinePredicate(x, fn, st)
		}
		// the same through a method value / function value of the node's own predicates
		if fv := w.funcValueOf(ast.Unparen(x.Fun), st); fv != nil && fv.Fn != nil && w.A.isPurePredicate(fv.Fn) && w.depth < 8 &&
			(fv.Fn.Recv == "DBFT" || fv.Fn.Recv == "Context" || fv.Fn.RecvVar == nil) {
			return w.inlinePredicate(x, fv.Fn, st)
		}
	}
	// generic boolean value
	for _, r := range w.eval(e, st) {
		t := r.t
		if t.K == KConst && t.S == "true" {
			ts = append(ts, r.st)
			continue
		}
		if t.K == KConst && t.S == "false" {
			fs = append(fs, r.st)
			continue
		}
		if t.BLit != nil {
			t2, f2 := split(r.st, *t.BLit)
			ts = append(ts, t2...)
			fs = append(fs, f2...)
			continue
		}
		t2, f2 := split(r.st, Lit{mkAtom("b", t, nil), true})
		ts = append(ts, t2...)
		fs = append(fs, f2...)
	}
	return ts, fs
}

// lazyBool: e is a comparison of two simple operands (names, field selections, constants, nil) of boolean type: the term
// that stands for it without deciding it, nil if e is anything else.
func (w *Walker) lazyBool(e ast.Expr, st *State) *Term {
	be, ok := ast.Unparen(e).(*ast.BinaryExpr)
	if !ok {
		return nil
	}
	switch be.Op {
	case token.EQL, token.NEQ, token.LSS, token.GTR, token.LEQ, token.GEQ:
	default:
		return nil
	}
	var simple func(x ast.Expr) bool
	simple = func(x ast.Expr) bool {
		switch y := ast.Unparen(x).(type) {
		case *ast.Ident, *ast.BasicLit:
			return true
		case *ast.SelectorExpr:
			return simple(y.X)
		}
		return false
	}
	if !simple(be.X) || !simple(be.Y) || isBoolExpr(w.info, be.X) {
		return nil
	}
	ls := w.eval(be.X, st)
	if len(ls) != 1 || ls[0].st != st {
		return nil
	}
	rs := w.eval(be.Y, st)
	if len(rs) != 1 || rs[0].st != st {
		return nil
	}
	// only over values that cannot change between the place where the comparison is written and the place where it is
	// tested (parameters, configuration): a comparison of mutable state is decided where it stands
	for _, o := range []*Term{ls[0].t, rs[0].t} {
		for _, rd := range o.Reads {
			if !strings.HasPrefix(rd, "cfg.") {
				return nil
			}
		}
	}
	lit, ok := cmpLit(be.Op, ls[0].t, rs[0].t, false)
	if !ok {
		return nil
	}
	t := fresh("lazybool")
	t.BLit = &lit
	return t
}

func split(st *State, lit Lit) (ts, fs []*State) {
	if v, ok := st.F.value(lit.A); ok {
		if v == lit.Pos {
			return []*State{st}, nil
		}
		return nil, []*State{st}
	}
	t := st.clone()
	if t.F.add(lit) {
		t.Trail = append(t.Trail, lit.String())
		t.TrailL = append(t.TrailL, lit)
		ts = []*State{t}
	}
	f := st
	if f.F.add(lit.Neg()) {
		f.Trail = append(f.Trail, lit.Neg().String())
		f.TrailL = append(f.TrailL, lit.Neg())
		fs = []*State{f}
	}
	return
}

// cmpLit builds the canonical literal for a comparison.
func cmpLit(op token.Token, a, b *Term, boolCmp bool) (Lit, bool) {
	// counts: normalise to count < affine
	if a.K == KCount || b.K == KCount {
		return countLit(op, a, b)
	}
	switch op {
	case token.EQL, token.NEQ:
		pos := op == token.EQL
		if b.K == KNil {
			return Lit{mkAtom("nn", a, nil), !pos}, true
		}
		if a.K == KNil {
			return Lit{mkAtom("nn", b, nil), !pos}, true
		}
		if boolCmp {
			if b.K == KConst && (b.S == "true" || b.S == "false") {
				return Lit{mkAtom("b", a, nil), (b.S == "true") == pos}, true
			}
			if a.K == KConst && (a.S == "true" || a.S == "false") {
				return Lit{mkAtom("b", b, nil), (a.S == "true") == pos}, true
			}
			// (x == nil) != (y == nil) etc: opaque
			return Lit{}, false
		}
		return Lit{mkAtom("eq", a, b), pos}, true
	case token.LSS:
		return Lit{mkAtom("lt", a, b), true}, true
	case token.GTR:
		return Lit{mkAtom("lt", b, a), true}, true
	case token.LEQ:
		return Lit{mkAtom("lt", b, a), false}, true
	case token.GEQ:
		return Lit{mkAtom("lt", a, b), false}, true
	}
	return Lit{}, false
}

// countLit: comparisons between a quorum counter and a threshold, normalised to
// "count < K" with K in affine normal form.
func countLit(op token.Token, a, b *Term) (Lit, bool) {
	swap := false
	if a.K != KCount {
		a, b = b, a
		swap = true
	}
	if b.K == KCount {
		return Lit{}, false
	}
	if swap {
		switch op {
		case token.LSS:
			op = token.GTR
		case token.GTR:
			op = token.LSS
		case token.LEQ:
			op = token.GEQ
		case token.GEQ:
			op = token.LEQ
		}
	}
	k := arithNF(b)
	mk := func(k *Lin) *Atom {
		kt := mkTerm(KConst, k.String())
		kt.Reads = b.Reads
		at := mkAtom("lt", a, kt)
		return at
	}
	switch op {
	case token.LSS: // count < K
		return Lit{mk(k), true}, true
	case token.GEQ: // count >= K
		return Lit{mk(k), false}, true
	case token.LEQ: // count <= K  ≡ count < K+1
		return Lit{mk(k.add(linConst(1), 1)), true}, true
	case token.GTR: // count > K ≡ !(count < K+1)
		return Lit{mk(k.add(linConst(1), 1)), false}, true
	}
	return Lit{}, false
}

// inlinePredicate walks a pure predicate body in the caller's state.
func (w *Walker) inlinePredicate(call *ast.CallExpr, fn *FuncInfo, st *State) (ts, fs []*State) {
	// evaluate receiver and args
	if w.record {
		recvs, args, sts := w.evalCallOperands(call, st.clone())
		for i, s := range sts {
			site := w.recA().siteFor(w.sfn(), call, "call", "fn:"+fn.Name, "")
			site.Target = fn
			site.Call = call
			w.A.snap(site, s, recvs[i], args[i], nil, nil)
		}
	}
	binds := w.bindCall(call, fn, st)
	for _, b := range binds {
		sub := &Walker{A: w.A, Fn: fn, info: fn.Pkg.TypesInfo, record: false, depth: w.depth + 1, inl: &inlineCtx{}, budget: 20000}
		out := sub.stmts(fn.Decl.Body.List, []*State{b})
		_ = out // fallthrough without return cannot happen for a bool function
		for _, r := range sub.inl.rets {
			if r.expr == nil {
				continue
			}
			t2, f2 := sub.cond(r.expr, r.st)
			ts = append(ts, t2...)
			fs = append(fs, f2...)
		}
	}
	return dedupe(ts), dedupe(fs)
}

// bindCall evaluates receiver and arguments of a static call and binds the
// callee's receiver/params in (clones of) the state.
func (w *Walker) bindCall(call *ast.CallExpr, fn *FuncInfo, st *State) []*State {
	recvT, argTs, sts := w.evalCallOperands(call, st)
	var out []*State
	for i, s := range sts {
		if fn.RecvVar != nil {
			rt := recvT[i]
			if rt == nil {
				rt = w.A.recvRoot(fn)
			} else {
				rt = adaptRecv(rt, fn, w.A)
			}
			s.Env[fn.RecvVar] = rt
		}
		for j, p := range fn.Params {
			if j < len(argTs[i]) {
				s.Env[p] = argTs[i][j]
			}
		}
		out = append(out, s)
	}
	return out
}

// adaptRecv maps the receiver expression's term to the callee's receiver root.
func adaptRecv(rt *Term, fn *FuncInfo, a *Analysis) *Term {
	switch fn.Recv {
	case "Context":
		if rt == rootDbft || rt == rootCtx {
			return rootCtx
		}
	case "DBFT":
		if rt == rootDbft {
			return rootDbft
		}
	}
	if rt.K == KField || rt.K == KOpaque && strings.HasPrefix(rt.Name, "ROOT:") {
		return rt
	}
	return rt
}

// evalCallOperands evaluates receiver + args; returns per resulting state the terms.
func (w *Walker) evalCallOperands(call *ast.CallExpr, st *State) (recv []*Term, args [][]*Term, sts []*State) {
	type acc struct {
		st   *State
		recv *Term
		args []*Term
	}
	cur := []acc{{st: st}}
	if sel, ok := ast.Unparen(call.Fun).(*ast.SelectorExpr); ok {
		if s := w.info.Selections[sel]; s != nil && (s.Kind() == types.MethodVal) {
			var next []acc
			for _, c := range cur {
				for _, r := range w.eval(sel.X, c.st) {
					next = append(next, acc{st: r.st, recv: r.t})
				}
			}
			cur = next
		}
	}
	for _, a := range call.Args {
		var next []acc
		for _, c := range cur {
			for _, r := range w.eval(a, c.st) {
				next = append(next, acc{st: r.st, recv: c.recv, args: append(append([]*Term{}, c.args...), r.t)})
			}
		}
		cur = next
	}
	// (a pure module function writes nothing but its own locals, through pointers or otherwise)
	pureCallee := false
	if fn := w.staticCallee(call); fn != nil && w.A.isPure(fn) {
		pureCallee = true
	}
	for _, c := range cur {
		// a field handed over by address may be written by the callee
		for _, t := range c.args {
			if t != nil && t.K == KCall && t.Name == "addr" && len(t.Args) == 1 && t.Args[0].K == KField && !pureCallee {
				w.write(locOf(t.Args[0].Name), KillAny, nil, nil, c.st, call)
			}
		}
		recv = append(recv, c.recv)
		args = append(args, c.args)
		sts = append(sts, c.st)
	}
	return
}

func (w *Walker) staticCallee(call *ast.CallExpr) *FuncInfo {
	obj := typeutil.Callee(w.info, call)
	if f, ok := obj.(*types.Func); ok {
		if fi := w.A.Prog.Funcs[f.Origin()]; fi != nil {
			return fi
		}
	}
	return nil
}

// ---- expressions ----

func (w *Walker) eval(e ast.Expr, st *State) []evalRes {
	one := func(t *Term) []evalRes { return []evalRes{{st, t}} }
	switch x := e.(type) {
	case *ast.ParenExpr:
		return w.eval(x.X, st)
	case *ast.BasicLit:
		if tv, ok := w.info.Types[x]; ok && tv.Value != nil {
			return one(constOf(tv.Value, tv.Type))
		}
		return one(constTerm(x.Value))
	case *ast.Ident:
		return one(w.identTerm(x, st))
	case *ast.SelectorExpr:
		return w.selector(x, st)
	case *ast.IndexExpr:
		// generic instantiation used as conversion target etc.
		if tv, ok := w.info.Types[x]; ok && tv.IsType() {
			return one(fresh("type"))
		}
		var out []evalRes
		if tr, ok := w.tableLookup(x, st); ok {
			for _, r := range tr {
				out = append(out, evalRes{r.st, r.val})
			}
			return out
		}
		for _, b := range w.eval(x.X, st) {
			for _, i := range w.eval(x.Index, b.st) {
				t := mkTerm(KIndex, "", b.t, i.t)
				w.indexSite(x, b.t, i.t, i.st)
				out = append(out, evalRes{i.st, t})
			}
		}
		return out
	case *ast.IndexListExpr:
		return one(fresh("inst"))
	case *ast.SliceExpr:
		var out []evalRes
		for _, b := range w.eval(x.X, st) {
			cur := []*State{b.st}
			var bounds []*Term
			for _, be := range []ast.Expr{x.Low, x.High, x.Max} {
				if be == nil {
					bounds = append(bounds, constTerm("_"))
					continue
				}
				var next []*State
				for _, s := range cur {
					for _, r := range w.eval(be, s) {
						bounds = append(bounds, r.t)
						next = append(next, r.st)
					}
				}
				cur = next
			}
			for _, s := range cur {
				t := mkTerm(KCall, "slice", append([]*Term{b.t}, bounds...)...)
				if x.High != nil || x.Low != nil {
					w.indexSite(x, b.t, nil, s)
				}
				out = append(out, evalRes{s, t})
			}
		}
		return out
	case *ast.CallExpr:
		// a state predicate used as a value (`sor := d.RequestSentOrReceived()`): its truth is decided here, with the
		// facts of its inlined body, and the value is the constant
		if fn := w.staticCallee(x); fn != nil && w.A.isPurePredicate(fn) && w.depth < 6 && isBoolExpr(w.info, x) {
			ts, fs := w.cond(x, st)
			var out []evalRes
			for _, s := range ts {
				out = append(out, evalRes{s, constTerm("true")})
			}
			for _, s := range fs {
				out = append(out, evalRes{s, constTerm("false")})
			}
			if len(out) > 0 {
				return out
			}
		}
		var out []evalRes
		for _, r := range w.evalCall(x, st, 1) {
			var t *Term
			if len(r.ts) > 0 {
				t = r.ts[0]
			} else {
				t = fresh("void")
			}
			out = append(out, evalRes{r.st, t})
		}
		return out
	case *ast.UnaryExpr:
		switch x.Op {
		case token.NOT:
			ts, fs := w.cond(x, st)
			var out []evalRes
			for _, s := range ts {
				out = append(out, evalRes{s, constTerm("true")})
			}
			for _, s := range fs {
				out = append(out, evalRes{s, constTerm("false")})
			}
			return out
		case token.AND:
			// the address of a local escapes: its value is no longer tracked
			if id, ok := ast.Unparen(x.X).(*ast.Ident); ok {
				if v, ok := w.info.Uses[id].(*types.Var); ok && !v.IsField() {
					if _, tracked := st.Env[v]; tracked && v != w.Fn.RecvVar {
						st.Env[v] = fresh("escaped_" + v.Name() + "_")
					}
				}
			}
			var out []evalRes
			for _, r := range w.eval(x.X, st) {
				if r.t == rootCtx || r.t == rootCfg || r.t == rootDbft {
					out = append(out, evalRes{r.st, r.t})
					continue
				}
				t := mkTerm(KCall, "addr", r.t)
				t.NonNil = true
				out = append(out, evalRes{r.st, t})
			}
			return out
		case token.ARROW:
			var out []evalRes
			for _, r := range w.eval(x.X, st) {
				w.siteExt(x, "chan:recv", r.st, r.t, nil)
				out = append(out, evalRes{r.st, fresh("rcv")})
			}
			return out
		case token.SUB:
			var out []evalRes
			for _, r := range w.eval(x.X, st) {
				out = append(out, evalRes{r.st, mkTerm(KBin, "-", constTerm("0"), r.t)})
			}
			return out
		}
		var out []evalRes
		for _, r := range w.eval(x.X, st) {
			out = append(out, evalRes{r.st, mkTerm(KCall, "unop"+x.Op.String(), r.t)})
		}
		return out
	case *ast.BinaryExpr:
		switch x.Op {
		case token.LAND, token.LOR, token.EQL, token.NEQ, token.LSS, token.GTR, token.LEQ, token.GEQ:
			ts, fs := w.cond(x, st)
			var out []evalRes
			for _, s := range ts {
				out = append(out, evalRes{s, constTerm("true")})
			}
			for _, s := range fs {
				out = append(out, evalRes{s, constTerm("false")})
			}
			return out
		}
		var out []evalRes
		for _, l := range w.eval(x.X, st) {
			for _, r := range w.eval(x.Y, l.st) {
				op := x.Op.String()
				if x.Op == token.SUB && isUnsigned(w.info.TypeOf(x)) {
					op = "-u"
				}
				t := mkTerm(KBin, op, l.t, r.t)
				t.Unsigned = isUnsigned(w.info.TypeOf(x))
				if tv, ok := w.info.Types[x]; ok && tv.Value != nil {
					t = constOf(tv.Value, tv.Type)
				}
				out = append(out, evalRes{r.st, t})
			}
		}
		return out
	case *ast.StarExpr:
		var out []evalRes
		for _, r := range w.eval(x.X, st) {
			if r.t != nil && r.t.K == KCall && r.t.Name == "addr" && len(r.t.Args) == 1 {
				out = append(out, evalRes{r.st, r.t.Args[0]}) // *(&x) is x
				continue
			}
			out = append(out, evalRes{r.st, mkTerm(KCall, "deref", r.t)})
		}
		return out
	case *ast.CompositeLit:
		cur := []*State{st}
		var elts []*Term
		for _, el := range x.Elts {
			v := el
			if kv, ok := el.(*ast.KeyValueExpr); ok {
				v = kv.Value
			}
			// a simple comparison as an element is kept as what it says, undecided
			if len(cur) == 1 {
				if lt := w.lazyBool(v, cur[0]); lt != nil {
					elts = append(elts, lt)
					continue
				}
			}
			var next []*State
			for _, s := range cur {
				for _, r := range w.eval(v, s) {
					elts = append(elts, r.t)
					next = append(next, r.st)
				}
			}
			cur = next
		}
		var out []evalRes
		// a struct literal with named fields evaluated on a single path keeps its field values (a result struct read
		// back by the caller)
		var names []string
		if _, isStruct := w.info.TypeOf(x).Underlying().(*types.Struct); isStruct && len(cur) == 1 && len(elts) == len(x.Elts) {
			for _, el := range x.Elts {
				if kv, ok := el.(*ast.KeyValueExpr); ok {
					if id, ok := kv.Key.(*ast.Ident); ok {
						names = append(names, id.Name)
						continue
					}
				}
				names = nil
				break
			}
		}
		for _, s := range cur {
			t := fresh("lit")
			t.NonNil = true
			t.Args = elts
			if len(names) == len(elts) {
				t.Fields = names
			}
			if _, isMap := w.info.TypeOf(x).Underlying().(*types.Map); isMap && len(cur) == 1 && len(elts) == len(x.Elts) && len(elts) > 0 && len(elts) <= 16 {
				var keys []*Term
				for _, el := range x.Elts {
					kv, ok := el.(*ast.KeyValueExpr)
					if !ok {
						break
					}
					tv, ok := w.info.Types[kv.Key]
					if !ok || tv.Value == nil {
						break
					}
					ks := w.eval(kv.Key, s)
					if len(ks) != 1 {
						break
					}
					keys = append(keys, ks[0].t)
				}
				if len(keys) == len(elts) {
					t.Keys = keys
				}
			}
			switch w.info.TypeOf(x).Underlying().(type) {
			case *types.Slice, *types.Array:
				if len(cur) == 1 && len(elts) == len(x.Elts) {
					t.List = true
				}
			}
			if stt, isStruct := w.info.TypeOf(x).Underlying().(*types.Struct); isStruct && len(cur) == 1 && len(elts) == len(x.Elts) && (len(names) == len(elts) || len(elts) == stt.NumFields() || len(elts) == 0) {
				t.ST = stt
			}
			out = append(out, evalRes{s, t})
		}
		return out
	case *ast.FuncLit:
		t := fresh("func")
		t.NonNil = true
		t.Fun = &FuncVal{Lit: x, Owner: w.Fn}
		return one(t)
	case *ast.TypeAssertExpr:
		return w.eval(x.X, st)
	case *ast.KeyValueExpr:
		return w.eval(x.Value, st)
	}
	return one(fresh("e"))
}

func constOf(v constant.Value, t types.Type) *Term {
	switch v.Kind() {
	case constant.Bool:
		if constant.BoolVal(v) {
			return constTerm("true")
		}
		return constTerm("false")
	case constant.Int:
		return constTerm(v.ExactString())
	}
	return constTerm(v.ExactString())
}

func (w *Walker) identTerm(id *ast.Ident, st *State) *Term {
	if id.Name == "nil" {
		if _, ok := w.info.Uses[id].(*types.Nil); ok {
			return nilTerm
		}
	}
	obj := w.info.Uses[id]
	if obj == nil {
		obj = w.info.Defs[id]
	}
	switch o := obj.(type) {
	case *types.Const:
		return constObjTerm(o)
	case *types.Var:
		anyField := false
		for _, fv := range w.A.fieldVarsOf[o] {
			if _, ok := st.Env[fv]; ok {
				anyField = true
			}
		}
		if fvs := w.A.fieldVarsOf[o]; anyField {
			// a local struct whose fields were assigned one by one: its value is the struct of those fields
			if stt, ok := o.Type().Underlying().(*types.Struct); ok {
				t := fresh("lit")
				t.NonNil = true
				for i := 0; i < stt.NumFields(); i++ {
					f := stt.Field(i)
					var val *Term
					for _, fv := range fvs {
						if w.A.fieldVarField[fv] == f.Origin() {
							if v, ok := st.Env[fv]; ok {
								val = v
							}
						}
					}
					if val == nil {
						if base, ok := st.Env[o]; ok && len(base.Fields) == len(base.Args) && len(base.Fields) > 0 {
							for j, fnm := range base.Fields {
								if fnm == f.Name() {
									val = base.Args[j]
								}
							}
						}
					}
					if val == nil {
						// a field never assigned separately: the field of whatever the variable holds
						if base, ok := st.Env[o]; ok {
							val = mkTerm(KSel, f.Name(), base)
						} else {
							val = fresh("fld_" + f.Name() + "_")
						}
					}
					t.Args = append(t.Args, val)
					t.Fields = append(t.Fields, f.Name())
				}
				return t
			}
		}
		if t, ok := st.Env[o]; ok {
			return t
		}
		if o.Parent() != nil && o.Pkg() != nil && o.Parent() == o.Pkg().Scope() {
			return mkTerm(KField, "pkgvar."+o.Name())
		}
		t := fresh("u_" + o.Name() + "_")
		st.Env[o] = t
		return t
	case *types.Nil:
		return nilTerm
	case *types.Func:
		t := mkTerm(KConst, "func:"+o.FullName())
		t.NonNil = true
		return t
	}
	if tv, ok := w.info.Types[id]; ok && tv.Value != nil {
		return constOf(tv.Value, tv.Type)
	}
	return fresh("id")
}

func constObjTerm(o *types.Const) *Term {
	if n, ok := types.Unalias(o.Type()).(*types.Named); ok && n.Obj().Pkg() != nil && strings.HasPrefix(n.Obj().Pkg().Path(), modPath) {
		return constTerm(o.Name())
	}
	return constOf(o.Val(), o.Type())
}

// tableLookup: x is an index into a constant dispatch table; the lookup is expanded over its entries.
func (w *Walker) tableLookup(x *ast.IndexExpr, st *State) ([]tblRes, bool) {
	if w.Fn.Pkg.PkgPath != modPath {
		return nil, false
	}
	bs := w.eval(x.X, st)
	if len(bs) == 1 && bs[0].t != nil && len(bs[0].t.Keys) > 0 && len(bs[0].t.Keys) == len(bs[0].t.Args) {
		// a map literal with constant keys at hand (built in place or by an accessor): one branch per entry, plus "no such key"
		lit := bs[0].t
		var out []tblRes
		for _, k := range w.eval(x.Index, bs[0].st) {
			miss := k.st.clone()
			missOK := true
			for i, kt := range lit.Keys {
				s := k.st.clone()
				l := Lit{mkAtom("eq", k.t, kt), true}
				if s.F.add(l) {
					s.Trail = append(s.Trail, l.String())
					s.TrailL = append(s.TrailL, l)
					out = append(out, tblRes{s, lit.Args[i], true})
				}
				if !miss.F.add(Lit{mkAtom("eq", k.t, kt), false}) {
					missOK = false
				}
			}
			if missOK {
				out = append(out, tblRes{miss, mkTerm(KLocal, "tblmiss:lit"), false})
			}
		}
		return out, true
	}
	if len(bs) != 1 || bs[0].t.K != KField {
		return nil, false
	}
	tb := w.A.dispatchTable(bs[0].t.Name)
	if tb == nil {
		return nil, false
	}
	var out []tblRes
	for _, k := range w.eval(x.Index, bs[0].st) {
		out = append(out, w.lookupTable(tb, k.t, k.st)...)
	}
	return out, true
}

func (w *Walker) selector(x *ast.SelectorExpr, st *State) []evalRes {
	// package-qualified identifier
	if id, ok := x.X.(*ast.Ident); ok {
		if _, ok := w.info.Uses[id].(*types.PkgName); ok {
			switch o := w.info.Uses[x.Sel].(type) {
			case *types.Const:
				return []evalRes{{st, constObjTerm(o)}}
			case *types.Var:
				return []evalRes{{st, mkTerm(KField, "pkgvar."+o.Pkg().Name()+"_"+o.Name())}}
			case *types.Func:
				t := mkTerm(KConst, "func:"+o.FullName())
				t.NonNil = true
				return []evalRes{{st, t}}
			}
			return []evalRes{{st, fresh("pkg")}}
		}
	}
	sel := w.info.Selections[x]
	if sel == nil {
		return []evalRes{{st, fresh("sel")}}
	}
	if fv := w.localFieldVar(x); fv != nil {
		if t, ok := st.Env[fv]; ok {
			return []evalRes{{st, t}}
		}
	}
	var out []evalRes
	for _, b := range w.eval(x.X, st) {
		if sel.Kind() != types.FieldVal {
			t := mkTerm(KSel, x.Sel.Name, b.t)
			t.NonNil = true
			t.Fun = w.methodValue(x, b.t)
			out = append(out, evalRes{b.st, t})
			continue
		}
		fv := sel.Obj().(*types.Var).Origin()
		if b.t.ST != nil && len(b.t.Fields) == 0 && len(b.t.Args) == b.t.ST.NumFields() {
			for i := 0; i < b.t.ST.NumFields(); i++ {
				if b.t.ST.Field(i).Name() == x.Sel.Name {
					out = append(out, evalRes{b.st, b.t.Args[i]})
				}
			}
			continue
		}
		if len(b.t.Fields) > 0 && len(b.t.Fields) == len(b.t.Args) {
			found := false
			for i, fnm := range b.t.Fields {
				if fnm == x.Sel.Name {
					out = append(out, evalRes{b.st, b.t.Args[i]})
					found = true
				}
			}
			if !found {
				out = append(out, evalRes{b.st, zeroTerm(fv.Type())})
			}
			continue
		}
		if e, ok := w.A.entryOf[b.t.S]; ok && w.A.entryOf != nil {
			out = append(out, w.entryField(e, x.Sel.Name, fv.Type(), b.st)...)
			continue
		}
		ft := w.fieldTerm(b.t, fv, x.Sel.Name)
		if ft.K == KField && !w.lvalue {
			if b.st.ReadSeen == nil {
				b.st.ReadSeen = map[string]bool{}
			}
			b.st.ReadSeen[locOf(ft.Name)] = true
		}
		if w.trackFields && ft.K == KField && b.st.FieldVal != nil && !w.lvalue {
			if v, ok := b.st.FieldVal[ft.Name]; ok {
				ft = v
			}
		}
		out = append(out, evalRes{b.st, ft})
	}
	return out
}

func (w *Walker) fieldTerm(base *Term, fv *types.Var, name string) *Term {
	owner := w.A.Prog.FieldOwner[fv]
	name = w.A.Prog.fieldRole(fv, name)
	mk := func(s string) *Term {
		t := mkTerm(KField, s)
		t.Unsigned = isUnsigned(fv.Type())
		return t
	}
	switch base {
	case rootDbft, rootCtx, rootCfg:
		switch owner {
		case "DBFT":
			switch name {
			case "Context":
				return rootCtx
			case "Config":
				return rootCfg
			}
			return mk("dbft." + name)
		case "Context":
			if name == "Config" {
				return rootCfg
			}
			return mk("ctx." + name)
		case "Config":
			return mk("cfg." + name)
		}
		return mk("dbft." + name)
	case rootRecv:
		return mk("recv." + name)
	}
	if base.K == KField {
		if w.A.Prog.HolderOf[fv] != nil {
			if _, isHolder := w.A.Prog.HolderSubs[base.Name]; isHolder {
				return mk("ctx." + name) // a field of a transparent holder struct (holders.go)
			}
		}
		t := mkTerm(KField, base.Name+"."+name)
		t.Unsigned = isUnsigned(fv.Type())
		return t
	}
	t := mkTerm(KSel, name, base)
	t.Unsigned = isUnsigned(fv.Type())
	return t
}

// indexSite records a table index expression (for IDX rules).
func (w *Walker) indexSite(n ast.Node, base, idx *Term, st *State) {
	if !w.record || base == nil || base.K != KField {
		return
	}
	site := w.recA().siteFor(w.sfn(), n, "index", "", base.Name)
	w.A.snap(site, st, nil, nil, nil, idx)
}

func boringCall(id string) bool {
	if strings.HasPrefix(id, "ext:go.uber.org/zap") || strings.HasPrefix(id, "ext:fmt.") || strings.HasPrefix(id, "ext:errors.") || id == "ext:error.Error" {
		return true
	}
	if strings.HasPrefix(id, "if:") && pureExt(id) && !strings.HasPrefix(id, "if:Timer.") && !strings.HasPrefix(id, "if:RecoveryMessage.") {
		return true
	}
	return false
}

func (w *Walker) siteExt(n ast.Node, callee string, st *State, recv *Term, args []*Term) {
	if boringCall(callee) {
		return
	}
	st.Events[callee] = true
	st.logEv(callee)
	if !w.record {
		return
	}
	site := w.recA().siteFor(w.sfn(), n, "call", callee, "")
	w.A.snap(site, st, recv, args, nil, nil)
}

// ---- switch ----

func (w *Walker) switchStmt(s *ast.SwitchStmt, in []*State) []*State {
	cur := in
	if s.Init != nil {
		cur = w.stmt(s.Init, cur)
	}
	saved := w.swBreaks
	w.swBreaks = nil
	var out []*State
	for _, st := range cur {
		type tagged struct {
			st  *State
			tag *Term
		}
		var starts []tagged
		if s.Tag != nil {
			for _, r := range w.eval(s.Tag, st) {
				starts = append(starts, tagged{r.st, r.t})
			}
		} else {
			starts = []tagged{{st, nil}}
		}
		for _, sg := range starts {
			rest := []*State{sg.st}
			var deflt *ast.CaseClause
			for _, cl := range s.Body.List {
				cc := cl.(*ast.CaseClause)
				if cc.List == nil {
					deflt = cc
					continue
				}
				var matched []*State
				for _, ce := range cc.List {
					var nrest []*State
					for _, r := range rest {
						var t, f []*State
						if sg.tag != nil {
							for _, cv := range w.eval(ce, r) {
								lit, ok := cmpLit(token.EQL, sg.tag, cv.t, false)
								if !ok {
									lit = Lit{mkAtom("b", fresh("case"), nil), true}
								}
								t2, f2 := split(cv.st, lit)
								t = append(t, t2...)
								f = append(f, f2...)
							}
						} else {
							t, f = w.cond(ce, r)
						}
						matched = append(matched, t...)
						nrest = append(nrest, f...)
					}
					rest = nrest
				}
				out = append(out, w.stmts(cc.Body, dedupe(matched))...)
			}
			if deflt != nil {
				out = append(out, w.stmts(deflt.Body, rest)...)
			} else {
				out = append(out, rest...)
			}
		}
	}
	out = append(out, w.swBreaks...)
	w.swBreaks = saved
	return out
}

func (w *Walker) typeSwitch(s *ast.TypeSwitchStmt, in []*State) []*State {
	cur := in
	if s.Init != nil {
		cur = w.stmt(s.Init, cur)
	}
	// evaluate the asserted expression for effects
	var out []*State
	for _, cl := range s.Body.List {
		cc := cl.(*ast.CaseClause)
		sts := cloneAll(cur)
		if obj := w.info.Implicits[cc]; obj != nil {
			if v, ok := obj.(*types.Var); ok {
				for _, st := range sts {
					st.Env[v] = fresh("ts")
				}
			}
		}
		out = append(out, w.stmts(cc.Body, sts)...)
	}
	return out
}

// recA: where recorded sites go.
func (w *Walker) recA() *Analysis {
	if w.rec != nil {
		return w.rec
	}
	return w.A
}

// knownResponse: on this path the entry base[idx] is known to be a PrepareResponse (the test `Type() == PrepareResponseType`
// was taken for the element the index denotes).
func (w *Walker) knownResponse(base, idx *Term, st *State) bool {
	cands := []string{mkTerm(KIndex, "", base, idx).S}
	if idx.K == KLocal && strings.HasPrefix(idx.Name, "rangekey:") {
		parts := strings.SplitN(idx.Name, ":", 3)
		if len(parts) == 3 && parts[2] == base.S {
			cands = append(cands, "elem("+base.S+")#"+parts[1])
		}
	}
	for k, v := range st.F.m {
		if !v {
			continue
		}
		for _, c := range cands {
			if k == "ConsensusMessage.Type("+c+")==PrepareResponseType" {
				return true
			}
		}
	}
	return false
}

// splitOwnSender: a received payload is stored into its sender's slot. The sender is normally another node, but a node
// that lost its state is handed its own payloads back by recovery messages, so the slot may be the node's own. A path
// that holds an "own slot is empty" fact for that table and does not know whether the sender is the node itself is split
// in two right before the store: in one the sender is this node (the fact dies with the store), in the other it is not
// (the fact survives). What used to be assumption A7 is now a case distinction the code under analysis has to survive.
func (w *Walker) splitOwnSender(s *ast.AssignStmt, in []*State) []*State {
	if w.Fn.Pkg.PkgPath != modPath || len(s.Lhs) != 1 || len(s.Rhs) != 1 || s.Tok != token.ASSIGN {
		return in
	}
	ix, ok := ast.Unparen(s.Lhs[0]).(*ast.IndexExpr)
	if !ok {
		return in
	}
	var out []*State
	for _, st := range in {
		w.lvalue = true
		bs := w.eval(ix.X, st)
		w.lvalue = false
		if len(bs) != 1 || bs[0].t.K != KField || bs[0].st != st {
			out = append(out, st)
			continue
		}
		base := bs[0].t
		switch base.Name {
		case "ctx.PreparationPayloads", "ctx.PreCommitPayloads", "ctx.CommitPayloads", "ctx.ChangeViewPayloads":
		default:
			out = append(out, st)
			continue
		}
		is := w.eval(ix.Index, st)
		if len(is) != 1 || is[0].st != st || idxClass(is[0].t, st) != "sender" {
			out = append(out, st)
			continue
		}
		own := mkAtom("nn", mkTerm(KIndex, "", base, tMyIndex), nil)
		if v, known := st.F.value(own); !known || v {
			out = append(out, st) // no "own slot empty" fact to protect
			continue
		}
		ts, fs := split(st, Lit{mkAtom("eq", tMyIndex, is[0].t), true})
		out = append(out, ts...)
		out = append(out, fs...)
	}
	return out
}
