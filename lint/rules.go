package main

// Rule context, roles and property dispatch.

import (
	"fmt"
	"go/ast"
	"go/types"
	"os"
	"sort"
	"strings"
	"time"
)

type SendSite struct {
	Site  *Site
	Kinds []string
}

type RC struct {
	Prog *Program
	A    *Analysis
	Tier string

	API     map[string]*FuncInfo
	apiList []*FuncInfo
	events  []*FuncInfo // OnReceive, OnTimeout, OnTransaction, OnNewTransaction

	wrappers   map[*FuncInfo]bool
	sendSites  []*SendSite
	divDepth   int
	kindCaller *FuncInfo // see kindsOfExpr: the caller supplying function arguments to a higher-order helper
	kindCache  map[string][]string
	epochCl    map[*FuncInfo]bool
	builderCl  map[*FuncInfo]bool
	troles     *timerRoles
	clusterRec map[*FuncInfo]*Analysis
	verifiers  []*FuncInfo
	cfgChecker *FuncInfo
	auditN     int
	auditBad   []string
	cfgNonNil  map[string]bool
	cfgNonZero map[string]bool
}

var apiNames = []string{"Start", "Reset", "OnReceive", "OnTimeout", "OnTransaction", "OnNewTransaction"}

func newRC(prog *Program, tier string) *RC {
	a := newAnalysis(prog)
	a.walkAll()
	c := &RC{Prog: prog, A: a, Tier: tier, API: map[string]*FuncInfo{}, wrappers: map[*FuncInfo]bool{}, kindCache: map[string][]string{}}
	for _, n := range apiNames {
		if f := prog.fn(n); f != nil && f.Recv == "DBFT" {
			c.API[n] = f
			c.apiList = append(c.apiList, f)
			if n != "Start" && n != "Reset" {
				c.events = append(c.events, f)
			}
		}
	}
	// broadcast wrappers: functions of package dbft that call Config.Broadcast
	for _, fn := range prog.dbftFuncs() {
		for _, s := range a.FnSites[fn] {
			if s.Kind == "call" && s.Callee == "cb:Broadcast" {
				c.wrappers[fn] = true
			}
		}
	}
	for _, fn := range prog.dbftFuncs() {
		for _, s := range a.FnSites[fn] {
			if s.Kind == "call" && s.Target != nil && c.wrappers[s.Target] && s.Call != nil && len(s.Call.Args) >= 1 {
				// a site inside a higher-order helper walked inline belongs to fn, but its expression lives in the helper:
				// resolve it there, with fn as the caller that supplies the function arguments
				encl := c.enclosingFunc(s.Call)
				c.kindCaller = nil
				ks := []string{"?"}
				if encl != nil && encl != fn {
					c.kindCaller = fn
					ks = c.kindsOfExpr(encl, s.Call.Args[0], 0)
					c.kindCaller = nil
				} else {
					ks = c.kindsOfExpr(fn, s.Call.Args[0], 0)
				}
				c.sendSites = append(c.sendSites, &SendSite{Site: s, Kinds: ks})
			}
		}
	}
	return c
}

// ---- canonical atoms used by rules ----

func fld(name string, unsigned bool) *Term {
	t := mkTerm(KField, name)
	t.Unsigned = unsigned
	return t
}

var (
	tMyIndex      = fld("ctx.MyIndex", false)
	tPrimaryIndex = fld("ctx.PrimaryIndex", true)
	tViewNumber   = fld("ctx.ViewNumber", true)
	tBlockIndex   = fld("ctx.BlockIndex", true)
	tAMEVHeight   = fld("cfg.AntiMEVExtensionEnablingHeight", false)
	tZero         = constTerm("0")
)

func slot(table string, idx *Term) *Term { return mkTerm(KIndex, "", fld("ctx."+table, false), idx) }
func nn(t *Term) *Formula                { return fAtom(mkAtom("nn", t, nil)) }
func lt(a, b *Term) *Formula             { return fAtom(mkAtom("lt", a, b)) }
func eq(a, b *Term) *Formula             { return fAtom(mkAtom("eq", a, b)) }
func bl(t *Term) *Formula                { return fAtom(mkAtom("b", t, nil)) }

func fWatchOnly() *Formula    { return fOr(lt(tMyIndex, tZero), bl(mkTerm(KCall, "cfg.WatchOnly"))) }
func fNotWatchOnly() *Formula { return fNot(fWatchOnly()) }
func fIsPrimary() *Formula    { return eq(tMyIndex, tPrimaryIndex) }
func fIsBackup() *Formula     { return fAnd(fNot(lt(tMyIndex, tZero)), fNot(fIsPrimary())) }
func fRSR() *Formula          { return nn(slot("PreparationPayloads", tPrimaryIndex)) }
func fOwn(table string) *Formula {
	return fAnd(fNotWatchOnly(), nn(slot(table, tMyIndex)))
}
func fResponseSent() *Formula  { return fOwn("PreparationPayloads") }
func fCommitSent() *Formula    { return fOwn("CommitPayloads") }
func fPreCommitSent() *Formula { return fOwn("PreCommitPayloads") }
func fBlockSent() *Formula     { return bl(fld("ctx.blockProcessed", false)) }
func fAMEV() *Formula {
	return fAnd(fNot(lt(tAMEVHeight, tZero)), fNot(lt(tBlockIndex, tAMEVHeight)))
}
func fAllTx() *Formula {
	return eq(mkTerm(KLen, "", fld("ctx.TransactionHashes", false)), mkTerm(KLen, "", fld("ctx.Transactions", false)))
}

// ---- kinds of payload expressions (send-site typing) ----

var tableKinds = map[string][]string{
	"PreparationPayloads":    {"PrepareRequestType", "PrepareResponseType"},
	"PreCommitPayloads":      {"PreCommitType"},
	"CommitPayloads":         {"CommitType"},
	"ChangeViewPayloads":     {"ChangeViewType"},
	"LastChangeViewPayloads": {"ChangeViewType"},
}

func (c *RC) kindsOfExpr(fn *FuncInfo, e ast.Expr, depth int) []string {
	if depth > 8 {
		return []string{"?"}
	}
	info := fn.Pkg.TypesInfo
	e = ast.Unparen(e)
	set := map[string]bool{}
	add := func(ks []string) {
		for _, k := range ks {
			set[k] = true
		}
	}
	switch x := e.(type) {
	case *ast.Ident:
		if x.Name == "nil" {
			break
		}
		v, ok := info.Uses[x].(*types.Var)
		if !ok {
			set["?"] = true
			break
		}
		found := false
		// parameters: unknown kind
		for j, p := range fn.Params {
			if p == v {
				found = true
				// inside a helper walked inline at its call sites: what the caller in question passes
				if caller := c.kindCaller; caller != nil && caller != fn {
					resolved := false
					cinfo := caller.Pkg.TypesInfo
					ast.Inspect(caller.Decl.Body, func(n ast.Node) bool {
						call, ok := n.(*ast.CallExpr)
						if !ok || j >= len(call.Args) || call.Ellipsis.IsValid() {
							return true
						}
						cw := &Walker{A: c.A, Fn: caller, info: cinfo}
						if cw.staticCallee(call) != fn {
							return true
						}
						resolved = true
						c.kindCaller = nil
						add(c.kindsOfExpr(caller, call.Args[j], depth+1))
						c.kindCaller = caller
						return true
					})
					if resolved {
						continue
					}
				}
				set["?param:"+p.Name()] = true
			}
		}
		// all assignments to v in fn
		ast.Inspect(fn.Decl.Body, func(n ast.Node) bool {
			switch s := n.(type) {
			case *ast.AssignStmt:
				for i, l := range s.Lhs {
					id, ok := ast.Unparen(l).(*ast.Ident)
					if !ok {
						continue
					}
					obj := info.Defs[id]
					if obj == nil {
						obj = info.Uses[id]
					}
					if obj != v {
						continue
					}
					found = true
					if len(s.Rhs) == len(s.Lhs) {
						add(c.kindsOfExpr(fn, s.Rhs[i], depth+1))
					} else if len(s.Rhs) == 1 && i == 0 {
						add(c.kindsOfExpr(fn, s.Rhs[0], depth+1))
					} else {
						set["?"] = true
					}
				}
			case *ast.RangeStmt:
				if id, ok := s.Value.(*ast.Ident); ok && info.Defs[id] == v {
					found = true
					add(c.kindsOfTable(fn, s.X))
				}
			}
			return true
		})
		if !found {
			set["?"] = true
		}
	case *ast.CallExpr:
		fun := ast.Unparen(x.Fun)
		if tv, ok := info.Types[fun]; ok && tv.IsType() {
			if len(x.Args) == 1 {
				add(c.kindsOfExpr(fn, x.Args[0], depth+1))
			}
			break
		}
		if sel, ok := fun.(*ast.SelectorExpr); ok {
			if s := info.Selections[sel]; s != nil && s.Kind() == types.FieldVal && sel.Sel.Name == "NewConsensusPayload" && len(x.Args) >= 2 {
				if tv, ok := info.Types[x.Args[1]]; ok && tv.Value != nil {
					if k := constName(info, x.Args[1]); k != "" {
						set[k] = true
						break
					}
				}
				set["?"] = true
				break
			}
		}
		w := &Walker{A: c.A, Fn: fn, info: info}
		// a call through a function-typed parameter of a higher-order helper: what the caller in question passes
		if id, ok := fun.(*ast.Ident); ok && c.kindCaller != nil {
			if v, ok := info.Uses[id].(*types.Var); ok {
				pidx := -1
				for j, p := range fn.Params {
					if p == v {
						pidx = j
					}
				}
				if pidx >= 0 {
					resolved := false
					caller := c.kindCaller
					cinfo := caller.Pkg.TypesInfo
					ast.Inspect(caller.Decl.Body, func(n ast.Node) bool {
						call, ok := n.(*ast.CallExpr)
						if !ok || pidx >= len(call.Args) {
							return true
						}
						cw := &Walker{A: c.A, Fn: caller, info: cinfo}
						if cw.staticCallee(call) != fn {
							return true
						}
						var target *FuncInfo
						switch a := ast.Unparen(call.Args[pidx]).(type) {
						case *ast.FuncLit:
							resolved = true
							ast.Inspect(a.Body, func(m ast.Node) bool {
								if r, ok := m.(*ast.ReturnStmt); ok && len(r.Results) >= 1 {
									add(c.kindsOfExpr(caller, r.Results[0], depth+1))
								}
								return true
							})
						case *ast.Ident:
							if f, ok := cinfo.Uses[a].(*types.Func); ok {
								target = c.Prog.Funcs[f.Origin()]
							}
						case *ast.SelectorExpr:
							if sl := cinfo.Selections[a]; sl != nil && sl.Kind() == types.MethodVal {
								if f, ok := sl.Obj().(*types.Func); ok {
									target = c.Prog.Funcs[f.Origin()]
								}
							}
						}
						if target != nil {
							resolved = true
							saved := c.kindCaller
							c.kindCaller = nil
							ast.Inspect(target.Decl.Body, func(m ast.Node) bool {
								if _, ok := m.(*ast.FuncLit); ok {
									return false
								}
								if r, ok := m.(*ast.ReturnStmt); ok && len(r.Results) >= 1 {
									add(c.kindsOfExpr(target, r.Results[0], depth+1))
								}
								return true
							})
							c.kindCaller = saved
						}
						return true
					})
					if !resolved {
						set["?"] = true
					}
					break
				}
			}
		}
		if callee := w.staticCallee(x); callee != nil {
			key := callee.Name
			if ks, ok := c.kindCache[key]; ok {
				add(ks)
				break
			}
			c.kindCache[key] = nil
			var ks []string
			ast.Inspect(callee.Decl.Body, func(n ast.Node) bool {
				if _, ok := n.(*ast.FuncLit); ok {
					return false
				}
				if r, ok := n.(*ast.ReturnStmt); ok && len(r.Results) >= 1 {
					ks = append(ks, c.kindsOfExpr(callee, r.Results[0], depth+1)...)
				}
				return true
			})
			c.kindCache[key] = ks
			add(ks)
			break
		}
		set["?"] = true
	case *ast.IndexExpr:
		add(c.kindsOfTable(fn, x.X))
	default:
		set["?"] = true
	}
	var out []string
	for k := range set {
		out = append(out, k)
	}
	sort.Strings(out)
	return out
}

func (c *RC) kindsOfTable(fn *FuncInfo, e ast.Expr) []string {
	if sel, ok := ast.Unparen(e).(*ast.SelectorExpr); ok {
		if ks, ok := tableKinds[sel.Sel.Name]; ok {
			if s := fn.Pkg.TypesInfo.Selections[sel]; s != nil && s.Kind() == types.FieldVal {
				return ks
			}
		}
	}
	return []string{"?"}
}

func constName(info *types.Info, e ast.Expr) string {
	switch x := ast.Unparen(e).(type) {
	case *ast.Ident:
		if c, ok := info.Uses[x].(*types.Const); ok {
			return c.Name()
		}
	case *ast.SelectorExpr:
		if c, ok := info.Uses[x.Sel].(*types.Const); ok {
			return c.Name()
		}
	}
	return ""
}

func hasKind(ks []string, k string) bool {
	for _, x := range ks {
		if x == k {
			return true
		}
	}
	return false
}

// inEpoch: fn belongs to the epoch-writer cluster (the epoch writer and the private helpers carved out of it).
func (c *RC) inEpoch(fn *FuncInfo) bool {
	if c.A.epochWriter == nil {
		return false
	}
	if c.epochCl == nil {
		c.epochCl = c.A.cluster(c.A.epochWriter)
	}
	return c.epochCl[fn]
}

// epochSites: recorded sites of every function of the epoch-writer cluster.
func (c *RC) epochSites() []*Site {
	var out []*Site
	for _, fn := range c.Prog.dbftFuncs() {
		if c.inEpoch(fn) {
			out = append(out, c.A.FnSites[fn]...)
		}
	}
	return out
}

// epochDemand proves requirements about the epoch writer's view parameter: residuals of helper functions are pushed
// to their call sites inside the cluster and must be established before the cluster is left.
func (c *RC) epochDemand() *Demand {
	return c.A.newDemand([]*FuncInfo{c.A.epochWriter})
}

func (c *RC) viewIsZero() *Formula {
	vp := mkTerm(KParam, c.A.epochViewParm.Name())
	vp.Unsigned = true
	return eq(vp, tZero)
}

// sitesWhere selects recorded sites of package dbft.
func (c *RC) sitesWhere(pred func(s *Site) bool) []*Site {
	var out []*Site
	for _, fn := range c.Prog.dbftFuncs() {
		for _, s := range c.A.FnSites[fn] {
			if pred(s) {
				out = append(out, s)
			}
		}
	}
	return out
}

func (c *RC) callSites(callee string) []*Site {
	return c.sitesWhere(func(s *Site) bool { return s.Kind == "call" && s.Callee == callee })
}

// guardRule proves G at every given site from the given roots.
func (c *RC) guardRule(r *RuleResult, sites []*Site, roots []*FuncInfo, g func(s *Site, sn *Snap) *Formula, cfg func(d *Demand)) {
	d := c.A.newDemand(roots)
	if cfg != nil {
		cfg(d)
	}
	// engine canary: a requirement that no path establishes must be refuted at the first site, otherwise the
	// engine is proving everything (empty snapshots, lost call graph) and the rule would pass vacuously
	if len(sites) > 0 {
		cd := c.A.newDemand(roots)
		if cfg != nil {
			cfg(cd)
		}
		canary := bl(fld("ctx.__canary_never_established", false))
		s0 := sites[0]
		if f := cd.ProveAt(s0, func(sn *Snap) *Formula {
			if g0 := g(s0, sn); g0 != nil {
				return fAnd(g0, canary)
			}
			return canary
		}); f == nil {
			r.fail("engine-canary/"+r.Rule, c.Prog.Pos(s0.Node), "the engine proved a requirement that nothing establishes: the rule's verdicts are not trustworthy")
		} else {
			r.note("canary refuted at " + c.Prog.Pos(s0.Node))
		}
	}
	for _, s := range sites {
		r.Sites++
		s := s
		f := d.ProveAt(s, func(sn *Snap) *Formula { return g(s, sn) })
		lab := fmt.Sprintf("%s: %s", d.siteLabel(s), r.Doc)
		if f != nil {
			// second attempt on the cluster: the function (or, for a single-caller helper, the function it serves) is
			// walked with its single-caller helpers inline, so facts are not lost to a helper's summary
			if s2 := c.clusterSite(s); s2 != nil {
				if f2 := d.ProveAt(s2, func(sn *Snap) *Formula { return g(s2, sn) }); f2 == nil {
					f = nil
					lab += " [helpers walked inline from " + s2.Fn.Name + "]"
					s = s2
				}
			}
		}
		if f == nil && c.Tier == "thorough" {
			// differential audit of the two evaluation strategies: what the summaries prove, the walk with helpers
			// inline (strictly more precise) must prove as well; a disagreement means a summary keeps a fact it should
			// have dropped
			if s2 := c.clusterSite(s); s2 != nil && s2 != s {
				c.auditN++
				d2 := c.A.newDemand(roots)
				if cfg != nil {
					cfg(d2)
				}
				if f2 := d2.ProveAt(s2, func(sn *Snap) *Formula { return g(s2, sn) }); f2 != nil {
					c.auditBad = append(c.auditBad, fmt.Sprintf("%s %s@%s: proven on summaries but not on the inline walk from %s: %s", r.Rule, s.Fn.Name, c.Prog.Pos(s.Node), s2.Fn.Name, f2.String()))
				}
			}
		}
		if f == nil {
			r.ok(lab + fmt.Sprintf(" — proven on %d path snapshot(s)", len(s.Snaps)))
		} else {
			construct := s.Fn.Name + "/" + siteWhat(s) + " via " + chainNames(f.Chain)
			r.fail(construct, c.Prog.Pos(s.Node), f.String())
		}
	}
}

// clusterSite re-records the site s by walking the root of its cluster (s.Fn, or the function a single-caller helper
// serves) with single-caller helpers inline; nil if that gives nothing new.
func (c *RC) clusterSite(s *Site) *Site {
	root := s.Fn
	for hop := 0; hop < 4 && c.A.inlinable(root); hop++ {
		cs := c.A.callers[root]
		if len(cs) != 1 || cs[0].Fn == root {
			break
		}
		root = cs[0].Fn
	}
	if c.clusterRec == nil {
		c.clusterRec = map[*FuncInfo]*Analysis{}
	}
	rec := c.clusterRec[root]
	if rec == nil {
		rec = c.inlineSites(root, false)
		c.clusterRec[root] = rec
	}
	for _, t := range rec.FnSites[s.Fn] {
		if t.Node == s.Node && t.Kind == s.Kind && t.Loc == s.Loc && t.Callee == s.Callee && len(t.Snaps) > 0 {
			cp := *t
			cp.Fn = root
			return &cp
		}
	}
	return nil
}

func siteWhat(s *Site) string {
	switch s.Kind {
	case "write":
		return "write:" + s.Loc
	case "index":
		return "index:" + s.Loc
	}
	return s.Callee
}

// chainNames reduces a witness chain to function names (stable under line changes).
func chainNames(chain []string) string {
	var out []string
	for _, c := range chain {
		n := c
		if i := strings.Index(n, "@"); i >= 0 {
			n = n[:i]
		}
		if len(out) == 0 || out[len(out)-1] != n {
			out = append(out, n)
		}
	}
	return strings.Join(out, "<-")
}

// ---- dispatch ----

type ruleFn func(c *RC) *RuleResult

var propertyRules = map[string][]ruleFn{}
var propertyExplain = map[string]string{}

func runProperty(repo, prop, tier, evid, knownPath string) int {
	start := time.Now()
	known, err := loadKnown(knownPath)
	if err != nil {
		fmt.Println("cannot read known findings:", err)
		return 2
	}
	registerExtras()
	rules, ok := propertyRules[prop]
	if !ok {
		fmt.Println("unknown property", prop)
		return 2
	}
	// watchdog: the analysis of today's tree takes seconds; a change that makes some enumeration explode must end in
	// a report, not in a check that never returns
	limit := 15 * time.Minute
	if tier == "thorough" {
		limit = 40 * time.Minute
	}
	go func() {
		time.Sleep(limit)
		r := &RuleResult{Rule: "UNDECIDED", Kind: "ENGINE", Doc: "every construct reachable from the API was classified by the engine"}
		r.fail("analysis-timeout", "", fmt.Sprintf("the analysis did not finish within %v on this tree (an enumeration explodes): nothing is decided", limit))
		os.Exit(finish(prop, tier, evid, known, []*RuleResult{r}, nil, "analysis timeout", start, nil))
	}()
	prog, err := loadProgram(repo, "", nil)
	if err != nil {
		r := &RuleResult{Rule: "LOAD", Kind: "LOAD", Doc: "the working tree loads and type-checks"}
		r.fail("load", "", err.Error())
		return finish(prop, tier, evid, known, []*RuleResult{r}, nil, "load failure", start, nil)
	}
	c := newRC(prog, tier)
	return runRules(c, prog, repo, prop, tier, evid, known, rules, start)
}

// runPropertiesShared (self-test tooling only, never a registered check): several properties on one loaded program and one
// walk of it; evidence goes to <evidDir>/<id>.json; the exit code is 1 if any of them reports a violation.
func runPropertiesShared(repo string, props []string, tier, evidDir, knownPath string) int {
	known, err := loadKnown(knownPath)
	if err != nil {
		fmt.Println("cannot read known findings:", err)
		return 2
	}
	registerExtras()
	go func() {
		time.Sleep(40 * time.Minute)
		fmt.Println("VIOLATION property=" + strings.Join(props, ",") + " replay=timeout")
		os.Exit(1)
	}()
	start := time.Now()
	prog, err := loadProgram(repo, "", nil)
	rc := 0
	if err != nil {
		for _, prop := range props {
			r := &RuleResult{Rule: "LOAD", Kind: "LOAD", Doc: "the working tree loads and type-checks"}
			r.fail("load", "", err.Error())
			if finish(prop, tier, evidDir+"/"+prop+".json", known, []*RuleResult{r}, nil, "load failure", start, nil) != 0 {
				rc = 1
			}
		}
		return rc
	}
	c := newRC(prog, tier)
	for _, prop := range props {
		rules, ok := propertyRules[prop]
		if !ok {
			fmt.Println("unknown property", prop)
			return 2
		}
		if runRules(c, prog, repo, prop, tier, evidDir+"/"+prop+".json", known, rules, time.Now()) != 0 {
			rc = 1
		}
	}
	return rc
}

func runRules(c *RC, prog *Program, repo, prop, tier, evid string, known *KnownFindings, rules []ruleFn, start time.Time) int {
	var results []*RuleResult
	for _, rf := range rules {
		func() {
			defer func() {
				if e := recover(); e != nil {
					r := &RuleResult{Rule: "PANIC", Kind: "ENGINE", Doc: "analyser panic"}
					r.fail("panic", "", fmt.Sprint(e))
					results = append(results, r)
				}
			}()
			t0 := time.Now()
			rr := rf(c)
			rr.Millis = time.Since(t0).Milliseconds()
			if os.Getenv("DBFTLINT_DEBUG_TIMES") != "" {
				fmt.Fprintf(os.Stderr, "TIME %s %s %dms\n", prop, rr.Rule, rr.Millis)
			}
			results = append(results, rr)
		}()
	}
	// undecided constructs in functions reachable from the API fail the check
	und := &RuleResult{Rule: "UNDECIDED", Kind: "ENGINE", Doc: "every construct reachable from the API was classified by the engine"}
	reach := c.reachableFromAPI()
	for _, u := range c.A.Undec {
		fnName := strings.SplitN(u.Where, " ", 2)[0]
		if fnName == "summaries" || reach[fnName] {
			und.fail("undecided:"+fnName+":"+u.Msg, u.Where, u.Msg)
		}
	}
	// cover what the build covers: no non-test source file of the module may be excluded from the analysed build
	for _, p := range prog.Pkgs {
		for _, f := range p.IgnoredFiles {
			if strings.HasSuffix(f, ".go") && !strings.HasSuffix(f, "_test.go") {
				und.fail("ignored-file:"+f[strings.LastIndex(f, "/")+1:], f, "source file is excluded from the default build configuration (build constraint) and was not analysed")
			}
		}
	}
	if len(und.Findings) == 0 {
		und.ok(fmt.Sprintf("%d functions reachable from the API entries, all statements and calls classified; no source file excluded from the build", len(reach)))
	}
	results = append(results, und)
	if tier == "thorough" && prop != "C20" {
		ai := &RuleResult{Rule: "AUDIT-INLINE", Kind: "AUDIT", Doc: "thorough tier: every guard obligation proven with callee summaries is proven again on the walk of its cluster root with single-caller helpers inline; the two strategies must agree"}
		ai.Sites = c.auditN
		for i, b := range c.auditBad {
			ai.fail(fmt.Sprintf("audit-inline/%d", i), "", b)
		}
		if len(c.auditBad) == 0 {
			ai.ok(fmt.Sprintf("%d guard obligations re-proven on the inline walk", c.auditN))
		}
		results = append(results, ai)
		t1 := time.Now()
		results = append(results, ruleSSAAudit(c))
		t2 := time.Now()
		results = append(results, thoroughReload(repo, prop, results)...)
		if os.Getenv("DBFTLINT_DEBUG_TIMES") != "" {
			fmt.Fprintf(os.Stderr, "TIME %s AUDIT-SSA %dms RELOAD %dms\n", prop, t2.Sub(t1).Milliseconds(), time.Since(t2).Milliseconds())
		}
	}
	nsites, nsnaps := 0, 0
	for _, ss := range c.A.FnSites {
		nsites += len(ss)
		for _, s := range ss {
			nsnaps += len(s.Snaps)
		}
	}
	var sends []string
	for _, s := range c.sendSites {
		sends = append(sends, fmt.Sprintf("%s@%s -> %s", s.Site.Fn.Name, c.Prog.Pos(s.Site.Node), strings.Join(s.Kinds, "|")))
	}
	units := map[string]interface{}{
		"packages": len(prog.Pkgs), "functions": prog.nFuncs, "sites": nsites, "path_snapshots": nsnaps,
		"summaries": len(c.A.sums), "typed_send_sites": sends,
	}
	if len(prog.Pkgs) != 6 {
		r := &RuleResult{Rule: "LOAD", Kind: "LOAD", Doc: "all six packages of the module are loaded"}
		r.fail("packages", "", fmt.Sprintf("expected 6 packages, loaded %d", len(prog.Pkgs)))
		results = append(results, r)
	}
	return finish(prop, tier, evid, known, results, units, propertyExplain[prop], start, nil)
}

func (c *RC) reachableFromAPI() map[string]bool {
	seen := map[*FuncInfo]bool{}
	var visit func(f *FuncInfo)
	visit = func(f *FuncInfo) {
		if seen[f] {
			return
		}
		seen[f] = true
		for _, s := range c.A.FnSites[f] {
			if s.Target != nil {
				visit(s.Target)
			}
		}
	}
	for _, f := range c.apiList {
		visit(f)
	}
	out := map[string]bool{}
	for f := range seen {
		out[f.Name] = true
	}
	return out
}

var _ = os.Exit

// thoroughReload re-runs the property's rules on a second build configuration (GOARCH=386, tag verif) and
// reports any rule whose verdict differs from the default configuration.
func thoroughReload(repo, prop string, base []*RuleResult) []*RuleResult {
	r := &RuleResult{Rule: "RELOAD-386", Kind: "AUDIT", Doc: "thorough tier: the same rules on GOARCH=386 with build tag verif give the same verdicts (covers build-constrained files)"}
	prog, err := loadProgram(repo, "verif", []string{"GOARCH=386"})
	if err != nil {
		r.fail("load-386", "", err.Error())
		return []*RuleResult{r}
	}
	c := newRC(prog, "thorough")
	baseF := map[string]int{}
	for _, b := range base {
		baseF[b.Rule] = len(b.Findings)
	}
	for _, rf := range propertyRules[prop] {
		func() {
			defer func() {
				if e := recover(); e != nil {
					r.fail("panic-386", "", fmt.Sprint(e))
				}
			}()
			res := rf(c)
			r.Sites++
			if len(res.Findings) == baseF[res.Rule] {
				r.ok(fmt.Sprintf("%s: same verdict on GOARCH=386/-tags verif (%d obligations)", res.Rule, res.Obligations))
			} else {
				for _, f := range res.Findings {
					r.fail("386:"+f.Rule+":"+f.Construct, f.Where, "only on GOARCH=386/-tags verif: "+f.Detail)
				}
			}
		}()
	}
	return []*RuleResult{r}
}

// enclosingFunc: the declared function whose body contains n.
func (c *RC) enclosingFunc(n ast.Node) *FuncInfo {
	if n == nil {
		return nil
	}
	for _, fn := range c.Prog.sortedFuncs() {
		if fn.Decl != nil && fn.Decl.Body != nil && fn.Decl.Body.Pos() <= n.Pos() && n.End() <= fn.Decl.Body.End() {
			return fn
		}
	}
	return nil
}
