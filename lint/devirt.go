package main

// Constant dispatch tables. A map-typed field of DBFT that is assigned exactly once, by the constructor, from a map
// literal with constant keys (directly or through a function that just returns the literal) is not state: it is a
// switch written as data. A lookup in such a table is walked as one branch per entry (with the key known) plus the
// "no such key" branch; a field of the looked-up entry is the literal's field; a call through the entry is a static call.

import (
	"go/ast"
	"go/types"
	"strconv"

	"golang.org/x/tools/go/types/typeutil"
)

type tblEntry struct {
	keyTerm *Term
	lit     *ast.CompositeLit // entry written as a struct literal (nil when the entry is the function itself)
	fn      ast.Expr          // entry written as a function
	owner   *FuncInfo         // function in which the literal is written (for diagnostics)
}

type dispatchTable struct {
	loc     string
	entries []*tblEntry
}

func (a *Analysis) dispatchTable(loc string) *dispatchTable {
	a.findTables()
	return a.tables[loc]
}

func (a *Analysis) findTables() {
	if a.tables != nil {
		return
	}
	a.tables = map[string]*dispatchTable{}
	a.entryOf = map[string]*tblEntry{}
	st := a.Prog.Structs["DBFT"]
	root := a.Prog.Pkgs[""]
	if st == nil || root == nil {
		return
	}
	info := root.TypesInfo
	for i := 0; i < st.NumFields(); i++ {
		f := st.Field(i)
		if _, ok := f.Type().Underlying().(*types.Map); !ok {
			continue
		}
		loc := "dbft." + a.Prog.fieldRole(f, f.Name())
		var inits []ast.Expr
		var initFn []*FuncInfo
		other := false
		for _, fn := range a.Prog.sortedFuncs() {
			if fn.Pkg != root {
				continue
			}
			ast.Inspect(fn.Decl.Body, func(n ast.Node) bool {
				switch x := n.(type) {
				case *ast.KeyValueExpr:
					if id, ok := x.Key.(*ast.Ident); ok && sameField(info.Uses[id], f) {
						inits = append(inits, x.Value)
						initFn = append(initFn, fn)
					}
				case *ast.AssignStmt:
					for j, l := range x.Lhs {
						l = ast.Unparen(l)
						if ix, ok := l.(*ast.IndexExpr); ok {
							l = ast.Unparen(ix.X)
							if sel, ok := l.(*ast.SelectorExpr); ok && sameField(info.Uses[sel.Sel], f) {
								other = true // an element store: the table is mutable
							}
							continue
						}
						if sel, ok := l.(*ast.SelectorExpr); ok && sameField(info.Uses[sel.Sel], f) {
							if j < len(x.Rhs) && len(x.Lhs) == len(x.Rhs) {
								inits = append(inits, x.Rhs[j])
								initFn = append(initFn, fn)
							} else {
								other = true
							}
						}
					}
				case *ast.CallExpr:
					if id, ok := x.Fun.(*ast.Ident); ok && (id.Name == "delete" || id.Name == "clear") && len(x.Args) > 0 {
						if sel, ok := ast.Unparen(x.Args[0]).(*ast.SelectorExpr); ok && sameField(info.Uses[sel.Sel], f) {
							other = true
						}
					}
				}
				return true
			})
		}
		if other || len(inits) != 1 || initFn[0].Name != "New" {
			continue
		}
		lit, owner := a.mapLiteral(inits[0], initFn[0])
		if lit == nil {
			continue
		}
		tb := &dispatchTable{loc: loc}
		okAll := true
		for _, el := range lit.Elts {
			kv, ok := el.(*ast.KeyValueExpr)
			if !ok {
				okAll = false
				break
			}
			tv, ok := info.Types[kv.Key]
			if !ok || tv.Value == nil {
				okAll = false
				break
			}
			var kt *Term
			switch k := ast.Unparen(kv.Key).(type) {
			case *ast.Ident:
				if c, ok := info.Uses[k].(*types.Const); ok {
					kt = constObjTerm(c)
				}
			case *ast.SelectorExpr:
				if c, ok := info.Uses[k.Sel].(*types.Const); ok {
					kt = constObjTerm(c)
				}
			}
			if kt == nil {
				kt = constTerm(tv.Value.ExactString())
			}
			e := &tblEntry{keyTerm: kt, owner: owner}
			switch v := ast.Unparen(kv.Value).(type) {
			case *ast.CompositeLit:
				e.lit = v
			case *ast.UnaryExpr:
				if cl, ok := v.X.(*ast.CompositeLit); ok {
					e.lit = cl
				} else {
					okAll = false
				}
			default:
				e.fn = v
			}
			tb.entries = append(tb.entries, e)
		}
		if okAll && len(tb.entries) > 0 {
			a.tables[loc] = tb
		}
	}
}

func sameField(o types.Object, f *types.Var) bool {
	v, ok := o.(*types.Var)
	return ok && v.Origin() == f.Origin()
}

// mapLiteral resolves e to a map literal: the literal itself, or the literal a called module function returns.
func (a *Analysis) mapLiteral(e ast.Expr, in *FuncInfo) (*ast.CompositeLit, *FuncInfo) {
	e = ast.Unparen(e)
	if cl, ok := e.(*ast.CompositeLit); ok {
		return cl, in
	}
	if call, ok := e.(*ast.CallExpr); ok && len(call.Args) == 0 {
		if fo, ok := typeutil.Callee(in.Pkg.TypesInfo, call).(*types.Func); ok {
			if t := a.Prog.Funcs[fo.Origin()]; t != nil && len(t.Decl.Body.List) == 1 {
				if rs, ok := t.Decl.Body.List[0].(*ast.ReturnStmt); ok && len(rs.Results) == 1 {
					if cl, ok := ast.Unparen(rs.Results[0]).(*ast.CompositeLit); ok {
						return cl, t
					}
				}
			}
		}
	}
	return nil, nil
}

// entryTerm is the value of the i-th entry of a table.
func (a *Analysis) entryTerm(tb *dispatchTable, i int) *Term {
	t := mkTerm(KLocal, "tbl:"+tb.loc+":"+strconv.Itoa(i))
	t.NonNil = true
	a.entryOf[t.S] = tb.entries[i]
	return t
}

// lookupTable expands base[key] over the entries of a constant table: (state, value, found) triples.
type tblRes struct {
	st    *State
	val   *Term
	found bool
}

func (w *Walker) lookupTable(tb *dispatchTable, key *Term, st *State) []tblRes {
	var out []tblRes
	miss := st.clone()
	missOK := true
	for i, e := range tb.entries {
		s := st.clone()
		l := Lit{mkAtom("eq", key, e.keyTerm), true}
		if s.F.add(l) {
			s.Trail = append(s.Trail, l.String())
			s.TrailL = append(s.TrailL, l)
			out = append(out, tblRes{s, w.A.entryTerm(tb, i), true})
		}
		if !miss.F.add(Lit{mkAtom("eq", key, e.keyTerm), false}) {
			missOK = false
		}
	}
	if missOK {
		z := mkTerm(KLocal, "tblmiss:"+tb.loc)
		out = append(out, tblRes{miss, z, false})
	}
	return out
}

// entryField evaluates a field of a table entry: the value written in the literal, or the zero value.
func (w *Walker) entryField(e *tblEntry, name string, ft types.Type, st *State) []evalRes {
	if e.lit != nil {
		for _, el := range e.lit.Elts {
			if kv, ok := el.(*ast.KeyValueExpr); ok {
				if id, ok := kv.Key.(*ast.Ident); ok && id.Name == name {
					if _, isFunc := ft.Underlying().(*types.Signature); isFunc {
						t := mkTerm(KLocal, "tblfn:"+strconv.Itoa(int(kv.Value.Pos())))
						t.NonNil = true
						w.A.fnExprOf[t.S] = kv.Value
						return []evalRes{{st, t}}
					}
					return w.eval(kv.Value, st)
				}
			}
		}
	}
	return []evalRes{{st, zeroTerm(ft)}}
}

// resolveFuncExpr: the module function a function-valued expression denotes, and whether its first argument is the
// receiver (method expression).
func (w *Walker) resolveFuncExpr(e ast.Expr) (*FuncInfo, bool) {
	e = ast.Unparen(e)
	info := w.A.Prog.Pkgs[""].TypesInfo
	switch x := e.(type) {
	case *ast.Ident:
		if fo, ok := info.Uses[x].(*types.Func); ok {
			return w.A.Prog.Funcs[fo.Origin()], false
		}
	case *ast.SelectorExpr:
		if s := info.Selections[x]; s != nil {
			if fo, ok := s.Obj().(*types.Func); ok {
				return w.A.Prog.Funcs[fo.Origin()], s.Kind() == types.MethodExpr
			}
		}
		if fo, ok := info.Uses[x.Sel].(*types.Func); ok {
			return w.A.Prog.Funcs[fo.Origin()], false
		}
	case *ast.IndexExpr: // instantiated generic function or method expression
		return w.resolveFuncExpr(x.X)
	case *ast.IndexListExpr:
		return w.resolveFuncExpr(x.X)
	}
	return nil, false
}
