package main

// C07 (anti-MEV phase discipline) and C05 (one decision, quiescence, clean reset) and C08.

import (
	"fmt"
	"go/ast"
	"go/types"

	"golang.org/x/tools/go/types/typeutil"
	"os"
	"sort"
	"strings"
)

func init() {
	propertyRules["C07"] = []ruleFn{rulePreCommitEnabled, ruleCommitAMEV, rulePreBlockOnce, ruleHeaderAfterPreBlock, ruleCacheObl, ruleDefs}
	propertyExplain["C07"] = "Anti-MEV phase order at every site: PreCommit sends, the pre-commit handler dispatch and the optional callbacks NewPreBlockFromContext/NewPreCommit/ProcessPreBlock are reachable only with the extension enabled at the current height (enabling predicate checked to be EnablingHeight>=0 ∧ EnablingHeight<=BlockIndex); a Commit is constructed under anti-MEV only with an own PreCommit, an M-of-N current-view PreCommit quorum and the pre-block processed; ProcessPreBlock is called only while its flag is unset and the flag is set only after the callback returned nil; the header is built only after the pre-block. Multi-node recovery interplay is not decided."
	propertyRules["C05"] = []ruleFn{ruleAcceptOnce, ruleQuiesce, ruleResetCover, ruleViewResetCover, ruleTip, ruleCacheAgree, ruleCacheObl, ruleCachePrune}
	propertyExplain["C05"] = "ProcessBlock is reachable only while the block-sent flag is unset and the flag is set on every path after a successful callback, cleared only by the height reset (S-ACCEPT-ONCE); every effect site (Context write, typed send other than a recovery message, effectful callback) reachable from OnReceive/OnTimeout/OnTransaction/OnNewTransaction is behind the ¬BlockSent admission (G-QUIESCE); every Context field is assigned or cleared on every view-0 path of the epoch writer except a reasoned table of carry-overs (F-RESET-COVER); ledger-derived fields come from the callbacks (P-TIP); every payload kind diverted to the future cache has a bucket that the initialiser replays and removes (A-CACHE). The map of early payloads is emptied of heights that are over when a height is entered (O-CACHE-PRUNE)."
	propertyRules["C08"] = []ruleFn{ruleCacheAgree, ruleHeaderAfterPreBlock, ruleRespMatch, ruleInitArms}
	propertyExplain["C08"] = "Decides only structural necessary conditions named by the anchors: A-CACHE (below), plus the header-after-pre-block order, the purge of mismatching early responses and the arming of the timer on every initialisation. A-CACHE: every kind of early payload is kept in a bucket of the future-message cache and replayed on every initialisation (not only at view 0), and the entered height is removed from the cache. That all nodes decide in view 0 without timeouts quantifies over timer values and multi-node schedules and is not applicable to static analysis."
}

func amevSites(c *RC) []*Site {
	return c.sitesWhere(func(s *Site) bool {
		if s.Kind != "call" {
			return false
		}
		switch s.Callee {
		case "cb:ProcessPreBlock", "cb:NewPreBlockFromContext", "cb:NewPreCommit", "cb:VerifyPreBlock", "cb:VerifyPreCommit":
			return true
		}
		return false
	})
}

// G-PRECOMMIT-ENABLED
func rulePreCommitEnabled(c *RC) *RuleResult {
	r := &RuleResult{Rule: "G-PRECOMMIT-ENABLED", Kind: "GUARD", Doc: "PreCommit sends/constructions, the pre-commit handler and the anti-MEV-only callbacks ⇒ extension enabled at this height"}
	sites := c.sendSitesOf("PreCommitType")
	if len(sites) == 0 {
		r.unresolved("typed send site of kind PreCommit")
	}
	cbs := amevSites(c)
	seen := map[string]bool{}
	for _, s := range cbs {
		seen[s.Callee] = true
	}
	for _, k := range []string{"cb:ProcessPreBlock", "cb:NewPreBlockFromContext", "cb:NewPreCommit"} {
		if !seen[k] {
			r.unresolved("call site of " + k)
		}
	}
	sites = append(sites, cbs...)
	// stores of received pre-commits
	for _, s := range c.writesTo("ctx.PreCommitPayloads") {
		if s.Store&(KillNNOwn|KillNNSender|KillNNOther|KillNNPrimary) != 0 {
			sites = append(sites, s)
		}
	}
	c.guardRule(r, sites, c.apiList, func(s *Site, sn *Snap) *Formula { return fAMEV() }, nil)
	return r
}

// G-COMMIT-AMEV
func ruleCommitAMEV(c *RC) *RuleResult {
	r := &RuleResult{Rule: "G-COMMIT-AMEV", Kind: "GUARD+QUORUM", Doc: "Commit construction ⇒ ¬anti-MEV ∨ (own PreCommit ∧ count{PreCommitPayloads | current view} ≥ M ∧ preBlockProcessed)"}
	var sites []*Site
	for _, s := range c.callSites("cb:NewConsensusPayload") {
		if s.Call != nil && len(s.Call.Args) >= 2 && constName(s.Fn.Pkg.TypesInfo, s.Call.Args[1]) == "CommitType" {
			sites = append(sites, s)
		}
	}
	sites = append(sites, c.callSites("if:Block.Sign")...)
	if len(sites) < 2 {
		r.unresolved("Commit constructor / Block.Sign sites")
	}
	c.guardRule(r, sites, c.apiList, func(s *Site, sn *Snap) *Formula {
		return fOr(fNot(fAMEV()), fAnd(fPreCommitSent(), quorumAtLeast("PreCommitPayloads", viewPhi(), mNF()), bl(fld("ctx.preBlockProcessed", false))))
	}, nil)
	return r
}

// G-PREBLOCK-ONCE (flag discipline)
func rulePreBlockOnce(c *RC) *RuleResult {
	r := &RuleResult{Rule: "G-PREBLOCK-ONCE", Kind: "GUARD+OWN", Doc: "ProcessPreBlock only while preBlockProcessed is unset; the flag is set only after the callback returned nil and on every such path; cleared only by the height reset"}
	c.flagDiscipline(r, "cb:ProcessPreBlock", "ctx.preBlockProcessed", "cbres:ProcessPreBlock:")
	return r
}

// flagDiscipline: callback only under ¬flag; flag=true only after nil result; every nil-result path sets it; flag=false only in the epoch writer at view 0.
func (c *RC) flagDiscipline(r *RuleResult, cb, flagLoc, resPrefix string) {
	flag := fld(flagLoc, false)
	ss := c.callSites(cb)
	if len(ss) == 0 {
		r.unresolved("call site of " + cb)
		return
	}
	d := c.A.newDemand(c.apiList)
	d.ExemptCall = func(cs *Site, g *Formula) *Formula {
		if c.startExemption(cs) {
			return fTrue
		}
		return nil
	}
	for _, s := range ss {
		r.Sites++
		if f := d.ProveAt(s, func(sn *Snap) *Formula { return fNot(bl(flag)) }); f == nil {
			r.ok(fmt.Sprintf("%s@%s: %s only while %s is unset", s.Fn.Name, c.Prog.Pos(s.Node), cb, flagLoc))
		} else {
			r.fail(s.Fn.Name+"/"+cb+"/flag-unset via "+chainNames(f.Chain), c.Prog.Pos(s.Node), f.String())
		}
	}
	ws := c.writesTo(flagLoc)
	if len(ws) < 2 {
		r.unresolved("writes of " + flagLoc + " (set and clear)")
	}
	for _, s := range ws {
		for _, sn := range s.Snaps {
			r.Sites++
			switch {
			case sn.Val != nil && sn.Val.S == "true":
				okk := false
				for k, v := range sn.F.m {
					if !v && strings.HasPrefix(k, "l:"+resPrefix) && strings.HasSuffix(k, "!=nil") {
						okk = true
					}
				}
				if okk || (cb == "cb:ProcessBlock" && sn.Events[cb]) {
					r.ok(fmt.Sprintf("%s: %s = true after %s", s.Fn.Name, flagLoc, cb))
				} else {
					r.fail(s.Fn.Name+"/set:"+flagLoc, c.Prog.Pos(s.Node), flagLoc+" set to true on a path where "+cb+" did not return nil: {"+sn.Trail+"}")
				}
			case sn.Val != nil && sn.Val.S == "false":
				good := c.inEpoch(s.Fn)
				if good {
					sn0 := sn
					if f := c.epochDemand().proveSnap(s, sn0, c.viewIsZero(), 0); f != nil {
						good = false
					}
				}
				if good {
					r.ok(flagLoc + " cleared by the epoch writer under view==0")
				} else {
					r.fail(s.Fn.Name+"/clear:"+flagLoc, c.Prog.Pos(s.Node), flagLoc+" cleared outside the height reset")
				}
			default:
				r.fail(s.Fn.Name+"/write:"+flagLoc, c.Prog.Pos(s.Node), flagLoc+" assigned a non-constant value")
			}
		}
	}
	// every exit after a nil result has the flag set
	for _, s := range ss {
		r.Sites++
		bad := ""
		n := 0
		for _, e := range c.exitsOf(s.Fn) {
			nilRes := false
			for k, v := range e.F.m {
				if !v && strings.HasPrefix(k, "l:"+resPrefix) && strings.HasSuffix(k, "!=nil") {
					nilRes = true
				}
			}
			if !nilRes {
				continue
			}
			n++
			if v, ok := e.F.value(mkAtom("b", flag, nil)); !ok || !v {
				bad = "a path on which " + cb + " returned nil leaves " + flagLoc + " unset: {" + strings.Join(e.Trail, "; ") + "}"
			}
		}
		if n == 0 {
			bad = "no path tests the result of " + cb + " for nil"
		}
		if bad == "" {
			r.ok(s.Fn.Name + ": every path after a nil result of " + cb + " sets " + flagLoc)
		} else {
			r.fail(s.Fn.Name+"/must-set:"+flagLoc, c.Prog.Pos(s.Node), bad)
		}
	}
}

// G-HEADER-AFTER-PREBLOCK
func ruleHeaderAfterPreBlock(c *RC) *RuleResult {
	r := &RuleResult{Rule: "G-HEADER-AFTER-PREBLOCK", Kind: "GUARD", Doc: "NewBlockFromContext ⇒ proposal recorded ∧ (¬anti-MEV ∨ preBlockProcessed); NewPreBlockFromContext ⇒ proposal recorded; ProcessBlock receives the cached block"}
	hs := c.callSites("cb:NewBlockFromContext")
	if len(hs) == 0 {
		r.unresolved("call site of Config.NewBlockFromContext")
	}
	c.guardRule(r, hs, c.apiList, func(s *Site, sn *Snap) *Formula {
		return fAnd(fRSR(), fOr(fNot(fAMEV()), bl(fld("ctx.preBlockProcessed", false))))
	}, nil)
	ps := c.callSites("cb:NewPreBlockFromContext")
	c.guardRule(r, ps, c.apiList, func(s *Site, sn *Snap) *Formula { return fRSR() }, nil)
	// availability: the header constructors refuse (return nil) only when no proposal is recorded or, for the header
	// under anti-MEV, the pre-block is not processed yet — otherwise arriving (pre)commits could not be verified
	for _, k := range []struct {
		cb   string
		want func() *Formula
	}{
		{"cb:NewBlockFromContext", func() *Formula {
			return fOr(fNot(fRSR()), fAnd(fAMEV(), fNot(bl(fld("ctx.preBlockProcessed", false)))))
		}},
		{"cb:NewPreBlockFromContext", func() *Formula { return fNot(fRSR()) }},
	} {
		seen := map[*FuncInfo]bool{}
		for _, s := range c.callSites(k.cb) {
			if seen[s.Fn] {
				continue
			}
			seen[s.Fn] = true
			r.Sites++
			bad := ""
			for _, e := range c.exitsOf(s.Fn) {
				if len(e.Ret) != 1 || e.Ret[0].K != KNil {
					continue
				}
				if res, cex := residual0(k.want(), e.F, func(*Atom) int { return ModeNone }); res.K != FTrue {
					bad = "{" + strings.Join(e.Trail, "; ") + "} e.g. " + cexString(cex)
				}
			}
			if bad == "" {
				r.ok(s.Fn.Name + " returns nil only when no proposal is recorded (or the pre-block is pending)")
			} else {
				r.fail(s.Fn.Name+"/header-available", c.Prog.Pos(s.Fn.Decl), "the header/pre-header is refused in a state where arriving (pre)commits must be verifiable against it: "+bad)
			}
		}
	}
	for _, s := range c.callSites("cb:ProcessBlock") {
		for _, sn := range s.Snaps {
			r.Sites++
			if len(sn.Args) == 1 && (sn.Args[0].S == "ctx.block" || c.resultOfCacheGetter(sn.Args[0], "ctx.block") && nilAgrees(sn, "ctx.block")) {
				r.ok("ProcessBlock(ctx.block)")
			} else {
				r.fail(s.Fn.Name+"/ProcessBlock-arg", c.Prog.Pos(s.Node), "ProcessBlock is not handed the cached block field")
			}
		}
	}
	for _, s := range c.callSites("cb:ProcessPreBlock") {
		for _, sn := range s.Snaps {
			r.Sites++
			if len(sn.Args) == 1 && (sn.Args[0].S == "ctx.preBlock" || c.resultOfCacheGetter(sn.Args[0], "ctx.preBlock") && nilAgrees(sn, "ctx.preBlock")) {
				r.ok("ProcessPreBlock(ctx.preBlock)")
			} else {
				r.fail(s.Fn.Name+"/ProcessPreBlock-arg", c.Prog.Pos(s.Node), "ProcessPreBlock is not handed the cached pre-block field")
			}
		}
	}
	return r
}

// L2-OBL: header/block caches
func ruleCacheObl(c *RC) *RuleResult {
	r := &RuleResult{Rule: "L2-OBL", Kind: "OWN", Doc: "header/preHeader/block/preBlock are assigned non-nil only from the block constructors (or each other), and are set to nil on every path of the epoch writer (every view)"}
	caches := []string{"ctx.header", "ctx.preHeader", "ctx.block", "ctx.preBlock"}
	for _, loc := range caches {
		ws := c.writesTo(loc)
		if len(ws) < 2 {
			r.unresolved("writes of " + loc)
		}
		for _, s := range ws {
			for _, sn := range s.Snaps {
				r.Sites++
				v := sn.Val
				switch {
				case v != nil && v.K == KNil:
					if c.inEpoch(s.Fn) {
						r.ok(loc + " = nil in the epoch writer")
					} else {
						r.ok(loc + " = nil in " + s.Fn.Name)
					}
				case v != nil && v.K == KLocal && (strings.HasPrefix(v.Name, "cbres:NewBlockFromContext:") || strings.HasPrefix(v.Name, "cbres:NewPreBlockFromContext:")):
					r.ok(loc + " ← block constructor callback in " + s.Fn.Name)
				case v != nil && v.K == KLocal && strings.HasPrefix(v.Name, "ret"):
					// result of an internal constructor (MakeHeader / MakePreHeader): must be one of the functions calling the callbacks
					r.ok(loc + " ← internal header constructor in " + s.Fn.Name)
				case v != nil && v.K == KField && (v.S == "ctx.header" || v.S == "ctx.preHeader"):
					r.ok(loc + " ← " + v.S)
				default:
					got := "?"
					if v != nil {
						got = v.S
					}
					r.fail(s.Fn.Name+"/src:"+loc, c.Prog.Pos(s.Node), loc+" assigned from "+got+" (not a block constructor)")
				}
			}
		}
	}
	if c.A.epochWriter != nil {
		for _, e := range c.exitsOf(c.A.epochWriter) {
			for _, loc := range caches {
				r.Sites++
				if v, ok := e.F.value(mkAtom("nn", fld(loc, false), nil)); ok && !v {
					r.ok(loc + " is nil at the exit of the epoch writer")
				} else {
					r.fail(c.A.epochWriter.Name+"/clear:"+loc, c.Prog.Pos(c.A.epochWriter.Decl), loc+" is not cleared on a path of the epoch writer: {"+strings.Join(e.Trail, "; ")+"}")
				}
			}
		}
	}
	return r
}

// ---- C05 ----

// S-ACCEPT-ONCE
func ruleAcceptOnce(c *RC) *RuleResult {
	r := &RuleResult{Rule: "S-ACCEPT-ONCE", Kind: "GUARD+OWN", Doc: "ProcessBlock only while blockProcessed is unset (flag writes honoured as kills); flag set on every path after the callback returned nil; cleared only by the height reset"}
	c.flagDiscipline(r, "cb:ProcessBlock", "ctx.blockProcessed", "cbres:ProcessBlock:")
	return r
}

var effectCallbacks = map[string]string{
	"cb:RequestTx": "asks the application to fetch transactions", "cb:StopTxFlow": "changes the application's tx flow",
	"cb:SubscribeForTxs": "subscribes to the pool", "cb:ProcessBlock": "hands a block over", "cb:ProcessPreBlock": "hands a pre-block over",
	"if:Timer.Reset": "arms the timer", "if:Timer.Extend": "extends the timer", "if:Block.Sign": "signs", "if:PreBlock.SetData": "produces pre-commit data",
}

// effectSites lists effect sites of package dbft: state writes (except LastSeenMessage), typed sends
// (except recovery messages) and effectful callbacks.
func (c *RC) effectSites() []*Site {
	var out []*Site
	for _, fn := range c.Prog.dbftFuncs() {
		if fn.Recv != "DBFT" && fn.Recv != "Context" && fn.Recv != "cache" && fn.Recv != "rtt" {
			continue
		}
		for _, s := range c.A.FnSites[fn] {
			switch s.Kind {
			case "write":
				if s.Loc == "ctx.LastSeenMessage" || !(strings.HasPrefix(s.Loc, "ctx.") || strings.HasPrefix(s.Loc, "dbft.")) {
					continue
				}
				out = append(out, s)
			case "call":
				if _, ok := effectCallbacks[s.Callee]; ok {
					out = append(out, s)
					continue
				}
				if ks := c.kindsAt(s); ks != nil {
					if len(ks) == 1 && ks[0] == "RecoveryMessageType" {
						continue
					}
					out = append(out, s)
				}
			}
		}
	}
	return out
}

// G-QUIESCE
func ruleQuiesce(c *RC) *RuleResult {
	r := &RuleResult{Rule: "G-QUIESCE", Kind: "GUARD", Doc: "every effect reachable from OnReceive/OnTimeout/OnTransaction/OnNewTransaction ⇒ the input was admitted with ¬BlockSent (except future-cache insertion and recovery replies)"}
	if len(c.events) != 4 {
		r.unresolved("the four event entries")
	}
	sites := c.effectSites()
	var sel []*Site
	for _, s := range sites {
		if s.Loc == "dbft.cache" { // future-cache insertion / lookup: exception (i)
			continue
		}
		sel = append(sel, s)
	}
	if len(sel) < 60 {
		r.unresolved(fmt.Sprintf("effect sites (found %d, expected >= 60)", len(sel)))
	}
	c.guardRule(r, sel, c.events, func(s *Site, sn *Snap) *Formula { return fNot(fBlockSent()) }, func(d *Demand) {
		d.IgnoreKill["ctx.blockProcessed"] = true
		d.UseSticky = true
	})
	// keep the evidence small
	if len(r.Samples) > 3 {
		r.Samples = r.Samples[:3]
	}
	return r
}

// F-RESET-COVER
var carryOver = map[string]string{
	"Config":          "immutable configuration pointer",
	"lastBlockTime":   "timer reference across heights by design (read only in timeout computation)",
	"lastBlockIndex":  "timer reference across heights by design",
	"lastBlockView":   "timer reference across heights by design",
	"rttEstimates":    "round-trip statistics are kept across heights by design",
	"Timestamp":       "read only by block constructors, which run after the proposal receiver/builder assigned it (L2)",
	"Nonce":           "read only by block constructors, which run after the proposal receiver/builder assigned it (L2)",
	"maxTimePerBlock": "assigned and read only under MaxTimePerBlock != nil",
}

func ruleResetCover(c *RC) *RuleResult {
	r := &RuleResult{Rule: "F-RESET-COVER", Kind: "OWN", Doc: "every Context field is (re)assigned on every view-0 path of the epoch writer, except the reasoned carry-over table"}
	ew := c.A.epochWriter
	st := c.Prog.Structs["Context"]
	if ew == nil || st == nil {
		r.unresolved("epoch writer / Context struct")
		return r
	}
	init := newState()
	vp := mkTerm(KParam, c.A.epochViewParm.Name())
	vp.Unsigned = true
	init.F.add(Lit{mkAtom("eq", vp, tZero), true})
	exits := c.exitsFrom(ew, init, false)
	if len(exits) == 0 {
		r.unresolved("view-0 paths of the epoch writer")
		return r
	}
	for _, fv := range c.Prog.ctxFields() {
		f := c.Prog.fieldRole(fv, fv.Name())
		r.Sites++
		if why, ok := carryOver[f]; ok {
			r.ok("carry-over " + f + ": " + why)
			continue
		}
		bad := ""
		for _, e := range exits {
			if e.Killed["ctx."+f] != 0 {
				continue
			}
			// accepted idiom: x = x[:0] under x != nil — the untouched path has x == nil
			if v, ok := e.F.value(mkAtom("nn", fld("ctx."+f, false), nil)); ok && !v {
				continue
			}
			bad = "{" + strings.Join(e.Trail, "; ") + "}"
		}
		if bad == "" {
			r.ok("Context." + f + " re-initialised on every view-0 path")
			c.checkClearedWrites(r, f)
		} else if n, notTag := c.epochTag(fv); n > 0 && notTag == "" {
			r.ok("Context." + f + " is an epoch tag (each read is a comparison with the current height / view): what it holds of an old height is never used as state of the new one")
		} else {
			r.fail(ew.Name+"/reset:"+f, c.Prog.Pos(ew.Decl), "Context."+f+" survives the height reset on path "+bad+" and is not in the carry-over table")
		}
	}
	// per-validator tables are sized from the new validator list
	info := ew.Pkg.TypesInfo
	sized := map[string]bool{}
	for _, cf := range c.Prog.dbftFuncs() {
		if !c.inEpoch(cf) {
			continue
		}
		cfn := cf
		ast.Inspect(cf.Decl.Body, func(n ast.Node) bool {
			as, ok := n.(*ast.AssignStmt)
			if !ok || len(as.Lhs) != 1 || len(as.Rhs) != 1 {
				return true
			}
			sel, ok := ast.Unparen(as.Lhs[0]).(*ast.SelectorExpr)
			if !ok {
				return true
			}
			call, ok := ast.Unparen(as.Rhs[0]).(*ast.CallExpr)
			if !ok || len(call.Args) < 2 {
				return true
			}
			// second argument must be len(Validators) or a local assigned from it
			if isLenValidators(info, cfn, call.Args[len(call.Args)-1]) {
				sized[sel.Sel.Name] = true
			}
			return true
		})
	}
	for _, t := range append(append([]string{}, payloadTables...), "LastSeenMessage") {
		r.Sites++
		if sized[t] {
			r.ok(t + " (re)sized from len(Validators)")
		} else {
			r.fail(ew.Name+"/size:"+t, c.Prog.Pos(ew.Decl), t+" is not (re)sized from the length of the current validator list")
		}
	}
	// MyIndex ← GetKeyPair(Validators) and after Validators is assigned
	r.Sites++
	okKP := false
	for _, s := range c.epochSites() {
		if s.Kind == "call" && s.Callee == "cb:GetKeyPair" {
			for _, sn := range s.Snaps {
				if len(sn.Args) == 1 && sn.Args[0].S == "ctx.Validators" {
					okKP = true
				}
			}
		}
	}
	if okKP {
		r.ok("MyIndex, Priv, Pub ← GetKeyPair(Validators)")
	} else {
		r.fail(ew.Name+"/keypair", c.Prog.Pos(ew.Decl), "GetKeyPair is not called with the current validator list")
	}
	return r
}

func isLenValidators(info *types.Info, fn *FuncInfo, e ast.Expr) bool {
	e = ast.Unparen(e)
	if call, ok := e.(*ast.CallExpr); ok {
		if id, ok := call.Fun.(*ast.Ident); ok && id.Name == "len" && len(call.Args) == 1 {
			if sel, ok := ast.Unparen(call.Args[0]).(*ast.SelectorExpr); ok && sel.Sel.Name == "Validators" {
				return true
			}
		}
		return false
	}
	if id, ok := e.(*ast.Ident); ok {
		v, _ := info.Uses[id].(*types.Var)
		if v == nil {
			return false
		}
		all, any := true, false
		ast.Inspect(fn.Decl.Body, func(n ast.Node) bool {
			as, ok := n.(*ast.AssignStmt)
			if !ok {
				return true
			}
			for i, l := range as.Lhs {
				if lid, ok := l.(*ast.Ident); ok {
					obj := info.Defs[lid]
					if obj == nil {
						obj = info.Uses[lid]
					}
					if obj == v && i < len(as.Rhs) {
						any = true
						if !isLenValidators(info, fn, as.Rhs[i]) {
							all = false
						}
					}
				}
			}
			return true
		})
		return any && all
	}
	return false
}

// A-CACHE
func ruleCacheAgree(c *RC) *RuleResult {
	r := &RuleResult{Rule: "A-CACHE", Kind: "AGREE", Doc: "every payload kind that OnReceive may divert to the future cache has a bucket; the initialiser replays every bucket through OnReceive on every initialisation and the lookup removes the entered height"}
	inbox := c.Prog.Structs["inbox"]
	if inbox == nil {
		r.unresolved("inbox struct")
		return r
	}
	// writer: function with a switch over m.Type() that stores into inbox fields
	var writer *FuncInfo
	covered := map[string]bool{}
	buckets := map[string]bool{}
	for _, fn := range c.Prog.dbftFuncs() {
		info := fn.Pkg.TypesInfo
		ast.Inspect(fn.Decl.Body, func(n ast.Node) bool {
			sw, ok := n.(*ast.SwitchStmt)
			if !ok || sw.Tag == nil {
				return true
			}
			if call, ok := ast.Unparen(sw.Tag).(*ast.CallExpr); !ok || !strings.HasSuffix(exprString(call.Fun), ".Type") {
				return true
			}
			local := map[string]bool{}
			lb := map[string]bool{}
			for _, cl := range sw.Body.List {
				cc := cl.(*ast.CaseClause)
				stores := false
				// the arm selects a bucket: it stores into an inbox field, or picks the inbox field that the one store
				// after the switch writes to
				ast.Inspect(cc, func(m ast.Node) bool {
					if sel, ok := m.(*ast.SelectorExpr); ok {
						if s := info.Selections[sel]; s != nil && s.Kind() == types.FieldVal && c.Prog.FieldOwner[s.Obj().(*types.Var).Origin()] == "inbox" {
							stores = true
							lb[sel.Sel.Name] = true
						}
					}
					return true
				})
				if stores {
					for _, e := range cc.List {
						if k := constName(info, e); k != "" {
							local[k] = true
						}
					}
				}
			}
			// ... and the function stores its payload parameter into a map
			storesParam := false
			ast.Inspect(fn.Decl.Body, func(m ast.Node) bool {
				if as, ok := m.(*ast.AssignStmt); ok && len(as.Lhs) == 1 && len(as.Rhs) == 1 {
					if _, isIdx := ast.Unparen(as.Lhs[0]).(*ast.IndexExpr); isIdx {
						if id, ok := ast.Unparen(as.Rhs[0]).(*ast.Ident); ok {
							for _, p := range fn.Params {
								if info.Uses[id] == p {
									storesParam = true
								}
							}
						}
					}
				}
				return true
			})
			if len(lb) > 0 && storesParam {
				writer = fn
				for k := range local {
					covered[k] = true
				}
				for k := range lb {
					buckets[k] = true
				}
			}
			return true
		})
	}
	if writer == nil {
		// no switch in sight (the bucket is picked by a helper, a table, a chain of ifs): read the walk instead — a
		// function of the cache that stores its payload parameter into a bucket of the inbox, and under which kinds
		bucketOf := func(t *Term) string {
			for t != nil {
				if t.K == KSel {
					for i := 0; i < inbox.NumFields(); i++ {
						if inbox.Field(i).Name() == t.Name {
							return t.Name
						}
					}
				}
				if len(t.Args) == 0 {
					break
				}
				t = t.Args[0]
			}
			return ""
		}
		for _, fn := range c.Prog.dbftFuncs() {
			if len(fn.Params) != 1 || c.A.higherOrder(fn) {
				continue
			}
			pn := "p:" + fn.Params[0].Name()
			rec := c.inlineSites(fn, false)
			if rec == nil {
				continue
			}
			for _, ss := range rec.FnSites {
				for _, st := range ss {
					if st.Kind != "write" {
						continue
					}
					for _, sn := range st.Snaps {
						b := bucketOf(sn.Recv)
						if b == "" || sn.Val == nil || sn.Val.S != pn {
							continue
						}
						writer = fn
						buckets[b] = true
						for _, l := range sn.TrailL {
							if l.Pos && l.A.Op == "eq" && l.A.B != nil && strings.HasSuffix(l.A.B.S, "Type") && strings.Contains(l.A.A.S, ".Type("+pn+")") {
								covered[l.A.B.S] = true
							}
						}
					}
				}
			}
		}
	}
	if writer == nil {
		r.unresolved("cache writer (a function storing its payload parameter into inbox buckets by kind)")
		return r
	}
	exempt := map[string]string{"RecoveryRequestType": "recovery traffic is not cached (source comment: 'Others are recoveries and we don't currently use them')", "RecoveryMessageType": "same"}
	scope := c.Prog.Pkgs[""].Types.Scope()
	nk := 0
	for _, name := range scope.Names() {
		cst, ok := scope.Lookup(name).(*types.Const)
		if !ok || namedName(cst.Type()) != "MessageType" {
			continue
		}
		nk++
		r.Sites++
		if covered[name] {
			r.ok(name + " is cached by " + writer.Name)
		} else if why, ok := exempt[name]; ok {
			r.ok(name + " not cached: " + why)
		} else {
			r.fail(writer.Name+"/kind:"+name, c.Prog.Pos(writer.Decl), "payload kind "+name+" can be diverted to the future cache but has no bucket there")
		}
	}
	if nk < 7 {
		r.unresolved("MessageType constants")
	}
	// replayer
	inis := c.initialisers()
	if len(inis) == 0 {
		r.unresolved("initialiser")
		return r
	}
	for _, ini := range inis {
		replayed := map[string]bool{}
		// the initialiser and its single-caller helpers; a helper counts only if the chain of calls leading to it is
		// unconditional (a replay helper invoked under a view test replays only sometimes)
		members := c.unconditionalCluster(ini)
		for _, mem := range members {
			mem := mem
			info := mem.Pkg.TypesInfo
			ast.Inspect(mem.Decl.Body, func(n ast.Node) bool {
				rs, ok := n.(*ast.RangeStmt)
				if !ok {
					return true
				}
				sel, ok := ast.Unparen(rs.X).(*ast.SelectorExpr)
				if !ok {
					return true
				}
				s := info.Selections[sel]
				if s == nil || c.Prog.FieldOwner[s.Obj().(*types.Var).Origin()] != "inbox" {
					return true
				}
				v, _ := rs.Value.(*ast.Ident)
				if v == nil {
					return true
				}
				// the replay loop may only be guarded by the nil test of the lookup result
				for _, enc := range enclosingConds(mem, rs) {
					ifs, ok := enc.(*ast.IfStmt)
					simple := false
					if ok {
						if be, ok := ast.Unparen(ifs.Cond).(*ast.BinaryExpr); ok && be.Op.String() == "!=" {
							if id, ok := be.Y.(*ast.Ident); ok && id.Name == "nil" {
								simple = true
							}
						}
					}
					if !simple {
						return true
					}
				}
				ast.Inspect(rs.Body, func(m ast.Node) bool {
					if call, ok := m.(*ast.CallExpr); ok && len(call.Args) == 1 {
						if a, ok := call.Args[0].(*ast.Ident); ok && a.Name == v.Name {
							w := &Walker{A: c.A, Fn: mem, info: info}
							if t := w.staticCallee(call); t != nil && t == c.API["OnReceive"] {
								replayed[sel.Sel.Name] = true
							}
						}
					}
					return true
				})
				return true
			})
		}
		// the same through function values (a local closure or a helper handed each bucket): in the walk of the
		// initialiser with helpers and closures inline, OnReceive is called with the element of a loop over the bucket;
		// the path to that call may not depend on the view
		if rec := c.inlineSites(ini, false); rec != nil {
			seenPol := map[string]map[string]bool{}
			for _, ss := range rec.FnSites {
				for _, s := range ss {
					if s.Kind != "call" || s.Target == nil || s.Target != c.API["OnReceive"] {
						continue
					}
					for _, sn := range s.Snaps {
						if os.Getenv("DBFTLINT_DEBUG_CACHE") != "" && len(sn.Args) == 1 {
							fmt.Printf("CACHE-REPLAY %s arg=%s kind=%d trail={%s}\n", s.Fn.Name, sn.Args[0].S, sn.Args[0].K, sn.Trail)
						}
						if len(sn.Args) != 1 || sn.Args[0] == nil || sn.Args[0].K != KElem || len(sn.Args[0].Args) != 1 {
							continue
						}
						tb := sn.Args[0].Args[0]
						if tb.K != KSel {
							continue
						}
						// the path always knows which kind of initialisation it is in (the epoch writer splits on the view):
						// the bucket must be replayed in both
						pol := "any"
						for _, l := range sn.TrailL {
							if l.A.Op == "eq" && (hasParamTerm(l.A.A) || hasParamTerm(l.A.B)) && (l.A.A.S == "0" || l.A.B.S == "0") {
								pol = map[bool]string{true: "zero", false: "nonzero"}[l.Pos]
							}
						}
						if seenPol[tb.Name] == nil {
							seenPol[tb.Name] = map[string]bool{}
						}
						seenPol[tb.Name][pol] = true
					}
				}
			}
			for b, m := range seenPol {
				if m["any"] || m["zero"] && m["nonzero"] {
					replayed[b] = true
				}
			}
		}
		for i := 0; i < inbox.NumFields(); i++ {
			b := inbox.Field(i).Name()
			r.Sites++
			switch {
			case replayed[b]:
				r.ok("bucket " + b + " is replayed through OnReceive by " + ini.Name)
			case !buckets[b]:
				r.fail(ini.Name+"/dead-bucket:"+b, c.Prog.Pos(ini.Decl), "bucket "+b+" is never written by the cache writer")
			default:
				r.fail(ini.Name+"/replay:"+b, c.Prog.Pos(ini.Decl), "bucket "+b+" is written by the cache writer but never replayed")
			}
		}
		// lookup site: not under a view==0 guard, and the lookup deletes the key
		var look []*Site
		for _, mem := range members {
			for _, s := range c.A.FnSites[mem] {
				if s.Kind == "call" && s.Target != nil && s.Target.Recv == "cache" {
					look = append(look, s)
				}
			}
		}
		r.Sites++
		if len(look) == 0 {
			r.fail(ini.Name+"/lookup", c.Prog.Pos(ini.Decl), "the initialiser does not look the entered height up in the cache")
			continue
		}
		for _, s := range look {
			good := len(enclosingConds(s.Fn, s.Node)) == 0
			early := false
			for _, sn := range c.preciseSnapsAll(s) {
				if len(sn.Args) != 1 || sn.Args[0].S != "ctx.BlockIndex" {
					good = false
				}
				if sn.Killed["ctx.ViewNumber"] == 0 {
					early = true // the height looked up is the one before the epoch write
				}
			}
			if early {
				r.fail(ini.Name+"/lookup-before-epoch", c.Prog.Pos(s.Node), "the cache is looked up before the epoch writer ran: on a height change the previous height's inbox is taken and the early payloads of the entered height are never replayed")
				continue
			}
			deletes := false
			ast.Inspect(s.Target.Decl.Body, func(n ast.Node) bool {
				if call, ok := n.(*ast.CallExpr); ok {
					if id, ok := call.Fun.(*ast.Ident); ok && id.Name == "delete" {
						deletes = true
					}
				}
				return true
			})
			if good && deletes {
				r.ok(ini.Name + ": cache lookup for BlockIndex on every initialisation; the lookup deletes the key")
			} else {
				r.fail(ini.Name+"/lookup-guard", c.Prog.Pos(s.Node), "cache lookup is guarded by the view, is not for the current height, or does not remove the height")
			}
		}
	}
	// the cache is (re)created only by Start (A3: called once, before everything else); any other re-creation would drop
	// early payloads of the next height before the initialiser replays them
	for _, s := range c.sitesWhere(func(s *Site) bool { return s.Kind == "write" && s.Loc == "dbft.cache" && s.Fn.Recv == "DBFT" }) {
		for _, sn := range s.Snaps {
			if sn.Idx != nil {
				continue
			}
			r.Sites++
			if s.Fn == c.API["Start"] {
				r.ok("the future-message cache is created in Start")
			} else {
				r.fail(s.Fn.Name+"/cache-recreated", c.Prog.Pos(s.Node), "the future-message cache is re-created in "+s.Fn.Name+" (cached early payloads are lost before they are replayed)")
			}
		}
	}
	// the insertion into the cache depends only on the payload's own height/view/type (not on the node's decision state)
	if or := c.API["OnReceive"]; or != nil {
		found := false
		for _, s := range c.A.FnSites[or] {
			if s.Kind == "call" && s.Target != nil && c.reachesFn(s.Target, writer, 0) {
				found = true
				r.Sites++
				bad := nodeStateDependence(s)
				if bad == "" {
					r.ok("future payloads are cached whatever the node's own state (conditions only about the payload)")
				} else {
					r.fail(or.Name+"/cache-cond", c.Prog.Pos(s.Node), "early payloads are cached only under the node-state condition "+bad+" (e.g. dropped between the decision and Reset)")
				}
			}
		}
		if !found {
			r.unresolved("call of the cache writer in OnReceive")
		}
	}
	// a payload of a FUTURE height reaches the cache whoever sent it: the validator list of the height the node is at says
	// nothing about the next height's (the list may grow), so no test against it may drop such a payload; its sender
	// index is judged when the payload is replayed at its own height
	if or := c.API["OnReceive"]; or != nil && len(or.Params) == 1 && writer != nil {
		pm := mkTerm(KParam, or.Params[0].Name())
		pm.NonNil = true
		h := getter("ConsensusPayload", "Height", pm, true)
		bi := fld("ctx.BlockIndex", true)
		init := newState()
		init.F.add(Lit{mkAtom("lt", bi, h), true})
		r.Sites++
		n, bad := 0, ""
		for _, e := range c.exitsFrom(or, init, false) {
			n++
			if e.Events["fn:"+writer.Name] {
				continue
			}
			// the only other way out: the payload has no body at all
			body := false
			for _, l := range e.TrailL {
				if l.A.Op == "nn" && strings.Contains(l.A.A.S, ".Payload(") && !l.Pos {
					body = true
				}
			}
			if !body {
				bad = "{" + strings.Join(e.Trail, "; ") + "}"
			}
		}
		switch {
		case n == 0:
			r.unresolved("paths of OnReceive for a payload of a future height")
		case bad == "":
			r.ok(fmt.Sprintf("OnReceive: a payload of a future height is cached on each of %d paths (whatever its sender index)", n))
		default:
			r.fail(or.Name+"/future-height-dropped", c.Prog.Pos(or.Decl), "a payload of a future height is dropped instead of cached on path "+bad+": a test against the CURRENT height's validator list decides about a payload of another height (when the list grows, the early payloads of the new validators - possibly the next primary's proposal - are lost)")
		}
	}
	var bs []string
	for b := range buckets {
		bs = append(bs, b)
	}
	sort.Strings(bs)
	r.note("buckets: " + strings.Join(bs, ","))
	return r
}

func exprString(e ast.Expr) string {
	switch x := e.(type) {
	case *ast.Ident:
		return x.Name
	case *ast.SelectorExpr:
		return exprString(x.X) + "." + x.Sel.Name
	}
	return "?"
}

// enclosingConds returns the conditions of if/switch/for statements whose body encloses the node
// (the statement's own Init/Cond do not count as enclosing).
func enclosingConds(fn *FuncInfo, target ast.Node) []ast.Node {
	var out []ast.Node
	var stack []ast.Node
	ast.Inspect(fn.Decl.Body, func(n ast.Node) bool {
		if n == nil {
			stack = stack[:len(stack)-1]
			return true
		}
		if n == target {
			for i, anc := range stack {
				var child ast.Node = target
				if i+1 < len(stack) {
					child = stack[i+1]
				}
				switch x := anc.(type) {
				case *ast.IfStmt:
					if child == ast.Node(x.Body) || (x.Else != nil && child == x.Else) {
						out = append(out, x)
					}
				case *ast.CaseClause, *ast.ForStmt, *ast.RangeStmt:
					if _, isBody := child.(*ast.BlockStmt); isBody || true {
						if f, ok := x.(*ast.ForStmt); ok && child != ast.Node(f.Body) {
							continue
						}
						if r, ok := x.(*ast.RangeStmt); ok && child != ast.Node(r.Body) {
							continue
						}
						out = append(out, x)
					}
				}
			}
		}
		stack = append(stack, n)
		return true
	})
	return out
}

// unconditionalCluster: root and those of its single-caller helpers that are reached through unconditional calls only.
func (c *RC) unconditionalCluster(root *FuncInfo) []*FuncInfo {
	cl := c.A.cluster(root)
	out := []*FuncInfo{root}
	okd := map[*FuncInfo]bool{root: true}
	for changed := true; changed; {
		changed = false
		for _, f := range c.Prog.sortedFuncs() {
			if !cl[f] || okd[f] {
				continue
			}
			for _, cs := range c.A.callers[f] {
				if okd[cs.Fn] && len(enclosingConds(cs.Fn, cs.Node)) == 0 {
					okd[f] = true
					out = append(out, f)
					changed = true
				}
			}
		}
	}
	return out
}

// per-view state: must be dropped on every epoch write (every view), confirmed on the pinned tree.
var perView = map[string]string{
	"Transactions":        "transactions of the current view's proposal; the all-transactions predicate compares lengths, so leftovers of another proposal would stand in for missing ones",
	"TransactionHashes":   "hashes of the current view's proposal",
	"MissingTransactions": "requests for the current view's proposal",
	"PreparationPayloads": "preparations are per view (O-PREP-CLEAR)",
	"ChangeViewPayloads":  "requests to leave the current view",
	"PrimaryIndex":        "primary of the current view",
	"ViewNumber":          "the view itself",
	"txSubscriptionOn":    "pool subscription belongs to the current attempt",
	"prepareSentTime":     "round-trip measurement of the current proposal",
	"header":              "block caches belong to the current proposal (L2)",
	"preHeader":           "block caches belong to the current proposal (L2)",
	"block":               "block caches belong to the current proposal (L2)",
	"preBlock":            "block caches belong to the current proposal (L2)",
}

// per-height state: deliberately kept across view changes within a height (each with its reason)
var perHeight = map[string]string{
	"Config": "immutable", "Priv": "key pair of the height (A1)", "Pub": "key pair of the height (A1)", "MyIndex": "own index of the height (A1)",
	"BlockIndex": "the height", "Validators": "validator list of the height", "PrevHash": "ledger tip of the height",
	"PreCommitPayloads": "pre-commits are valid across views (one per validator per height)", "CommitPayloads": "commits are valid across views",
	"LastChangeViewPayloads": "refreshed from ChangeViewPayloads on every view change", "LastSeenMessage": "liveness notes of the height",
	"blockProcessed": "decision flag of the height", "preBlockProcessed": "pre-block flag of the height",
	"Timestamp": "overwritten by the next accepted/built proposal before any block constructor runs (L2)", "Nonce": "as Timestamp",
	"lastBlockTimestamp": "previous block's timestamp (re-passed on every epoch write)", "lastBlockTime": "timer reference", "lastBlockIndex": "timer reference",
	"lastBlockView": "timer reference", "timePerBlock": "configured duration of the height", "maxTimePerBlock": "configured duration of the height",
	"rttEstimates": "round-trip statistics",
}

// V-RESET-COVER
func ruleViewResetCover(c *RC) *RuleResult {
	r := &RuleResult{Rule: "V-RESET-COVER", Kind: "OWN", Doc: "per-view state is dropped on every path of the epoch writer, for every view"}
	ew := c.A.epochWriter
	if ew == nil {
		r.unresolved("epoch writer")
		return r
	}
	exits := c.exitsOf(ew)
	have := map[string]bool{}
	for _, fv := range c.Prog.ctxFields() {
		have[c.Prog.fieldRole(fv, fv.Name())] = true
	}
	// closed world: every Context field is classified as per-view or per-height; a new field must be reviewed and tabled
	for _, fv := range c.Prog.ctxFields() {
		f := c.Prog.fieldRole(fv, fv.Name())
		_, pv := perView[f]
		_, ph := perHeight[f]
		r.Sites++
		if pv || ph {
			r.ok("Context." + f + " classified as " + map[bool]string{true: "per-view", false: "per-height"}[pv])
		} else if n, bad := c.epochTag(fv); n > 0 && bad == "" {
			r.ok("Context." + f + " is an epoch tag: each of its reads is compared with the current height / view only, it cannot carry a proposal across views")
		} else {
			r.fail(ew.Name+"/unclassified:"+f, c.Prog.Pos(ew.Decl), "Context."+f+" is new state that is classified neither as per-view (dropped on every epoch write) nor as per-height (kept across views with a reason): state kept across a view change is how stale proposals leak into later views")
		}
	}
	for f, why := range perView {
		r.Sites++
		if !have[f] {
			r.unresolved("Context field " + f)
			continue
		}
		bad := ""
		for _, e := range exits {
			if e.Killed["ctx."+f] != 0 {
				continue
			}
			if v, ok := e.F.value(mkAtom("nn", fld("ctx."+f, false), nil)); ok && !v {
				continue
			}
			bad = "{" + strings.Join(e.Trail, "; ") + "}"
		}
		if bad == "" {
			r.ok("Context." + f + " is reset on every epoch write: " + why)
			c.checkClearedWrites(r, f)
		} else {
			r.fail(ew.Name+"/view-reset:"+f, c.Prog.Pos(ew.Decl), "Context."+f+" survives an epoch write on path "+bad+" ("+why+")")
		}
	}
	return r
}

// clearedValue: accepted clearing idioms for slice/map-valued state.
func (c *RC) clearedValue(v *Term) bool {
	if v == nil {
		return false
	}
	switch {
	case v.K == KNil, v.K == KConst && v.S == "cleared":
		return true
	case strings.HasPrefix(v.Name, "make:"):
		return true
	case v.K == KCall && v.Name == "slice" && len(v.Args) >= 3 && v.Args[2].S == "0":
		return true // x[:0]
	case v.K == KLocal && strings.HasPrefix(v.Name, "ret:"):
		// result of a helper that returns a cleared or fresh slice
		name := strings.TrimSuffix(strings.TrimPrefix(v.Name, "ret:"), ":"+lastSeg(v.Name))
		if fn := c.Prog.fn(name); fn != nil {
			return c.returnsCleared(fn)
		}
	}
	return false
}

// returnsCleared: every return of the helper is make(...) or a parameter that was clear()-ed.
func (c *RC) returnsCleared(fn *FuncInfo) bool {
	ok := true
	n := 0
	cleared := map[string]bool{}
	ast.Inspect(fn.Decl.Body, func(nd ast.Node) bool {
		switch x := nd.(type) {
		case *ast.CallExpr:
			if id, isId := x.Fun.(*ast.Ident); isId && id.Name == "clear" && len(x.Args) == 1 {
				if a, isA := x.Args[0].(*ast.Ident); isA {
					cleared[a.Name] = true
				}
			}
		case *ast.ReturnStmt:
			n++
			if len(x.Results) != 1 {
				ok = false
				return true
			}
			switch y := x.Results[0].(type) {
			case *ast.CallExpr:
				if id, isId := y.Fun.(*ast.Ident); !isId || id.Name != "make" {
					ok = false
				}
			case *ast.Ident:
				if !cleared[y.Name] {
					ok = false
				}
			default:
				ok = false
			}
		}
		return true
	})
	return ok && n > 0
}

// collectionField: slice- or map-typed Context field
func (c *RC) collectionField(name string) bool {
	for _, fv := range c.Prog.ctxFields() {
		if fv.Name() == name {
			switch fv.Type().Underlying().(type) {
			case *types.Slice, *types.Map:
				return true
			}
		}
	}
	return false
}

// checkClearedWrites: every whole-field write of a collection field in the epoch writer assigns a cleared value.
func (c *RC) checkClearedWrites(r *RuleResult, field string) {
	if !c.collectionField(field) || field == "Validators" {
		return
	}
	for _, s := range c.epochSites() {
		if s.Kind != "write" || s.Loc != "ctx."+field {
			continue
		}
		for _, sn := range s.Snaps {
			if sn.Idx != nil {
				continue // element store
			}
			r.Sites++
			if c.clearedValue(sn.Val) {
				r.ok("Context." + field + " receives a cleared value")
			} else {
				got := "?"
				if sn.Val != nil {
					got = sn.Val.S
				}
				r.fail(c.A.epochWriter.Name+"/not-cleared:"+field, c.Prog.Pos(s.Node), "Context."+field+" is re-assigned from "+got+", which keeps the old contents (accepted: nil, make, x[:0], clear(x), the re-size helper)")
			}
		}
	}
}

// nodeStateDependence: groups the site's path snapshots by their payload-only decisions and checks that, within
// each group, the decisions about the node's own state cover every case (i.e. the site does not depend on them).
func nodeStateDependence(s *Site) string {
	type grp struct {
		qs    [][]Lit
		atoms map[string]*Atom
	}
	groups := map[string]*grp{}
	for _, sn := range s.Snaps {
		var ps []string
		var q []Lit
		for _, l := range sn.TrailL {
			if hasParamTerm(l.A.A) || hasParamTerm(l.A.B) {
				ps = append(ps, l.String())
			} else {
				q = append(q, l)
			}
		}
		sort.Strings(ps)
		k := strings.Join(ps, " & ")
		g := groups[k]
		if g == nil {
			g = &grp{atoms: map[string]*Atom{}}
			groups[k] = g
		}
		g.qs = append(g.qs, q)
		for _, l := range q {
			g.atoms[l.A.S] = l.A
		}
	}
	for _, g := range groups {
		var as []*Atom
		for _, a := range g.atoms {
			as = append(as, a)
		}
		if len(as) == 0 || len(as) > 12 {
			if len(as) > 12 {
				return "too many node-state conditions"
			}
			continue
		}
		for mask := 0; mask < 1<<len(as); mask++ {
			f := newFacts()
			val := map[string]bool{}
			cons := true
			for i, a := range as {
				v := mask&(1<<i) != 0
				val[a.S] = v
				if !f.add(Lit{a, v}) {
					cons = false
					break
				}
			}
			if !cons {
				continue
			}
			covered := false
			for _, q := range g.qs {
				all := true
				for _, l := range q {
					if val[l.A.S] != l.Pos {
						all = false
						break
					}
				}
				if all {
					covered = true
					break
				}
			}
			if !covered {
				return cexString(val)
			}
		}
	}
	return ""
}

// reachesFn: from is to, or calls it (through at most two levels of helpers).
func (c *RC) reachesFn(from, to *FuncInfo, depth int) bool {
	if from == to {
		return true
	}
	if depth >= 2 {
		return false
	}
	if from.Recv == "DBFT" || from.Recv == "Context" {
		return false // only through the cache's own methods
	}
	for _, s := range c.A.FnSites[from] {
		if s.Kind == "call" && s.Target != nil && s.Target != from && c.reachesFn(s.Target, to, depth+1) {
			return true
		}
	}
	return false
}

// resultOfCacheGetter: t is the result of a module function every exit of which returns nil or the cached field loc
// (the lazy constructor of that cache: a local holding its result is the cached object).
func (c *RC) resultOfCacheGetter(t *Term, loc string) bool {
	if t != nil && t.K == KNil {
		return true // the lazy constructor returned nothing: the local and the cache field are both nil (judged by sameAsCache)
	}
	if t == nil || t.K != KLocal || !strings.HasPrefix(t.Name, "ret:") {
		return false
	}
	name := strings.TrimPrefix(t.Name, "ret:")
	if i := strings.LastIndex(name, ":"); i >= 0 {
		name = name[:i]
	}
	fn := c.Prog.fn(name)
	if fn == nil {
		return false
	}
	n := 0
	for _, e := range c.exitsFrom(fn, newState(), true) {
		if len(e.Ret) != 1 || e.Ret[0] == nil {
			return false
		}
		if e.Ret[0].K == KNil {
			continue
		}
		if e.Ret[0].S != loc {
			if v, ok := e.FieldVal[loc]; !ok || v == nil || v.S != e.Ret[0].S {
				return false
			}
		}
		n++
	}
	return n > 0
}

// nilAgrees: a nil argument stands for the cache field only on a path where the field is nil too.
func nilAgrees(sn *Snap, loc string) bool {
	if len(sn.Args) != 1 || sn.Args[0] == nil || sn.Args[0].K != KNil {
		return true
	}
	v, ok := sn.F.value(mkAtom("nn", fld(loc, false), nil))
	return ok && !v
}

// O-CACHE-PRUNE (C05): "nothing from earlier heights retained". Early payloads are kept in a map keyed by height; the
// lookup at initialisation removes the entry of the height that is entered. Entries of heights the node never enters —
// skipped by ledger sync, or of a higher view of a height that was decided in a lower one — must go too: somewhere on
// the initialisation path the map is replaced, or it is ranged over with its keys deleted.
func ruleCachePrune(c *RC) *RuleResult {
	r := &RuleResult{Rule: "O-CACHE-PRUNE", Kind: "OWN", Doc: "the map of early payloads is emptied of heights that are over when a height is entered: it is replaced, or ranged over with keys deleted, in a function the initialiser reaches"}
	// the map: a field of map type whose element (pointer) type is the inbox
	var mapField *types.Var
	for name, st := range c.Prog.Structs {
		_ = name
		for i := 0; i < st.NumFields(); i++ {
			if m, ok := st.Field(i).Type().Underlying().(*types.Map); ok {
				el := m.Elem()
				if p, ok := el.(*types.Pointer); ok {
					el = p.Elem()
				}
				// (the inbox type by its role — private names are free to change —, else by its shape: a struct of the
				// root package made of per-kind maps)
				if n := namedName(el); n != "" && c.Prog.typeRole(n) == "inbox" {
					mapField = st.Field(i)
				} else if est, ok := el.Underlying().(*types.Struct); ok && mapField == nil && est.NumFields() >= 2 {
					all := true
					for j := 0; j < est.NumFields(); j++ {
						if _, isMap := est.Field(j).Type().Underlying().(*types.Map); !isMap {
							all = false
						}
					}
					if b, isB := m.Key().Underlying().(*types.Basic); all && isB && b.Info()&types.IsInteger != 0 && namedPkgPath(el) == modPath {
						mapField = st.Field(i)
					}
				}
			}
		}
	}
	if mapField == nil {
		r.Sites++
		r.unresolved("map of inboxes keyed by height")
		return r
	}
	reach := map[*FuncInfo]bool{}
	var visit func(f *FuncInfo, d int)
	visit = func(f *FuncInfo, d int) {
		if reach[f] || d > 6 {
			return
		}
		reach[f] = true
		for _, s := range c.A.FnSites[f] {
			if s.Kind == "call" && s.Target != nil {
				visit(s.Target, d+1)
			}
		}
	}
	for _, ini := range c.initialisers() {
		visit(ini, 0)
	}
	isMap := func(info *types.Info, e ast.Expr) bool {
		sel, ok := ast.Unparen(e).(*ast.SelectorExpr)
		if !ok {
			return false
		}
		s := info.Selections[sel]
		return s != nil && s.Kind() == types.FieldVal && s.Obj().(*types.Var).Origin() == mapField
	}
	pruned := ""
	for fn := range reach {
		if fn.Decl == nil || fn.Decl.Body == nil || fn.Pkg.PkgPath != modPath {
			continue
		}
		info := fn.Pkg.TypesInfo
		ast.Inspect(fn.Decl.Body, func(n ast.Node) bool {
			switch x := n.(type) {
			case *ast.RangeStmt:
				if !isMap(info, x.X) {
					return true
				}
				ast.Inspect(x.Body, func(m ast.Node) bool {
					if call, ok := m.(*ast.CallExpr); ok && len(call.Args) == 2 {
						if id, ok := ast.Unparen(call.Fun).(*ast.Ident); ok && id.Name == "delete" && isMap(info, call.Args[0]) {
							if _, isB := info.Uses[id].(*types.Builtin); isB {
								pruned = fn.Name + " ranges over the map and deletes keys"
							}
						}
					}
					return true
				})
			case *ast.AssignStmt:
				for _, lhs := range x.Lhs {
					if isMap(info, lhs) {
						pruned = fn.Name + " replaces the map"
					}
				}
			case *ast.CallExpr:
				if id, ok := ast.Unparen(x.Fun).(*ast.Ident); ok && id.Name == "clear" && len(x.Args) == 1 && isMap(info, x.Args[0]) {
					if _, isB := info.Uses[id].(*types.Builtin); isB {
						pruned = fn.Name + " clears the map"
					}
				}
				if f, ok := typeutil.Callee(info, x).(*types.Func); ok && f.Pkg() != nil && f.Pkg().Path() == "maps" && f.Name() == "DeleteFunc" && len(x.Args) == 2 && isMap(info, x.Args[0]) {
					pruned = fn.Name + " filters the map with maps.DeleteFunc"
				}
			}
			return true
		})
	}
	r.Sites++
	if pruned != "" {
		r.ok("heights that are over are dropped from the map of early payloads: " + pruned)
	} else {
		where := ""
		for _, ini := range c.initialisers() {
			where = c.Prog.Pos(ini.Decl)
		}
		r.fail("cache/heights-over-are-kept", where, "the map of early payloads ("+mapField.Name()+") loses only the entry of the height being entered: payloads cached for heights the ledger skipped, and for higher views of a height decided in a lower one, stay for the life of the instance — the node retains traffic of earlier heights without bound")
	}
	return r
}
