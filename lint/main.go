package main

import (
	"flag"
	"fmt"
	"os"
	"sort"
	"strings"
)

func main() {
	repo := flag.String("repo", "/repo", "repository root")
	dump := flag.String("dump", "", "debug: dump sites of function")
	prop := flag.String("prop", "", "property id")
	tier := flag.String("tier", "quick", "tier")
	evid := flag.String("evidence", "", "evidence file")
	known := flag.String("known", "", "known findings file")
	flag.Parse()
	if *dump != "" {
		prog, err := loadProgram(*repo, "", nil)
		if err != nil {
			fmt.Println("LOAD ERROR", err)
			os.Exit(2)
		}
		a := newAnalysis(prog)
		a.walkAll()
		for _, u := range a.Undec {
			fmt.Println("UNDECIDED", u.Where, u.Msg)
		}
		if *dump == "sums" {
			var ks []string
			for k := range a.sums {
				ks = append(ks, k)
			}
			sort.Strings(ks)
			for _, k := range ks {
				fmt.Println(k, "=>", a.sums[k].key())
			}
			return
		}
		fn := prog.fn(*dump)
		if fn == nil {
			fmt.Println("no such function")
			os.Exit(2)
		}
		for _, s := range a.FnSites[fn] {
			fmt.Printf("%s %s %s%s store=%d snaps=%d\n", prog.Pos(s.Node), s.Kind, s.Callee, s.Loc, s.Store, len(s.Snaps))
			for _, sn := range s.Snaps {
				var as []string
				for _, t := range sn.Args {
					as = append(as, t.S)
				}
				idx := ""
				if sn.Idx != nil {
					idx = " idx=" + sn.Idx.S
				}
				fmt.Printf("    F: %s\n      args=[%s]%s killed=%v\n", sn.F.key(), strings.Join(as, "; "), idx, sn.Killed)
			}
		}
		return
	}
	if strings.Contains(*prop, ",") {
		// self-test tooling: -prop C01,C02,... -evidence <dir>
		os.Exit(runPropertiesShared(*repo, strings.Split(*prop, ","), *tier, *evid, *known))
	}
	rc := runProperty(*repo, *prop, *tier, *evid, *known)
	if os.Getenv("DBFTLINT_DEBUG_STEPS") != "" {
		fmt.Println("max demand steps", maxDemandSteps)
	}
	os.Exit(rc)
}
