package main

// C18: the bundled timer (package timer), structural clauses.

import (
	"fmt"
	"go/ast"
	"go/types"
	"sort"
	"strings"
)

func init() {
	propertyRules["C18"] = []ruleFn{ruleTimerReport, ruleTimerDrain, ruleTimerExtend, ruleTimerReplace}
	propertyExplain["C18"] = "Structural clauses of package timer: Height()/View() return fields assigned only in Reset from its parameters; Reset stores start instant, duration, height and view on every path before arming; C() returns the runtime timer's channel iff one is armed; every send on the immediate channel is preceded by a non-blocking drain and happens only for a zero duration; Extend accumulates the duration unconditionally and re-arms for total−elapsed measured from the stored start, never leaving a pending expiry disarmed; a runtime timer is created only after the previous one was stopped. 'Never early', 'within tolerance' and 'stale expiry never delivered' are real-time properties of time.Timer and channel races: not applicable to static analysis."
}

func (c *RC) timerFn(name string) *FuncInfo { return c.Prog.ByName["timer:Timer."+name] }

// timerRoles derives the private field roles of timer.Timer from its public methods and field types.
type timerRoles struct {
	height, view, dur, start, tt, ch string // locations "recv.<field>"
	ext                              []string // accumulators of extensions: locations Reset sets to 0 on every path (the total is dur + Σ ext)
}

func (c *RC) timerRoles() *timerRoles {
	if c.troles != nil {
		return c.troles
	}
	tr := &timerRoles{}
	c.troles = tr
	st := c.Prog.Structs["timer:Timer"]
	if st == nil {
		return tr
	}
	for i := 0; i < st.NumFields(); i++ {
		f := st.Field(i)
		switch t := f.Type().(type) {
		case *types.Pointer:
			if namedName(t) == "Timer" && namedPkgPath(t) == "time" {
				tr.tt = "recv." + f.Name()
			}
		case *types.Chan:
			tr.ch = "recv." + f.Name()
		}
	}
	if h := c.timerFn("Height"); h != nil {
		if t, ok := c.singleRet(h); ok && t.K == KField {
			tr.height = t.S
		}
	}
	if v := c.timerFn("View"); v != nil {
		if t, ok := c.singleRet(v); ok && t.K == KField {
			tr.view = t.S
		}
	}
	if reset := c.timerFn("Reset"); reset != nil && len(reset.Params) == 3 {
		exits := c.exitsFrom(reset, newState(), true)
		zeroed := map[string]int{}
		for _, e := range exits {
			for loc, v := range e.FieldVal {
				if v != nil && v.K == KConst && v.S == "0" && strings.HasPrefix(loc, "recv.") {
					zeroed[loc]++
				}
			}
		}
		for loc, n := range zeroed {
			if n == len(exits) {
				tr.ext = append(tr.ext, loc)
			}
		}
		sort.Strings(tr.ext)
		for _, e := range exits {
			for loc, v := range e.FieldVal {
				if v.S == "p:"+reset.Params[2].Name() {
					tr.dur = loc
				}
				if strings.HasPrefix(v.S, "l:ret:Timer.Now:") || strings.Contains(v.S, "time.Now") {
					tr.start = loc
				}
			}
		}
	}
	return tr
}

func ruleTimerReport(c *RC) *RuleResult {
	r := &RuleResult{Rule: "P-TIMER-REPORT", Kind: "PROV+MUST", Doc: "Height()/View() return the fields Reset assigns from its parameters; Reset assigns s, d, height, view on every path; C() returns the runtime channel iff armed"}
	reset, height, view, cfn := c.timerFn("Reset"), c.timerFn("Height"), c.timerFn("View"), c.timerFn("C")
	if reset == nil || height == nil || view == nil || cfn == nil {
		r.unresolved("timer.Timer methods Reset/Height/View/C")
		return r
	}
	for _, g := range []struct {
		fn    *FuncInfo
		field string
		pidx  int
	}{{height, c.timerRoles().height, 0}, {view, c.timerRoles().view, 1}} {
		if g.field == "" {
			r.unresolved(g.fn.Name + " returning a field of the timer")
			continue
		}
		r.Sites++
		t, ok := c.singleRet(g.fn)
		if ok && t.S == g.field {
			r.ok(g.fn.Name + "() returns " + g.field)
		} else {
			r.fail(g.fn.Name+"/returns", c.Prog.Pos(g.fn.Decl), g.fn.Name+" does not return "+g.field)
		}
		// writers of the field: only Reset, from the matching parameter
		n := 0
		for _, fn := range c.Prog.sortedFuncs() {
			if fn.Pkg.PkgPath != modPath+"/timer" {
				continue
			}
			for _, s := range c.A.FnSites[fn] {
				if s.Kind == "write" && s.Loc == g.field {
					for _, sn := range s.Snaps {
						n++
						r.Sites++
						if fn == reset && sn.Val != nil && sn.Val.S == "p:"+reset.Params[g.pidx].Name() {
							r.ok(g.field + " ← Reset's parameter " + sn.Val.S)
						} else {
							r.fail(fn.Name+"/write:"+g.field, c.Prog.Pos(s.Node), g.field+" is assigned outside Reset or not from its parameter")
						}
					}
				}
			}
		}
		if n == 0 {
			r.unresolved("assignment of " + g.field)
		}
	}
	// Reset assigns everything on every path, with the right values
	exits := c.exitsFrom(reset, newState(), true)
	for _, e := range exits {
		r.Sites++
		bad := ""
		tr := c.timerRoles()
		if tr.dur == "" || tr.start == "" {
			bad = "no field receives the duration parameter / the current instant in Reset"
		}
		for _, loc := range []string{tr.start, tr.dur, tr.height, tr.view} {
			if bad == "" && e.Killed[loc] == 0 {
				bad = loc + " not assigned"
			}
		}
		if v := e.FieldVal[tr.dur]; bad == "" && (v == nil || v.S != "p:"+reset.Params[2].Name()) {
			bad = tr.dur + " is not the duration parameter"
		}
		if v := e.FieldVal[tr.start]; bad == "" && (v == nil || !strings.HasPrefix(v.S, "l:ret:Timer.Now:") && !strings.Contains(v.S, "time.Now")) {
			bad = tr.start + " is not the current instant"
		}
		if bad == "" {
			r.ok("Reset stores start, duration, height and view on path {" + strings.Join(e.Trail, "; ") + "}")
		} else {
			r.fail(reset.Name+"/stores-epoch", c.Prog.Pos(reset.Decl), "Reset: "+bad+" on path {"+strings.Join(e.Trail, "; ")+"}")
		}
	}
	// C()
	r.Sites++
	okC := true
	nC := 0
	for _, e := range c.exitsOf(cfn) {
		nC++
		if len(e.Ret) != 1 {
			okC = false
			continue
		}
		tr := c.timerRoles()
		armed, known := e.F.value(mkAtom("nn", fld(tr.tt, false), nil))
		switch {
		case known && !armed && e.Ret[0].S == tr.ch:
		case known && armed && e.Ret[0].S == tr.tt+".C":
		default:
			okC = false
		}
	}
	if okC && nC == 2 {
		r.ok("C() returns tt.C when a runtime timer is armed and the immediate channel otherwise")
	} else {
		r.fail(cfn.Name+"/channel", c.Prog.Pos(cfn.Decl), "C() does not select the channel by whether a runtime timer is armed")
	}
	return r
}

func ruleTimerDrain(c *RC) *RuleResult {
	r := &RuleResult{Rule: "M-DRAIN-BEFORE-SEND", Kind: "MUST+GUARD", Doc: "every send on the capacity-1 immediate channel is preceded by a non-blocking receive on it and happens only when the duration is zero"}
	n := 0
	for _, fn := range c.Prog.sortedFuncs() {
		if fn.Pkg.PkgPath != modPath+"/timer" {
			continue
		}
		if c.A.inlinable(fn) {
			continue // walked inline from its only caller, with the caller's facts
		}
		var sends []*Site
		rec := c.inlineSites(fn, true)
		for _, g := range c.Prog.sortedFuncs() {
			for _, s := range rec.FnSites[g] {
				if s.Kind == "call" && s.Callee == "chan:send" {
					sends = append(sends, s)
				}
			}
		}
		for _, s := range sends {
			for _, sn := range s.Snaps {
				n++
				r.Sites++
				drained := ""
				for ev := range sn.Events {
					if strings.HasPrefix(ev, "fn:") {
						if d := c.Prog.ByName["timer:"+strings.TrimPrefix(ev, "fn:")]; d != nil && nonBlockingReceive(d) {
							drained = d.Name
						}
					}
				}
				// time.NewTimer never returns nil: a path on which its result was found nil does not exist
				infeasible := false
				for _, l := range sn.TrailL {
					if !l.Pos && l.A != nil && l.A.Op == "nn" && l.A.A != nil && strings.HasPrefix(l.A.A.S, "l:ext:time.NewTimer:") {
						infeasible = true
					}
				}
				if infeasible {
					n--
					r.Sites--
					continue
				}
				zero := false
				// a deadline that is not in the future (duration ≤ 0) may expire at once
				if len(fn.Params) == 3 {
					if v, ok := sn.F.value(mkAtom("lt", tZero, mkTerm(KParam, fn.Params[2].Name()))); ok && !v {
						zero = true
					}
				}
				if v, ok := sn.F.value(mkAtom("eq", fld(c.timerRoles().dur, false), tZero)); ok && v {
					zero = true
				}
				if len(fn.Params) == 3 {
					if v, ok := sn.F.value(mkAtom("eq", mkTerm(KParam, fn.Params[2].Name()), tZero)); ok && v {
						zero = true
					}
				}
				onCh := sn.Recv != nil && sn.Recv.S == c.timerRoles().ch
				switch {
				case !onCh:
					r.fail(fn.Name+"/send-other-channel", c.Prog.Pos(s.Node), "send on a channel other than the immediate channel")
				case drained == "":
					r.fail(fn.Name+"/send-without-drain", c.Prog.Pos(s.Node), "send on the capacity-1 channel without a preceding non-blocking drain (can block forever if an earlier expiry was left unread)")
				case !zero:
					r.fail(fn.Name+"/send-nonzero", c.Prog.Pos(s.Node), "immediate expiry sent although the duration is not known to be zero or negative on path {"+sn.Trail+"}")
				default:
					r.ok(fn.Name + ": drain (" + drained + ") then send, only for a zero duration")
				}
			}
		}
	}
	if n == 0 {
		r.unresolved("send on the immediate channel")
	}
	return r
}

// nonBlockingReceive: body is a select with a default clause and a receive from a parameter.
func nonBlockingReceive(fn *FuncInfo) bool {
	ok := false
	ast.Inspect(fn.Decl.Body, func(n ast.Node) bool {
		sel, is := n.(*ast.SelectStmt)
		if !is {
			return true
		}
		hasDefault, hasRecv := false, false
		for _, cl := range sel.Body.List {
			cc := cl.(*ast.CommClause)
			if cc.Comm == nil {
				hasDefault = true
				continue
			}
			ast.Inspect(cc.Comm, func(m ast.Node) bool {
				if u, is := m.(*ast.UnaryExpr); is && u.Op.String() == "<-" {
					hasRecv = true
				}
				return true
			})
		}
		if hasDefault && hasRecv {
			ok = true
		}
		return true
	})
	return ok
}

func ruleTimerExtend(c *RC) *RuleResult {
	r := &RuleResult{Rule: "A-EXTEND", Kind: "ARITH+MUST", Doc: "Extend(d): total += d on every path; when re-arming, arms for total − time.Since(start); never touches height/view/start; never leaves the timer disarmed"}
	ext := c.timerFn("Extend")
	if ext == nil || len(ext.Params) != 1 {
		r.unresolved("timer.Timer.Extend(d)")
		return r
	}
	p := "p:" + ext.Params[0].Name()
	tr := c.timerRoles()
	if tr.dur == "" || tr.start == "" || tr.tt == "" {
		r.unresolved("duration / start / runtime-timer fields of timer.Timer")
		return r
	}
	exits := c.exitsFrom(ext, newState(), true)
	for _, e := range exits {
		r.Sites++
		bad := ""
		// the total is the duration field plus the extension accumulators (fields Reset sets to 0)
		cur := func(loc string) *Term {
			if v := e.FieldVal[loc]; v != nil {
				return v
			}
			return fld(loc, false)
		}
		after, before, changed := cur(tr.dur), fld(tr.dur, false), e.FieldVal[tr.dur] != nil
		for _, x := range tr.ext {
			after, before = mkTerm(KBin, "+", after, cur(x)), mkTerm(KBin, "+", before, fld(x, false))
			changed = changed || e.FieldVal[x] != nil
		}
		if !changed || nfString(after) != nfString(mkTerm(KBin, "+", before, mkTerm(KParam, ext.Params[0].Name()))) {
			got := "unchanged"
			if changed {
				got = nfString(after)
			}
			bad = "stored total is " + got + ", expected " + nfString(before) + " + " + p
		}
		for _, loc := range []string{tr.start, tr.height, tr.view} {
			if e.Killed[loc] != 0 {
				bad = loc + " modified by Extend"
			}
		}
		if e.Killed[tr.tt] != 0 {
			tv := e.FieldVal[tr.tt]
			if tv == nil || !strings.HasPrefix(tv.S, "l:ext:time.NewTimer:") {
				bad = "the runtime timer is stopped but not re-armed (a pending expiry is lost)"
			}
		}
		if bad == "" {
			r.ok("Extend path {" + strings.Join(e.Trail, "; ") + "}: total = recv.d + " + p)
		} else {
			r.fail(ext.Name+"/extend", c.Prog.Pos(ext.Decl), bad+" on path {"+strings.Join(e.Trail, "; ")+"}")
		}
	}
	// the re-arm duration
	n := 0
	w := &Walker{A: c.A, Fn: ext, info: ext.Pkg.TypesInfo, record: true, budget: 20000, trackFields: true}
	_ = w
	// walk with field tracking and recording into a scratch analysis view: reuse recorded generic sites for the argument shape
	for _, s := range c.A.FnSites[ext] {
		if s.Kind == "call" && s.Callee == "ext:time.NewTimer" {
			for _, sn := range s.Snaps {
				n++
				r.Sites++
				total := fld(tr.dur, false)
				for _, x := range tr.ext {
					total = mkTerm(KBin, "+", total, fld(x, false))
				}
				want := nfString(mkTerm(KBin, "-", total, mkTerm(KCall, "time.Since", fld(tr.start, false))))
				if len(sn.Args) == 1 && nfString(sn.Args[0]) == want {
					r.ok("Extend re-arms for recv.d − time.Since(recv.s) (after total += d)")
				} else {
					got := "?"
					if len(sn.Args) == 1 {
						got = nfString(sn.Args[0])
					}
					r.fail(ext.Name+"/rearm-duration", c.Prog.Pos(s.Node), "Extend re-arms for "+got+", expected total − elapsed since the stored start ("+want+")")
				}
				// re-arm only when the new deadline is still ahead
				guarded := false
				for _, l := range sn.TrailL {
					if l.Pos && l.A.Op == "lt" && l.A.A.S == "time.Since("+tr.start+")" && l.A.B.S == tr.dur {
						guarded = true
					}
					// the same guard written as 0 < total − elapsed
					if l.Pos && l.A.Op == "lt" && l.A.A != nil && l.A.B != nil && l.A.A.K == KConst && l.A.A.S == "0" && nfString(l.A.B) == want {
						guarded = true
					}
				}
				r.Sites++
				if guarded {
					r.ok("re-arm only when total > elapsed")
				} else {
					r.fail(ext.Name+"/rearm-guard", c.Prog.Pos(s.Node), "re-arm is not guarded by total > elapsed (a non-positive duration would fire at once)")
				}
			}
		}
	}
	if n == 0 {
		r.unresolved("re-arm site in Extend")
	}
	return r
}

func ruleTimerReplace(c *RC) *RuleResult {
	r := &RuleResult{Rule: "O-REPLACE", Kind: "OWN+MUST", Doc: "the runtime timer field is assigned only in Reset, Extend and the stop helper; a new runtime timer is created only after the stop helper ran (at most one armed runtime timer)"}
	n := 0
	for _, fn := range c.Prog.sortedFuncs() {
		if fn.Pkg.PkgPath != modPath+"/timer" {
			continue
		}
		for _, s := range c.A.FnSites[fn] {
			if s.Kind == "write" && s.Loc == c.timerRoles().tt {
				n++
				r.Sites++
				isStop := false
				for _, x := range c.A.FnSites[fn] {
					if x.Kind == "call" && strings.HasSuffix(x.Callee, "time.Timer.Stop") {
						isStop = true
					}
				}
				if fn.Name == "Timer.Reset" || fn.Name == "Timer.Extend" || isStop || c.A.inlinable(fn) {
					r.ok("recv.tt assigned in " + fn.Name)
				} else {
					r.fail(fn.Name+"/write:recv.tt", c.Prog.Pos(s.Node), "the runtime timer is assigned in an unexpected function")
				}
				// a runtime timer that may be armed is let go of only after Stop()
				for _, sn := range s.Snaps {
					r.Sites++
					armed, known := sn.F.value(mkAtom("nn", fld(c.timerRoles().tt, false), nil))
					stopSeen := false
					for ev := range sn.Events {
						if strings.HasSuffix(ev, "time.Timer.Stop") {
							stopSeen = true
						}
					}
					if known && !armed || stopSeen {
						r.ok(fn.Name + ": the runtime timer field is overwritten only when empty or after Stop()")
					} else {
						r.fail(fn.Name+"/overwrite-armed", c.Prog.Pos(s.Node), "the runtime timer field is overwritten while a timer may be armed and without Stop(): its expiry is still delivered later (stale)")
					}
				}
			}
			if s.Kind == "call" && s.Callee == "ext:time.NewTimer" {
				for _, sn := range s.Snaps {
					r.Sites++
					stopped := false
					for ev := range sn.Events {
						if strings.HasPrefix(ev, "fn:") {
							if d := c.Prog.ByName["timer:"+strings.TrimPrefix(ev, "fn:")]; d != nil && stopsTimer(c, d) {
								stopped = true
							}
						}
					}
					// read as a whole (private helpers are walked inline): the field is known to hold no runtime timer here
					if armed, known := sn.F.value(mkAtom("nn", fld(c.timerRoles().tt, false), nil)); known && !armed {
						stopped = true
					}
					if stopped {
						r.ok(fmt.Sprintf("%s: NewTimer only after the previous runtime timer was stopped", fn.Name))
					} else {
						r.fail(fn.Name+"/newtimer-without-stop", c.Prog.Pos(s.Node), "a runtime timer is created while the previous one may still be armed (its stale expiry could be delivered)")
					}
				}
			}
		}
	}
	if n < 3 {
		r.unresolved("assignments of the runtime timer field")
	}
	return r
}

func stopsTimer(c *RC, fn *FuncInfo) bool {
	stop, nils := false, false
	for _, s := range c.A.FnSites[fn] {
		if s.Kind == "call" && strings.HasSuffix(s.Callee, "time.Timer.Stop") {
			stop = true
		}
		if s.Kind == "write" && s.Loc == c.timerRoles().tt {
			for _, sn := range s.Snaps {
				if sn.Val != nil && sn.Val.K == KNil {
					nils = true
				}
			}
		}
	}
	return stop && nils
}
