package main

import (
	"go/ast"
	"go/types"
	"strings"
)

// Function values. The library stores no functions besides the Config callbacks, but ordinary Go style passes them
// around locally: a closure bound to a local and called, a method value picked under a condition, a helper taking a
// predicate or a constructor. All of these are resolved by the path walker itself: a function value is a term that
// remembers what it denotes, a call through it is walked inline (a literal's body in the environment it was created in —
// captured variables are the caller's own entries, so writes to them are seen), and a module function with
// function-typed parameters ("higher-order") is never summarised or walked on its own: it is walked inline at each of
// its call sites with the actual function values, and the sites inside it are attributed to the function whose walk
// reached them. What cannot be resolved this way (a function value stored in a field, returned, handed to another
// package) is UNDECIDED as before.
type FuncVal struct {
	Fn    *FuncInfo    // module function or method
	Recv  *Term        // bound receiver of a method value
	Lit   *ast.FuncLit // function literal
	Owner *FuncInfo    // function whose body contains Lit
}

// sfn: the function recorded sites are attributed to.
func (w *Walker) sfn() *FuncInfo {
	if w.siteOwner != nil {
		return w.siteOwner
	}
	return w.Fn
}

// higherOrder: fn takes a function-typed parameter.
func (a *Analysis) higherOrder(fn *FuncInfo) bool {
	if a.hoCache == nil {
		a.hoCache = map[*FuncInfo]bool{}
	}
	if v, ok := a.hoCache[fn]; ok {
		return v
	}
	ho := false
	if strings.HasPrefix(fn.Pkg.PkgPath, modPath) {
		for _, p := range fn.Params {
			if _, ok := p.Type().Underlying().(*types.Signature); ok {
				ho = true
			}
		}
		if !ho && fn.Decl != nil && fn.Decl.Body != nil && !fn.Decl.Name.IsExported() {
			// a table handed in as a parameter and written through ("sendOwn(d.CommitPayloads, msg)"): which table
			// is written is known at the call site only
			ast.Inspect(fn.Decl.Body, func(n ast.Node) bool {
				as, ok := n.(*ast.AssignStmt)
				if !ok {
					return true
				}
				for _, l := range as.Lhs {
					ix, ok := ast.Unparen(l).(*ast.IndexExpr)
					if !ok {
						continue
					}
					id, ok := ast.Unparen(ix.X).(*ast.Ident)
					if !ok {
						continue
					}
					v, _ := fn.Pkg.TypesInfo.Uses[id].(*types.Var)
					for _, p := range fn.Params {
						if p == v {
							switch p.Type().Underlying().(type) {
							case *types.Slice, *types.Map:
								ho = true
							}
						}
					}
				}
				return true
			})
		}
	}
	if !ho && fn.Pkg.PkgPath == modPath && fn.Decl != nil && fn.Decl.Body != nil && !fn.Decl.Name.IsExported() {
		// a shared helper with several results ("ok, err := d.verifyCommitAgainstHeader(m)"): a summary keeps the
		// classes of its results but not how they hang together with what it did; with at least two call sites
		// it is no single-caller helper either. Small and not recursive: walked at each call site.
		a.computePurity()
		if sig, ok := fn.Obj.Type().(*types.Signature); ok && sig.Results().Len() >= 2 && a.ncalls[fn] >= 2 &&
			!a.pure[fn] && !a.escapes[fn] && stmtCount(fn.Decl.Body) <= 40 && !a.callsItself(fn) {
			ho = true
		}
		// a shared helper that computes a duration from the clock and the state ("what is left of the interval"): the
		// timer rules read durations structurally, an opaque result tells them nothing
		if sig, ok := fn.Obj.Type().(*types.Signature); ok && sig.Results().Len() == 1 && namedName(sig.Results().At(0).Type()) == "Duration" &&
			a.ncalls[fn] >= 2 && !a.pure[fn] && !a.escapes[fn] && stmtCount(fn.Decl.Body) <= 20 && !a.callsItself(fn) {
			ho = true
		}
	}
	if !ho && fn.Pkg.PkgPath == modPath+"/timer" && fn.Decl != nil && fn.Decl.Body != nil && !fn.Decl.Name.IsExported() {
		// package timer is a handful of public methods over private helpers: each public method is read as a whole
		a.computePurity()
		if a.ncalls[fn] >= 1 && !a.escapes[fn] && stmtCount(fn.Decl.Body) <= 40 && !a.callsItself(fn) {
			ho = true
		}
	}
	a.hoCache[fn] = ho
	return ho
}

// callsItself: fn is on a cycle of the module's static call graph.
func (a *Analysis) callsItself(fn *FuncInfo) bool {
	seen := map[*FuncInfo]bool{}
	var visit func(f *FuncInfo) bool
	visit = func(f *FuncInfo) bool {
		found := false
		ast.Inspect(f.Decl.Body, func(n ast.Node) bool {
			call, ok := n.(*ast.CallExpr)
			if !ok || found {
				return !found
			}
			w := &Walker{A: a, Fn: f, info: f.Pkg.TypesInfo}
			t := w.staticCallee(call)
			if t == nil || t.Decl == nil || t.Decl.Body == nil {
				return true
			}
			if t == fn {
				found = true
				return false
			}
			if !seen[t] {
				seen[t] = true
				if visit(t) {
					found = true
				}
			}
			return !found
		})
		return found
	}
	return visit(fn)
}

// funcValueOf: the function value a call's Fun expression denotes in this state, if it is a local / parameter holding one.
func (w *Walker) funcValueOf(fun ast.Expr, st *State) *FuncVal {
	id, ok := fun.(*ast.Ident)
	if !ok {
		return nil
	}
	v, ok := w.info.Uses[id].(*types.Var)
	if !ok || v.IsField() {
		return nil
	}
	if t, ok := st.Env[v]; ok && t != nil && t.Fun != nil {
		return t.Fun
	}
	return nil
}

// callFuncVal: a call through a resolved function value.
func (w *Walker) callFuncVal(call *ast.CallExpr, fv *FuncVal, st *State, nres int) []callRes {
	if fv.Fn != nil {
		saved := w.viaValue
		w.viaValue = true
		defer func() { w.viaValue = saved }()
		return w.callInternalRecv(call, fv.Fn, st, nres, fv.Recv)
	}
	_, args, sts := w.evalCallOperands(call, st)
	var out []callRes
	for i, s := range sts {
		out = append(out, w.inlineLit(call, fv.Lit, fv.Owner, args[i], s, nres)...)
	}
	return out
}

// inlineLit walks the body of a function literal in the caller's state.
func (w *Walker) inlineLit(call ast.Node, lit *ast.FuncLit, owner *FuncInfo, args []*Term, st *State, nres int) []callRes {
	if w.depth >= 8 {
		w.undecided(call, "function literal called too deep (recursive closure?)")
		return []callRes{{st, manyFresh(nres)}}
	}
	info := owner.Pkg.TypesInfo
	sub := &Walker{A: w.A, Fn: owner, info: info, record: w.record, depth: w.depth + 1, inl: &inlineCtx{}, budget: 40000,
		trackFields: w.trackFields, inlineHelpers: w.inlineHelpers, rec: w.rec, siteOwner: w.siteOwner, loops: nil}
	sub.cnt = w.cnt
	if sub.siteOwner == nil && w.rec == nil && owner != w.Fn {
		sub.siteOwner = w.sfn()
	}
	b := st
	j := 0
	for _, f := range lit.Type.Params.List {
		for _, nm := range f.Names {
			if v, ok := info.Defs[nm].(*types.Var); ok && j < len(args) {
				b.Env[v] = args[j]
			}
			j++
		}
		if len(f.Names) == 0 {
			j++
		}
	}
	var resVars []*types.Var
	if lit.Type.Results != nil {
		for _, f := range lit.Type.Results.List {
			for _, nm := range f.Names {
				if v, ok := info.Defs[nm].(*types.Var); ok {
					b.Env[v] = zeroTerm(v.Type())
					resVars = append(resVars, v)
				}
			}
		}
	}
	named := func(s *State) []*Term {
		var ts []*Term
		for _, v := range resVars {
			if t, ok := s.Env[v]; ok {
				ts = append(ts, t)
			} else {
				ts = append(ts, fresh("res"))
			}
		}
		return ts
	}
	fall := sub.stmts(lit.Body.List, []*State{b})
	var out []callRes
	finish := func(s *State, ts []*Term) {
		sts := []*State{s}
		for i := len(sub.defers) - 1; i >= 0; i-- {
			sts = sub.stmts(sub.defers[i].Body.List, sts)
		}
		for _, x := range sts {
			for len(ts) < nres {
				ts = append(ts, fresh("ret:lit:"))
			}
			out = append(out, callRes{x, ts})
		}
	}
	for _, s := range fall {
		finish(s, named(s))
	}
	for _, r := range sub.inl.rets {
		if len(r.exprs) == 0 {
			finish(r.st, named(r.st))
			continue
		}
		cur := []callRes{{r.st, nil}}
		for _, re := range r.exprs {
			var next []callRes
			for _, c := range cur {
				if isBoolExpr(info, re) {
					tst, fst := sub.cond(re, c.st)
					for _, x := range tst {
						next = append(next, callRes{x, append(append([]*Term{}, c.ts...), constTerm("true"))})
					}
					for _, x := range fst {
						next = append(next, callRes{x, append(append([]*Term{}, c.ts...), constTerm("false"))})
					}
					continue
				}
				for _, e := range sub.eval(re, c.st) {
					next = append(next, callRes{e.st, append(append([]*Term{}, c.ts...), e.t)})
				}
			}
			cur = next
		}
		for _, c := range cur {
			finish(c.st, c.ts)
		}
	}
	// whatever the literal's own sub-walk could not place (path budget) surfaces through the shared analysis
	return out
}

// methodValue: x.m used as a value (not called): the method bound to the evaluated receiver.
func (w *Walker) methodValue(x *ast.SelectorExpr, recv *Term) *FuncVal {
	sel := w.info.Selections[x]
	if sel == nil || sel.Kind() != types.MethodVal {
		return nil
	}
	f, ok := sel.Obj().(*types.Func)
	if !ok {
		return nil
	}
	if fi := w.A.Prog.Funcs[f.Origin()]; fi != nil {
		return &FuncVal{Fn: fi, Recv: recv}
	}
	return nil
}
