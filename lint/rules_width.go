package main

// A-PRIMARY-WIDTH (C06): the arithmetic that picks the primary is the same on every supported target. `int` and `uint`
// are 32 bits wide on GOARCH=386/arm/mips; a height is a uint32. A conversion in GetPrimaryIndex (or in a function it
// computes through) whose operand can be larger in magnitude than the target type holds on a 32-bit target gives a
// different primary there than on a 64-bit one ("identical on every node" fails between the two).
//
// The magnitude of an operand is bounded from its expression: constants, len/cap (≤ MaxInt32 on the narrow target),
// x % y (< |y|), sums and differences, single-definition locals; everything else by its type.

import (
	"fmt"
	"go/ast"
	"go/constant"
	"go/token"
	"go/types"
	"math/big"

	"golang.org/x/tools/go/types/typeutil"
)

func init() {
	propertyRules["C06"] = append(propertyRules["C06"], rulePrimaryWidth)
}

var narrowSizes = types.SizesFor("gc", "386")

// capOfType: the largest magnitude an integer type holds on the narrow target (nil: not an integer type)
func capOfType(t types.Type) *big.Int {
	if t == nil {
		return nil
	}
	b, ok := t.Underlying().(*types.Basic)
	if !ok || b.Info()&types.IsInteger == 0 {
		return nil
	}
	bits := uint(8 * narrowSizes.Sizeof(b))
	if b.Kind() == types.UntypedInt || b.Kind() == types.UntypedRune {
		bits = 64
	}
	one := big.NewInt(1)
	if b.Info()&types.IsUnsigned != 0 {
		return new(big.Int).Sub(new(big.Int).Lsh(one, bits), one)
	}
	return new(big.Int).Lsh(one, bits-1) // |MinInt|
}

type widthWrite struct {
	tok    token.Token // DEFINE/ASSIGN: plain; ADD_ASSIGN/SUB_ASSIGN: adjusts; ILLEGAL: anything else
	rhs    ast.Expr
	inLoop bool
}

type widthCtx struct {
	info    *types.Info
	writes  map[types.Object][]widthWrite
	visited map[types.Object]bool
}

func newWidthCtx(info *types.Info, body *ast.BlockStmt) *widthCtx {
	w := &widthCtx{info: info, writes: map[types.Object][]widthWrite{}, visited: map[types.Object]bool{}}
	note := func(lhs ast.Expr, tok token.Token, rhs ast.Expr, inLoop bool) {
		id, ok := ast.Unparen(lhs).(*ast.Ident)
		if !ok {
			return
		}
		if obj := info.ObjectOf(id); obj != nil {
			w.writes[obj] = append(w.writes[obj], widthWrite{tok, rhs, inLoop})
		}
	}
	var visit func(n ast.Node, inLoop bool)
	visit = func(n ast.Node, inLoop bool) {
		ast.Inspect(n, func(n ast.Node) bool {
			switch s := n.(type) {
			case *ast.ForStmt:
				if s.Init != nil {
					visit(s.Init, inLoop)
				}
				if s.Cond != nil {
					visit(s.Cond, true)
				}
				if s.Post != nil {
					visit(s.Post, true)
				}
				visit(s.Body, true)
				return false
			case *ast.RangeStmt:
				if s.Key != nil {
					note(s.Key, token.ILLEGAL, nil, true)
				}
				if s.Value != nil {
					note(s.Value, token.ILLEGAL, nil, true)
				}
				visit(s.X, inLoop)
				visit(s.Body, true)
				return false
			case *ast.FuncLit:
				visit(s.Body, true) // may run any number of times
				return false
			case *ast.AssignStmt:
				for i, l := range s.Lhs {
					tok, rhs := token.ILLEGAL, ast.Expr(nil)
					if len(s.Rhs) == len(s.Lhs) {
						switch s.Tok {
						case token.DEFINE, token.ASSIGN, token.ADD_ASSIGN, token.SUB_ASSIGN:
							tok, rhs = s.Tok, s.Rhs[i]
						}
					}
					note(l, tok, rhs, inLoop)
				}
			case *ast.IncDecStmt:
				note(s.X, token.ILLEGAL, nil, inLoop)
			case *ast.ValueSpec:
				for i, nm := range s.Names {
					if len(s.Values) == len(s.Names) {
						note(nm, token.DEFINE, s.Values[i], inLoop)
					} else if len(s.Values) == 0 {
						note(nm, token.DEFINE, &ast.BasicLit{Kind: token.INT, Value: "0"}, inLoop)
					} else {
						note(nm, token.ILLEGAL, nil, inLoop)
					}
				}
			case *ast.UnaryExpr:
				if s.Op == token.AND {
					note(s.X, token.ILLEGAL, nil, true)
				}
			}
			return true
		})
	}
	visit(body, false)
	return w
}

// magVar bounds a local from everything that is assigned to it: the largest plain assignment plus every `+=` / `-=`
// outside loops (each runs at most once); anything else leaves the bound of its type.
func (w *widthCtx) magVar(obj types.Object, depth int) *big.Int {
	ws := w.writes[obj]
	if len(ws) == 0 || w.visited[obj] {
		return nil
	}
	w.visited[obj] = true
	defer func() { w.visited[obj] = false }()
	base, adj := big.NewInt(0), big.NewInt(0)
	plain, declared := 0, false // declared: a local of this body (a parameter starts with any value of its type)
	for _, wr := range ws {
		if wr.rhs == nil || wr.tok == token.ILLEGAL {
			return nil
		}
		var m *big.Int
		if bl, ok := wr.rhs.(*ast.BasicLit); ok && bl.Value == "0" {
			m = big.NewInt(0)
		} else {
			m = w.mag(wr.rhs, depth+1)
		}
		if m == nil {
			return nil
		}
		switch wr.tok {
		case token.DEFINE, token.ASSIGN:
			if wr.tok == token.DEFINE {
				declared = true
			}
			plain++
			if m.Cmp(base) > 0 {
				base = m
			}
		default:
			if wr.inLoop {
				return nil
			}
			adj = new(big.Int).Add(adj, m)
		}
	}
	if plain == 0 || !declared {
		return nil
	}
	return new(big.Int).Add(base, adj)
}

// mag bounds |e| from above (nil: not an integer expression)
func (w *widthCtx) mag(e ast.Expr, depth int) *big.Int {
	e = ast.Unparen(e)
	tv, ok := w.info.Types[e]
	if ok && tv.Value != nil && tv.Value.Kind() == constant.Int {
		if v, ok := new(big.Int).SetString(tv.Value.ExactString(), 10); ok {
			return v.Abs(v)
		}
	}
	byType := capOfType(w.info.TypeOf(e))
	if byType == nil || depth > 12 {
		return byType
	}
	min := func(a *big.Int) *big.Int {
		if a == nil || a.Cmp(byType) > 0 {
			return byType
		}
		return a
	}
	switch x := e.(type) {
	case *ast.Ident:
		if obj := w.info.ObjectOf(x); obj != nil {
			if _, isVar := obj.(*types.Var); isVar {
				return min(w.magVar(obj, depth))
			}
		}
	case *ast.UnaryExpr:
		if x.Op == token.SUB || x.Op == token.ADD {
			return min(w.mag(x.X, depth+1))
		}
	case *ast.BinaryExpr:
		a, b := w.mag(x.X, depth+1), w.mag(x.Y, depth+1)
		if a == nil || b == nil {
			return byType
		}
		switch x.Op {
		case token.REM:
			if b.Sign() > 0 {
				m := new(big.Int).Sub(b, big.NewInt(1))
				if a.Cmp(m) < 0 {
					m = a
				}
				return min(m)
			}
		case token.ADD, token.SUB:
			return min(new(big.Int).Add(a, b))
		case token.MUL:
			return min(new(big.Int).Mul(a, b))
		case token.QUO, token.SHR, token.AND:
			return min(a)
		}
	case *ast.CallExpr:
		if ftv, ok := w.info.Types[x.Fun]; ok && ftv.IsType() && len(x.Args) == 1 {
			// a conversion: what survives is bounded by both
			return min(w.mag(x.Args[0], depth+1))
		}
		if id, ok := ast.Unparen(x.Fun).(*ast.Ident); ok {
			if _, isB := w.info.ObjectOf(id).(*types.Builtin); isB && (id.Name == "len" || id.Name == "cap") {
				return new(big.Int).Sub(new(big.Int).Lsh(big.NewInt(1), 31), big.NewInt(1))
			}
		}
	}
	return byType
}

func rulePrimaryWidth(c *RC) *RuleResult {
	r := &RuleResult{Rule: "A-PRIMARY-WIDTH", Kind: "ARITH", Doc: "no conversion in GetPrimaryIndex (and the functions it computes through) loses magnitude on a 32-bit target: the primary is the same validator on every platform"}
	root := c.Prog.fn("Context.GetPrimaryIndex")
	if root == nil {
		r.Sites++
		r.unresolved("exported method Context.GetPrimaryIndex(view)")
		return r
	}
	// the function and its module callees
	fns := []*FuncInfo{root}
	seen := map[*FuncInfo]bool{root: true}
	for i := 0; i < len(fns) && i < 32; i++ {
		fn := fns[i]
		if fn.Decl == nil || fn.Decl.Body == nil {
			continue
		}
		ast.Inspect(fn.Decl.Body, func(n ast.Node) bool {
			call, ok := n.(*ast.CallExpr)
			if !ok {
				return true
			}
			if f, ok := typeutil.Callee(fn.Pkg.TypesInfo, call).(*types.Func); ok && f != nil {
				if g := c.Prog.Funcs[f.Origin()]; g != nil && !seen[g] {
					seen[g] = true
					fns = append(fns, g)
				}
			}
			return true
		})
	}
	for _, fn := range fns {
		if fn.Decl == nil || fn.Decl.Body == nil {
			continue
		}
		info := fn.Pkg.TypesInfo
		w := newWidthCtx(info, fn.Decl.Body)
		ast.Inspect(fn.Decl.Body, func(n ast.Node) bool {
			call, ok := n.(*ast.CallExpr)
			if !ok || len(call.Args) != 1 {
				return true
			}
			ftv, ok := info.Types[call.Fun]
			if !ok || !ftv.IsType() {
				return true
			}
			cp := capOfType(ftv.Type)
			m := w.mag(call.Args[0], 0)
			if cp == nil || m == nil {
				return true
			}
			r.Sites++
			src := info.TypeOf(call.Args[0])
			what := fmt.Sprintf("%s(%s)", types.ExprString(call.Fun), types.ExprString(call.Args[0]))
			if m.Cmp(cp) > 0 {
				r.fail(fmt.Sprintf("%s/lossy-on-32bit:%s->%s", fn.Name, src, ftv.Type), c.Prog.Pos(call), fmt.Sprintf("%s: the operand (%s) can be as large as %s, %s holds at most %s where int is 32 bits wide (GOARCH=386, arm, mips): for such values a 32-bit node computes a different primary than a 64-bit one", what, src, m, ftv.Type, cp))
			} else {
				r.ok(fmt.Sprintf("%s: %s keeps its operand (|operand| ≤ %s ≤ %s on a 32-bit target)", fn.Name, what, m, cp))
			}
			return true
		})
	}
	if r.Sites == 0 {
		r.Sites++
		r.ok(root.Name + ": no conversions")
	}
	return r
}
