package main

// C10 (no lost wake-up) and C12 (a backup given every requested transaction answers).

import (
	"fmt"
	"go/ast"
	"go/token"
	"sort"
	"strconv"
	"strings"
)

func init() {
	propertyRules["C10"] = []ruleFn{ruleEpochOwner, ruleTimerOwner, ruleInitArms, ruleRearm, ruleTimeoutNonNeg}
	propertyExplain["C10"] = "Inductive argument whose obligations are all static: BlockIndex/ViewNumber are written only by the epoch writer (O-EPOCH); Timer.Reset is called only from one wrapper with (BlockIndex, ViewNumber) read at the call (O-TIMER-RESET, P-TIMER-EPOCH); in every initialiser every non-watch-only path from the epoch-writer call to a return passes the wrapper and no epoch write follows the last arming (M-INIT-ARMS); every admitted timeout path re-arms (M-REARM); durations handed to the wrapper are non-negative by construction where measured quantities are subtracted (A-TIMEOUT-NONNEG). For the shipped timer (package timer) Extend never leaves a pending expiry disarmed (A-EXTEND). Adequacy of the durations and that an injected timer fires are not decided."
	propertyRules["C12"] = []ruleFn{ruleStaleIndex, ruleAnswer, ruleRejectSet, ruleRequestTx, ruleViewResetCover}
	propertyRules["C12"] = append(propertyRules["C12"], ruleCompletionNoticed, ruleOwnAnswerComplete)
	propertyExplain["C12"] = "STALE-MISSING: an index derived from MissingTransactions is never used on that slice after a call that may rewrite it; M-ANSWER: in the function recording a delivered transaction every path on which all transactions are present and the node is a non-watch-only backup ends in a PrepareResponse send or in the verifier's false result, whose summary must send a ChangeView; G-REJECT-SET: OnTransaction rejects a delivery only for the reasons the property allows; P-REQUEST: RequestTx receives the missing list. Interleavings with double deliveries and timing against the view timer are not decided."
}

func (c *RC) timerWrappers() []*FuncInfo {
	seen := map[*FuncInfo]bool{}
	var out []*FuncInfo
	for _, s := range c.callSites("if:Timer.Reset") {
		if !seen[s.Fn] {
			seen[s.Fn] = true
			out = append(out, s.Fn)
		}
	}
	return out
}

// O-TIMER-RESET + P-TIMER-EPOCH
func ruleTimerOwner(c *RC) *RuleResult {
	r := &RuleResult{Rule: "O-TIMER-RESET", Kind: "OWN+PROV", Doc: "Timer.Reset is called from exactly one wrapper, with (BlockIndex, ViewNumber) read at the call"}
	ss := c.callSites("if:Timer.Reset")
	if len(ss) == 0 {
		r.unresolved("call site of Timer.Reset")
		return r
	}
	ws := c.timerWrappers()
	r.Sites++
	if len(ws) == 1 && len(ss) == 1 {
		r.ok("Timer.Reset is called only from " + ws[0].Name)
	} else {
		var ns []string
		for _, s := range ss {
			ns = append(ns, s.Fn.Name)
		}
		r.fail("Timer.Reset/sites:"+strings.Join(ns, ","), c.Prog.Pos(ss[len(ss)-1].Node), fmt.Sprintf("Timer.Reset has %d call sites in %d functions (the arming wrapper must be unique)", len(ss), len(ws)))
	}
	for _, s := range ss {
		for _, sn := range s.Snaps {
			r.Sites++
			if len(sn.Args) == 3 && sn.Args[0].S == "ctx.BlockIndex" && sn.Args[1].S == "ctx.ViewNumber" {
				r.ok(s.Fn.Name + ": Timer.Reset(BlockIndex, ViewNumber, _)")
			} else {
				got := "?"
				if len(sn.Args) >= 2 {
					got = sn.Args[0].S + ", " + sn.Args[1].S
				}
				r.fail(s.Fn.Name+"/timer-epoch", c.Prog.Pos(s.Node), "Timer.Reset armed for ("+got+") instead of the current (BlockIndex, ViewNumber)")
			}
		}
	}
	return r
}

func lastIndex(log []string, e string) int {
	for i := len(log) - 1; i >= 0; i-- {
		if log[i] == e {
			return i
		}
	}
	return -1
}

func isWatchOnlyState(st *State) bool {
	if v, ok := st.F.value(mkAtom("lt", tMyIndex, tZero)); ok && v {
		return true
	}
	if v, ok := st.F.value(mkAtom("b", mkTerm(KCall, "cfg.WatchOnly"), nil)); ok && v {
		return true
	}
	return false
}

// M-INIT-ARMS
func ruleInitArms(c *RC) *RuleResult {
	r := &RuleResult{Rule: "M-INIT-ARMS", Kind: "MUST", Doc: "initialiser: every non-watch-only path from the epoch-writer call to a return arms the timer, and no epoch-writer call follows the last arming"}
	inis := c.initialisers()
	if len(inis) == 0 || c.A.epochWriter == nil {
		r.unresolved("initialiser / epoch writer")
		return r
	}
	ew := "fn:" + c.A.epochWriter.Name
	for _, ini := range inis {
		exits := c.exitsOf(ini)
		n := 0
		for _, e := range exits {
			iw := lastIndex(e.Log, ew)
			if iw < 0 {
				continue
			}
			r.Sites++
			n++
			if isWatchOnlyState(e) {
				r.ok(ini.Name + ": watch-only exit (no timer needed)")
				continue
			}
			it := lastIndex(e.Log, "if:Timer.Reset")
			if it > iw {
				r.ok(ini.Name + ": epoch write followed by arming on path {" + strings.Join(e.Trail, "; ") + "}")
			} else {
				r.fail(ini.Name+"/arm-after-epoch-write", c.Prog.Pos(ini.Decl), "a path returns after the epoch write without arming the timer for the new epoch: {"+strings.Join(e.Trail, "; ")+"}")
			}
		}
		if n == 0 {
			r.unresolved("paths of " + ini.Name + " through the epoch writer")
		}
	}
	// the initialiser's arming is final for its epoch: a function that calls something which may have entered a new epoch
	// (the call may reach an initialiser) does not arm the timer afterwards — it would overwrite the new epoch's duration
	// (zero for a primary that must propose at once) with one computed for the old epoch
	isIni := map[*FuncInfo]bool{}
	for _, i := range inis {
		isIni[i] = true
	}
	reach := map[*FuncInfo]bool{}
	var reaches func(f *FuncInfo, seen map[*FuncInfo]bool) bool
	reaches = func(f *FuncInfo, seen map[*FuncInfo]bool) bool {
		if isIni[f] {
			return true
		}
		if v, ok := reach[f]; ok {
			return v
		}
		if seen[f] {
			return false
		}
		seen[f] = true
		for _, s := range c.A.FnSites[f] {
			if s.Kind == "call" && s.Target != nil && reaches(s.Target, seen) {
				reach[f] = true
				return true
			}
		}
		reach[f] = false
		return false
	}
	// (only the function's own calls of the arming wrapper: `if:Timer.Reset` entries of the log also stand for arming done
	// inside a callee)
	wrappers := map[string]bool{}
	for _, w := range c.timerWrappers() {
		wrappers["fn:"+w.Name] = true
	}
	for _, fn := range c.Prog.dbftFuncs() {
		if isIni[fn] || c.A.higherOrder(fn) {
			continue
		}
		arms := false
		for _, s := range c.A.FnSites[fn] {
			if s.Kind == "call" && wrappers[s.Callee] && !wrappers["fn:"+fn.Name] {
				arms = true
			}
		}
		if !arms {
			continue
		}
		bad := ""
		for _, e := range c.exitsOf(fn) {
			after := false
			for _, ev := range e.Log {
				if strings.HasPrefix(ev, "fn:") && !wrappers[ev] {
					if g := c.Prog.fn(strings.TrimPrefix(ev, "fn:")); g != nil && g != fn && reaches(g, map[*FuncInfo]bool{}) {
						after = true
						continue
					}
				}
				if after && wrappers[ev] {
					bad = ev + " after a call that may have entered a new epoch on path {" + strings.Join(e.Trail, "; ") + "}"
				}
			}
		}
		r.Sites++
		if bad == "" {
			r.ok(fn.Name + ": never arms the timer after a call that may have changed the epoch")
		} else {
			r.fail(fn.Name+"/arm-after-init", c.Prog.Pos(fn.Decl), "the timer is armed again after the initialiser may already have armed it for a new epoch: "+bad)
		}
	}
	return r
}

func (c *RC) timeoutHandler() *FuncInfo {
	ot := c.API["OnTimeout"]
	if ot == nil {
		return nil
	}
	var th *FuncInfo
	for _, s := range c.A.FnSites[ot] {
		if s.Kind == "call" && s.Target != nil && len(s.Target.Params) >= 2 {
			th = s.Target
			break
		}
	}
	// a wrapper that only forwards (height, view) to another function is not the handler
	for hop := 0; th != nil && hop < 3; hop++ {
		if len(th.Decl.Body.List) != 1 {
			break
		}
		es, ok := th.Decl.Body.List[0].(*ast.ExprStmt)
		if !ok {
			break
		}
		call, ok := es.X.(*ast.CallExpr)
		if !ok || len(call.Args) < 2 {
			break
		}
		w := &Walker{A: c.A, Fn: th, info: th.Pkg.TypesInfo}
		next := w.staticCallee(call)
		if next == nil || len(next.Params) < 2 {
			break
		}
		fwd := true
		for i := 0; i < 2; i++ {
			id, ok := ast.Unparen(call.Args[i]).(*ast.Ident)
			if !ok || th.Pkg.TypesInfo.Uses[id] != th.Params[i] {
				fwd = false
			}
		}
		if !fwd {
			break
		}
		th = next
	}
	return th
}

// M-REARM
func ruleRearm(c *RC) *RuleResult {
	r := &RuleResult{Rule: "M-REARM", Kind: "MUST", Doc: "timeout handler: every path past the admission guards (height and view match) arms the timer"}
	th := c.timeoutHandler()
	if th == nil {
		r.unresolved("timeout handler (callee of OnTimeout)")
		return r
	}
	hp, vp := mkTerm(KParam, th.Params[0].Name()), mkTerm(KParam, th.Params[1].Name())
	adm1, adm2 := mkAtom("eq", hp, tBlockIndex).S, mkAtom("eq", vp, tViewNumber).S
	n := 0
	for _, e := range c.exitsOf(th) {
		a1, a2 := false, false
		for _, l := range e.TrailL {
			if l.Pos && l.A.S == adm1 {
				a1 = true
			}
			if l.Pos && l.A.S == adm2 {
				a2 = true
			}
		}
		if !a1 || !a2 {
			continue
		}
		n++
		r.Sites++
		if e.Events["if:Timer.Reset"] {
			r.ok(th.Name + ": admitted timeout re-arms on path {" + strings.Join(e.Trail, "; ") + "}")
		} else {
			r.fail(th.Name+"/rearm", c.Prog.Pos(th.Decl), "an admitted timeout returns without re-arming the timer: {"+strings.Join(e.Trail, "; ")+"}")
		}
	}
	if n < 4 {
		r.unresolved(fmt.Sprintf("admitted paths of the timeout handler (found %d)", n))
	}
	if len(r.Samples) > 3 {
		r.Samples = r.Samples[:3]
	}
	return r
}

// nonNegTerm: durations that are non-negative by construction (A10: configured durations are >= 0 and max >= min)
func nonNegTerm(t *Term) (bool, string) {
	switch t.K {
	case KConst:
		return !strings.HasPrefix(t.S, "-"), "constant"
	case KField:
		if t.S == "ctx.timePerBlock" || t.S == "ctx.maxTimePerBlock" {
			return true, "configured duration"
		}
		return false, "field " + t.S
	case KCall:
		if t.Name == "max" {
			for _, a := range t.Args {
				if a.K == KConst && a.S == "0" {
					return true, "max(0, ·)"
				}
			}
			ok := true
			for _, a := range t.Args {
				if g, _ := nonNegTerm(a); !g {
					ok = false
				}
			}
			return ok, "max"
		}
		return false, "call " + t.Name
	case KBin:
		a, wa := nonNegTerm(t.Args[0])
		b, wb := nonNegTerm(t.Args[1])
		switch t.Name {
		case "+", "*", "/", "<<":
			if t.Name == "<<" {
				// a left shift keeps the sign only while it does not overflow: by a small constant it does (configured
				// durations are far below 2^40 ns), by the view number it does not — the view is a byte and 10 s << 28
				// already is negative — unless the amount is capped
				amt := t.Args[1]
				switch {
				case amt.K == KConst:
					if n, err := strconv.Atoi(amt.S); err == nil && n >= 0 && n <= 8 {
						return a, "shift of " + wa
					}
				case amt.K == KCall && amt.Name == "min":
					for _, x := range amt.Args {
						if x.K == KConst {
							if n, err := strconv.Atoi(x.S); err == nil && n >= 0 && n <= 20 {
								return a, "capped shift of " + wa
							}
						}
					}
				}
				return false, "SHIFT-OVERFLOW: " + wa + " is shifted left by " + amt.S + ", which is not bounded: for high views the int64 duration overflows and becomes negative"
			}
			return a && b, wa + t.Name + wb
		case "-":
			// difference of two configured durations (A10: max >= min); anything measured must be clamped
			if configOnly(t.Args[0]) && configOnly(t.Args[1]) {
				return true, "difference of configured durations (A10)"
			}
			return false, "subtraction of a measured quantity without a final max(0, ·)"
		}
	}
	return false, "opaque value " + t.S
}

func configOnly(t *Term) bool {
	switch t.K {
	case KConst:
		return true
	case KField:
		return t.S == "ctx.timePerBlock" || t.S == "ctx.maxTimePerBlock"
	case KBin:
		return configOnly(t.Args[0]) && (t.Name == "<<" || configOnly(t.Args[1]))
	}
	return false
}

// A-TIMEOUT-NONNEG
func ruleTimeoutNonNeg(c *RC) *RuleResult {
	r := &RuleResult{Rule: "A-TIMEOUT-NONNEG", Kind: "ARITH", Doc: "every duration handed to the arming wrapper is non-negative by construction: configured durations, their shifts/sums, differences of configured durations (A10), or max(0, ·) applied last"}
	ws := c.timerWrappers()
	if len(ws) == 0 {
		r.unresolved("timer wrapper")
		return r
	}
	n := 0
	for _, w := range ws {
		for _, s := range c.A.callers[w] {
			for _, sn := range c.preciseSnaps(s) {
				if len(sn.Args) == 0 {
					continue
				}
				n++
				r.Sites++
				arg := sn.Args[len(sn.Args)-1]
				if ok, why := nonNegTerm(arg); ok {
					r.ok(fmt.Sprintf("%s@%s: %s — %s", s.Fn.Name, c.Prog.Pos(s.Node), arg.S, why))
				} else if strings.Contains(why, "SHIFT-OVERFLOW: ") {
					r.fail(c.armerRole(c.servedRoot(s.Fn))+"/duration-shift-overflow", c.Prog.Pos(s.Node), "duration "+arg.S+" may be negative: "+why[strings.Index(why, "SHIFT-OVERFLOW: ")+len("SHIFT-OVERFLOW: "):])
				} else {
					r.fail(s.Fn.Name+"/duration", c.Prog.Pos(s.Node), "duration "+arg.S+" may be negative: "+why)
				}
			}
		}
	}
	if n < 6 {
		r.unresolved(fmt.Sprintf("calls of the arming wrapper (found %d)", n))
	}
	if len(r.Samples) > 4 {
		r.Samples = r.Samples[:4]
	}
	return r
}

// ---- C12 ----

// STALE-MISSING (generalised: any index derived from a slice-valued Context field)
func ruleStaleIndex(c *RC) *RuleResult {
	r := &RuleResult{Rule: "STALE-INDEX", Kind: "STALE", Doc: "a value derived from a slice-valued Context field is not used to index/slice/delete from that field after a call that may rewrite the field"}
	n := 0
	for _, fn := range c.Prog.dbftFuncs() {
		for _, s := range c.A.FnSites[fn] {
			switch {
			case s.Kind == "index":
				for _, sn := range s.Snaps {
					n++
					if sn.Idx != nil && strings.Contains(sn.Idx.S, "l:stale:"+s.Loc+":") {
						r.Sites++
						r.fail(fn.Name+"/stale-index:"+s.Loc, c.Prog.Pos(s.Node), "index "+sn.Idx.S+" was derived from "+s.Loc+" before a call that may rewrite it")
					}
				}
			case s.Kind == "call" && strings.HasPrefix(s.Callee, "ext:slices."):
				for _, sn := range s.Snaps {
					n++
					r.Sites++
					if len(sn.Args) < 2 || sn.Args[0].K != KField {
						r.ok(fn.Name + ": " + s.Callee + " on a local value")
						continue
					}
					loc := locOf(sn.Args[0].Name)
					bad := false
					for _, a := range sn.Args[1:] {
						if strings.Contains(a.S, "l:stale:"+loc+":") {
							bad = true
						}
					}
					if bad {
						r.fail(fn.Name+"/stale-index:"+loc, c.Prog.Pos(s.Node), s.Callee+" on "+loc+" uses an index computed before a call that may rewrite "+loc+" (the entry of another proposal may be removed, or the call panics)")
					} else {
						r.ok(fmt.Sprintf("%s@%s: %s(%s, fresh index)", fn.Name, c.Prog.Pos(s.Node), s.Callee, loc))
					}
				}
			}
		}
	}
	if n < 20 {
		r.unresolved("index sites")
	}
	return r
}

// recorder: callee of OnTransaction that writes ctx.Transactions
func (c *RC) txRecorder() *FuncInfo {
	ot := c.API["OnTransaction"]
	if ot == nil {
		return nil
	}
	for _, s := range c.A.FnSites[ot] {
		if s.Kind == "call" && s.Target != nil {
			for _, w := range c.A.FnSites[s.Target] {
				if w.Kind == "write" && w.Loc == "ctx.Transactions" {
					return s.Target
				}
			}
		}
	}
	// (the recording may be written out in the entry itself)
	for _, w := range c.A.FnSites[ot] {
		if w.Kind == "write" && w.Loc == "ctx.Transactions" {
			return ot
		}
	}
	return nil
}

func (c *RC) senderOf(kind string) []*FuncInfo {
	seen := map[*FuncInfo]bool{}
	var out []*FuncInfo
	for _, s := range c.sendSitesOf(kind) {
		if !seen[s.Fn] {
			seen[s.Fn] = true
			out = append(out, s.Fn)
		}
	}
	return out
}

// M-ANSWER
func ruleAnswer(c *RC) *RuleResult {
	r := &RuleResult{Rule: "M-ANSWER", Kind: "MUST", Doc: "transaction recorder: all transactions present ∧ backup ∧ ¬watch-only ⇒ PrepareResponse sent, or the verifier returned false (which must send a ChangeView)"}
	rec := c.txRecorder()
	resp := c.senderOf("PrepareResponseType")
	ver := c.topVerifiers()
	cvs := c.senderOf("ChangeViewType")
	if rec == nil || len(resp) == 0 || len(ver) == 0 || len(cvs) == 0 {
		r.unresolved("transaction recorder / response sender / verifier / ChangeView sender")
		return r
	}
	allTx := fAllTx().Atom.S
	n := 0
	for _, e := range c.exitsOf(rec) {
		has := false
		for _, l := range e.TrailL {
			if l.Pos && l.A.S == allTx {
				has = true
			}
		}
		if !has {
			continue
		}
		// backup and not watch-only on this path?
		if isWatchOnlyState(e) {
			continue
		}
		if v, ok := e.F.value(mkAtom("eq", tMyIndex, tPrimaryIndex)); ok && v {
			continue
		}
		isPrimTrail := false
		for _, l := range e.TrailL {
			if l.Pos && l.A.S == "ctx.MyIndex==ctx.PrimaryIndex" {
				isPrimTrail = true
			}
		}
		if isPrimTrail {
			continue
		}
		n++
		r.Sites++
		answered := false
		for _, f := range resp {
			if e.Events["fn:"+f.Name] {
				answered = true
			}
		}
		for _, f := range ver {
			if e.Events["fn:"+f.Name+"=false"] {
				answered = true
			}
		}
		if answered {
			r.ok(rec.Name + ": completed proposal is answered on path {" + strings.Join(e.Trail, "; ") + "}")
		} else {
			r.fail(rec.Name+"/answer", c.Prog.Pos(rec.Decl), "all transactions present on a backup but the path ends without a PrepareResponse or a ChangeView: {"+strings.Join(e.Trail, "; ")+"}")
		}
	}
	if n == 0 {
		r.unresolved("completing paths of the transaction recorder")
	}
	// the verifier's false result sends a ChangeView
	notWO := []Lit{{mkAtom("lt", tMyIndex, tZero), false}, {mkAtom("b", mkTerm(KCall, "cfg.WatchOnly"), nil), false}}
	for _, v := range ver {
		r.Sites++
		st := newState()
		for _, l := range notWO {
			st.F.add(l)
		}
		bad := ""
		nf := 0
		for _, e := range c.exitsFrom(v, st, false) {
			if len(e.Ret) == 0 || e.Ret[0].S != "false" {
				continue
			}
			nf++
			sent := false
			for _, f := range cvs {
				if e.Events["fn:"+f.Name] {
					sent = true
				}
			}
			if !sent {
				bad = "{" + strings.Join(e.Trail, "; ") + "}"
			}
		}
		if nf == 0 {
			bad = "no false-returning path"
		}
		if bad != "" && nf > 0 {
			// the verifier only reports; then every caller must ask for the view change after a false result
			callersOK, ncallers := true, 0
			seenFn := map[*FuncInfo]bool{}
			for _, cs := range c.A.callers[v] {
				if seenFn[cs.Fn] {
					continue
				}
				seenFn[cs.Fn] = true
				ncallers++
				st2 := newState()
				for _, l := range notWO {
					st2.F.add(l)
				}
				for _, e := range c.exitsFrom(cs.Fn, st2, false) {
					if !e.Events["fn:"+v.Name+"=false"] {
						continue
					}
					sent := false
					for _, f := range cvs {
						if e.Events["fn:"+f.Name] {
							sent = true
						}
					}
					if !sent {
						callersOK = false
						bad = "in " + cs.Fn.Name + " {" + strings.Join(e.Trail, "; ") + "}"
					}
				}
			}
			if callersOK && ncallers > 0 {
				bad = ""
			}
		}
		if bad == "" {
			r.ok(v.Name + ": every false result is accompanied by the ChangeView sender (in the verifier or in each of its callers)")
		} else {
			r.fail(v.Name+"/false-sends-cv", c.Prog.Pos(v.Decl), "the verifier returns false without asking for a view change on path "+bad)
		}
	}
	// the ChangeView sender called with a non-timeout reason on a non-watch-only node broadcasts
	for _, f := range cvs {
		if len(f.Params) != 1 || namedName(f.Params[0].Type()) != "ChangeViewReason" {
			continue
		}
		r.Sites++
		st := newState()
		for _, l := range notWO {
			st.F.add(l)
		}
		st.F.add(Lit{mkAtom("eq", mkTerm(KParam, f.Params[0].Name()), constTerm("CVTimeout")), false})
		bad := ""
		for _, e := range c.exitsFrom(f, st, false) {
			okk := false
			for w := range c.wrappers {
				if e.Events["fn:"+w.Name] {
					okk = true
				}
			}
			if !okk || !e.Events["cb:NewChangeView"] {
				bad = "{" + strings.Join(e.Trail, "; ") + "}"
			}
		}
		if bad == "" {
			r.ok(f.Name + "(reason≠timeout) always broadcasts on a validator")
		} else {
			r.fail(f.Name+"/cv-broadcast", c.Prog.Pos(f.Decl), "ChangeView sender returns without broadcasting for a non-timeout reason on path "+bad)
		}
	}
	return r
}

// G-REJECT-SET
func ruleRejectSet(c *RC) *RuleResult {
	r := &RuleResult{Rule: "G-REJECT-SET", Kind: "GUARD", Doc: "OnTransaction drops a delivery only when: not a backup, view changing, no proposal, response/pre-commit/commit/block already sent, nothing missing, or the transaction was not requested"}
	ot := c.API["OnTransaction"]
	if ot == nil {
		r.unresolved("OnTransaction")
		return r
	}
	allowed := func(l Lit) bool {
		s := l.A.S
		switch {
		case l.Pos && (s == "ctx.MyIndex<0" || s == "ctx.MyIndex==ctx.PrimaryIndex"):
			return true
		case !l.Pos && s == "ctx.PreparationPayloads[ctx.PrimaryIndex]!=nil":
			return true
		case l.Pos && (s == "ctx.PreparationPayloads[ctx.MyIndex]!=nil" || s == "ctx.PreCommitPayloads[ctx.MyIndex]!=nil" || s == "ctx.CommitPayloads[ctx.MyIndex]!=nil" || s == "ctx.blockProcessed"):
			return true
		case l.Pos && strings.HasPrefix(s, "ctx.ViewNumber<ChangeView.NewViewNumber(ConsensusMessage.GetChangeView(ctx.ChangeViewPayloads[ctx.MyIndex]))"):
			return true
		case l.Pos && s == "len(ctx.MissingTransactions)==0":
			return true
		case l.Pos && strings.HasPrefix(s, "slices.Index(ctx.MissingTransactions,") && strings.HasSuffix(s, "<0"):
			return true
		}
		return false
	}
	n := 0
	for _, e := range c.exitsOf(ot) {
		if len(e.Killed) != 0 {
			continue // the delivery was acted upon
		}
		n++
		r.Sites++
		okk := false
		for _, l := range e.TrailL {
			if allowed(l) {
				okk = true
			}
		}
		// the reason may have been established inside an accessor walked inline (it is a fact of the path then, not one
		// of its branch literals)
		for k, v := range e.F.m {
			if at := e.F.atoms[k]; at != nil && allowed(Lit{at, v}) {
				okk = true
			}
		}
		if okk {
			r.ok("rejection path has an allowed reason: {" + strings.Join(e.Trail, "; ") + "}")
		} else {
			r.fail(ot.Name+"/reject-reason", c.Prog.Pos(ot.Decl), "a delivery is dropped for a reason outside the allowed set on path {"+strings.Join(e.Trail, "; ")+"}")
		}
	}
	if n < 5 {
		r.unresolved("rejection paths of OnTransaction")
	}
	if len(r.Samples) > 3 {
		r.Samples = r.Samples[:3]
	}
	return r
}

// P-REQUEST
func ruleRequestTx(c *RC) *RuleResult {
	r := &RuleResult{Rule: "P-REQUEST", Kind: "PROV", Doc: "RequestTx receives MissingTransactions, which is appended only for hashes absent from Transactions and from GetTx"}
	ss := c.callSites("cb:RequestTx")
	if len(ss) == 0 {
		r.unresolved("call site of Config.RequestTx")
	}
	for _, s := range ss {
		for _, sn := range s.Snaps {
			r.Sites++
			if len(sn.Args) == 1 && sn.Args[0].S == "ctx.MissingTransactions" {
				r.ok(s.Fn.Name + ": RequestTx(MissingTransactions...)")
			} else {
				r.fail(s.Fn.Name+"/RequestTx-arg", c.Prog.Pos(s.Node), "RequestTx is not handed the missing-transaction list")
			}
		}
	}
	// writers of the missing list: appended by the requester, one entry deleted per delivered transaction, cleared only
	// by the epoch writer (anything else forgets requests the application is still answering)
	for _, s := range c.writesTo("ctx.MissingTransactions") {
		for _, sn := range s.Snaps {
			if sn.Val == nil {
				continue
			}
			r.Sites++
			v := sn.Val
			switch {
			case v.K == KCall && v.Name == "append":
				r.ok(s.Fn.Name + ": append to the missing list")
			case v.K == KLocal && strings.HasPrefix(v.Name, "ext:slices.Delete"):
				if s.Fn == c.API["OnTransaction"] {
					r.ok(s.Fn.Name + ": one entry deleted for the delivered transaction")
				} else {
					r.fail(s.Fn.Name+"/missing-delete", c.Prog.Pos(s.Node), "entries of the missing list are deleted outside OnTransaction")
				}
			case c.clearedValue(v):
				// (the function that makes the list may empty it first: what is still missing is listed again right away)
				rebuilds := false
				var appends func(f *FuncInfo, after token.Pos, depth int)
				appends = func(f *FuncInfo, after token.Pos, depth int) {
					for _, s2 := range c.A.FnSites[f] {
						if s2.Node.Pos() <= after {
							continue
						}
						if s2.Kind == "write" && s2.Loc == "ctx.MissingTransactions" {
							for _, sn2 := range s2.Snaps {
								if sn2.Val != nil && sn2.Val.K == KCall && sn2.Val.Name == "append" {
									rebuilds = true
								}
							}
						}
						// (the filling may sit in a helper the function calls next)
						if s2.Kind == "call" && s2.Target != nil && depth < 2 {
							appends(s2.Target, token.NoPos, depth+1)
						}
					}
				}
				appends(s.Fn, s.Node.Pos(), 0)
				if c.inEpoch(s.Fn) {
					r.ok("missing list cleared by the epoch writer")
				} else if rebuilds {
					r.ok(s.Fn.Name + ": the missing list is emptied and made anew from the proposal's hashes")
				} else {
					r.fail(s.Fn.Name+"/missing-cleared", c.Prog.Pos(s.Node), "the missing-transaction list is cleared in "+s.Fn.Name+" (outside the epoch writer): requested transactions delivered afterwards are ignored")
				}
			default:
				r.fail(s.Fn.Name+"/missing-write", c.Prog.Pos(s.Node), "unexpected write of the missing-transaction list: "+v.S)
			}
		}
	}
	// appends to MissingTransactions are under "GetTx(h) == nil" for the ranged hash
	for _, s := range c.writesTo("ctx.MissingTransactions") {
		for _, sn := range s.Snaps {
			if sn.Val == nil || sn.Val.K != KCall || sn.Val.Name != "append" {
				continue
			}
			r.Sites++
			okk := false
			for k, v := range sn.F.m {
				if !v && strings.HasPrefix(k, "l:cbres:GetTx:") {
					okk = true
				}
			}
			// (the lookup may sit in a helper that reports "not found": its false result on the path, and it is the one
			// place that asks the pool)
			getters := c.funcsReaching("cb:GetTx")
			for ev := range sn.Events {
				if strings.HasPrefix(ev, "fn:") && strings.HasSuffix(ev, "=false") {
					if f := c.Prog.fn(strings.TrimSuffix(strings.TrimPrefix(ev, "fn:"), "=false")); f != nil && getters[f] {
						okk = true
					}
				}
			}
			elem := false
			if len(sn.Val.Args) == 2 {
				a := sn.Val.Args[1]
				// the ranged element, or the table indexed by its own range key
				elem = a.K == KElem && strings.Contains(a.S, "ctx.TransactionHashes") ||
					a.K == KIndex && a.Args[0].S == "ctx.TransactionHashes" && a.Args[1].K == KLocal && strings.HasPrefix(a.Args[1].Name, "rangekey:") && strings.HasSuffix(a.Args[1].Name, ":ctx.TransactionHashes")
			}
			if okk && elem {
				r.ok(s.Fn.Name + ": hash appended to MissingTransactions only when GetTx returned nil, for the ranged proposal hash")
			} else {
				r.fail(s.Fn.Name+"/missing-append", c.Prog.Pos(s.Node), "MissingTransactions appended without the GetTx==nil test or with something other than the ranged proposal hash")
			}
		}
	}
	return r
}

// servedRoot: the function a single-caller helper serves (the helper is part of its caller in all but name), so that a
// construct keeps its identity when a piece of a function is moved into a helper of its own.
func (c *RC) servedRoot(fn *FuncInfo) *FuncInfo {
	for i := 0; i < 8 && c.A.inlinable(fn); i++ {
		var up *FuncInfo
		for _, s := range c.A.callers[fn] {
			if up != nil && up != s.Fn {
				return fn
			}
			up = s.Fn
		}
		if up == nil {
			return fn
		}
		fn = up
	}
	return fn
}

// armerRole: a function's name in terms of what it does for the state machine (so that a finding keeps its identity when
// the function is renamed): the initialiser (it calls the epoch writer), the sender of a payload kind, else its name.
func (c *RC) armerRole(fn *FuncInfo) string {
	for _, ini := range c.initialisers() {
		if ini == fn {
			return "initialiser"
		}
	}
	var kinds []string
	for _, ss := range c.sendSites {
		if ss.Site.Fn == fn {
			for _, k := range ss.Kinds {
				if !strings.HasPrefix(k, "?") {
					kinds = append(kinds, k)
				}
			}
		}
	}
	sort.Strings(kinds)
	if len(kinds) > 0 {
		return "sender:" + kinds[0]
	}
	return fn.Name
}

// M-COMPLETION-NOTICED (C12): the proposal's transactions can be completed by any function that stores into the
// transaction table, not only by the one serving OnTransaction (a re-query of the pool, say). Whoever stores there must,
// before control leaves the library, look whether the proposal is complete now — and if it is, have it verified and
// answered like the recorder does. A completion nobody notices leaves the node with all transactions, no check of the
// block and no answer; the next quorum of preparations makes it commit to a block it never verified.
func ruleCompletionNoticed(c *RC) *RuleResult {
	r := &RuleResult{Rule: "M-COMPLETION-NOTICED", Kind: "MUST", Doc: "every function that stores a transaction of the proposal is followed — in itself or in each of its callers — by a test whether the proposal is complete, and on completion by the block check (or the node is the primary / watch-only / has answered already)"}
	ver := c.topVerifiers()
	resp := c.senderOf("PrepareResponseType")
	if len(ver) == 0 || len(resp) == 0 {
		r.unresolved("verifier / response sender")
		return r
	}
	builders := map[*FuncInfo]bool{}
	for _, f := range c.senderOf("PrepareRequestType") {
		builders[c.phaseRoot(f)] = true
		builders[f] = true
	}
	// ... and what only they call: the primary fills in its own proposal from the pool it has itself verified
	var onlyBuilders func(f *FuncInfo, depth int) bool
	onlyBuilders = func(f *FuncInfo, depth int) bool {
		if builders[f] {
			return true
		}
		cs := c.A.callers[f]
		if len(cs) == 0 || depth > 3 {
			return false
		}
		for _, s := range cs {
			if !onlyBuilders(s.Fn, depth+1) {
				return false
			}
		}
		return true
	}
	allTx := fAllTx().Atom
	judge := func(e *State) string {
		for _, f := range ver {
			if e.Events["fn:"+f.Name] || e.Events["fn:"+f.Name+"=false"] {
				return ""
			}
		}
		for _, f := range resp {
			if e.Events["fn:"+f.Name] {
				return ""
			}
		}
		for _, ini := range c.initialisers() {
			if e.Events["fn:"+ini.Name] {
				return "" // a new epoch: the table was cleared with it
			}
		}
		if v, known := e.F.value(allTx); known && !v {
			return "" // looked, and something is still missing
		}
		if isWatchOnlyState(e) {
			return ""
		}
		if v, ok := e.F.value(mkAtom("eq", tMyIndex, tPrimaryIndex)); ok && v {
			return ""
		}
		// answered (or moved on) already: own preparation / pre-commit / commit is there
		for _, tbl := range []string{"ctx.PreparationPayloads", "ctx.PreCommitPayloads", "ctx.CommitPayloads"} {
			if v, ok := e.F.value(mkAtom("nn", mkTerm(KIndex, "", fld(tbl, false), tMyIndex), nil)); ok && v {
				return ""
			}
		}
		if v, known := e.F.value(allTx); known && v {
			return "the proposal is complete on path {" + strings.Join(e.Trail, "; ") + "} and the block is neither checked nor answered"
		}
		return "nobody looks whether the proposal is complete after the store, on path {" + strings.Join(e.Trail, "; ") + "}"
	}
	seen := map[*FuncInfo]bool{}
	for _, ws := range c.writesTo("ctx.Transactions") {
		elem := false // a store of one element (not the table being replaced or cleared)
		for _, sn := range ws.Snaps {
			if sn.Idx != nil {
				elem = true
			}
		}
		if c.inEpoch(ws.Fn) || !elem {
			continue
		}
		root := c.phaseRoot(ws.Fn)
		if seen[root] || onlyBuilders(root, 0) {
			continue
		}
		seen[root] = true
		r.Sites++
		bad := ""
		for _, e := range c.exitsOf(root) {
			if e.Killed["ctx.Transactions"] == 0 {
				continue // (a store inside a loop shows as a kill of the table, not as an event of the path)
			}
			if why := judge(e); why != "" {
				bad = why
			}
		}
		if bad == "" {
			r.ok(root.Name + ": a stored transaction is followed by the completeness test, and completion by the block check")
			continue
		}
		callers := c.A.callers[root]
		if len(callers) == 0 {
			r.fail(root.Name+"/completion-unnoticed", c.Prog.Pos(root.Decl), root.Name+" stores a transaction of the proposal; "+bad)
			continue
		}
		seenG := map[*FuncInfo]bool{}
		okAll := true
		for _, cs := range callers {
			g := c.phaseRoot(cs.Fn)
			if seenG[g] || onlyBuilders(g, 0) {
				continue
			}
			seenG[g] = true
			for _, e := range c.exitsOf(g) {
				if !e.Events["fn:"+root.Name] || e.Killed["ctx.Transactions"] == 0 {
					continue
				}
				if why := judge(e); why != "" {
					okAll = false
					r.fail(g.Name+"/completion-unnoticed", c.Prog.Pos(cs.Node), fmt.Sprintf("%s (through %s) stores a transaction of the proposal; %s: a node that finds the last missing transaction this way holds a complete proposal it never verifies nor answers, and commits to it on the next quorum of preparations", g.Name, root.Name, why))
					break
				}
			}
		}
		if okAll {
			r.ok(root.Name + ": each caller tests completeness after the store and has a completed proposal checked")
		}
	}
	if r.Sites == 0 {
		r.unresolved("stores into the transaction table")
	}
	return r
}

// G-OWN-ANSWER-COMPLETE (C12): OnTransaction turns a delivery away when the node's own PrepareResponse, PreCommit or
// Commit is stored ("it has answered, it needs nothing more"). That reason is sound only while "own answer stored ⇒ all
// transactions of the proposal present" holds. The node's own sends keep it (they come after the block check). A handler
// that stores a RECEIVED payload into its sender's slot keeps it only if the sender cannot be the node itself or all
// transactions are known to be there: a node that restarted gets its own earlier answer back inside a recovery message
// while the transactions are still missing, and from then on every requested transaction is dropped.
func ruleOwnAnswerComplete(c *RC) *RuleResult {
	r := &RuleResult{Rule: "G-OWN-ANSWER-COMPLETE", Kind: "GUARD", Doc: "a received response / pre-commit / commit is stored into its sender's slot only when the sender is known not to be this node, or all transactions of the proposal are present (the transaction entry rejects deliveries once the node's own answer is stored)"}
	allTx := fAllTx().Atom
	tables := []string{"ctx.PreparationPayloads", "ctx.PreCommitPayloads", "ctx.CommitPayloads"}
	for _, tbl := range tables {
		for _, ws := range c.writesTo(tbl) {
			if ws.Store&KillNNSender == 0 || c.inEpoch(ws.Fn) {
				continue
			}
			r.Sites++
			bad := ""
			for _, sn := range ws.Snaps {
				if sn.Val != nil && sn.Val.K == KNil {
					continue
				}
				if senderIsNotOwn(sn.F) {
					continue
				}
				if v, known := sn.F.value(allTx); known && v {
					continue
				}
				// a node that takes no part has no answer of its own to restore
				if v, ok := sn.F.value(mkAtom("lt", tMyIndex, tZero)); ok && v {
					continue
				}
				// the slot of the view's primary holds the proposal, not an answer
				if sn.Idx != nil && sn.Idx.S == tPrimaryIndex.S {
					continue
				}
				if v, ok := sn.F.value(mkAtom("eq", sn.Idx, tPrimaryIndex)); sn.Idx != nil && ok && v {
					continue
				}
				bad = sn.Trail
			}
			// named by the handler's role (the kind of payload it serves), not by where the dispatch happens to live
			name := ws.Fn.Name
			hs := c.handlers()
			var kinds []string
			for k := range hs {
				kinds = append(kinds, k)
			}
			sort.Strings(kinds)
			for _, k := range kinds {
				if h := hs[k]; h == ws.Fn || c.A.cluster(h)[ws.Fn] {
					name = "handler:" + k
				}
			}
			if bad == "" {
				r.ok(fmt.Sprintf("%s: a payload stored into %s is not the node's own, or the transactions are there", name, tbl))
			} else {
				r.fail(name+"/own-answer-restored:"+strings.TrimPrefix(tbl, "ctx."), c.Prog.Pos(ws.Node), fmt.Sprintf("%s stores a received payload into its sender's slot of %s without knowing that the sender is another node or that all transactions are present (path {%s}): a restarted node gets its own earlier answer back in a recovery message while the proposal's transactions are missing, after which the transaction entry drops every requested transaction (\"already answered\") and the node can neither build the block nor leave the view", name, tbl, bad))
			}
		}
	}
	if r.Sites == 0 {
		r.unresolved("stores of received payloads into per-validator tables")
	}
	return r
}
