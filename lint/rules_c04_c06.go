package main

// C04 (quorum-gated progress), C06 (arithmetic), predicate definitions.

import (
	"fmt"
	"go/ast"
	"go/types"
	"strconv"
	"strings"
)

func init() {
	propertyRules["C04"] = []ruleFn{ruleAdmitPrep, ruleSendPResp2, ruleRespHash, ruleCommitQuorum, ruleRespMatch, ruleViewQuorum, ruleCVStore, ruleViewResetCover, ruleDefs}
	propertyExplain["C04"] = "Preconditions of PrepareResponse / (Pre)Commit / view change at every site that can perform them: a received preparation is stored only behind its admission condition (view, designated primary or non-primary, verification callback ok); the response is built only with the proposal recorded, all transactions present and after the block verifier returned true, and names the stored proposal's hash; (pre)commit only behind an M-of-N current-view preparation quorum containing the request; view change only behind an M-of-N ChangeView quorum for that view or above. Honesty of the counted validators and callback behaviour are not decided."
	propertyRules["C06"] = []ruleFn{ruleArithN, ruleArithF, ruleArithM, ruleArithPrimary, rulePurity, rulePrimaryField}
	propertyExplain["C06"] = "Affine/modular normal forms of the bodies of the exported N, F, M and GetPrimaryIndex: N ≡ len(Validators); F ≡ (N−1) div 3; M ≡ N − F; GetPrimaryIndex(v) ≡ r if r≥0 else r+N with r = (int(BlockIndex) − int(v)) mod N computed in signed arithmetic, hence in [0,N) for all N≥1. Purity of the four functions and single definition of PrimaryIndex. With these forms 2M−N > F and the rotation property are arithmetic facts. The uses are checked too: the acceptance, pre-acceptance, commit and view-change decisions compare their counts with M in normal form (G-ACCEPT, G-PREACCEPT, G-COMMIT-QUORUM, G-VIEW-QUORUM), the recovery responder window is F+1 and the exported F-based predicates mean what they say (DEF-PREDICATES). The same primary on 32-bit targets: no conversion in GetPrimaryIndex loses magnitude under the size model of GOARCH=386 (A-PRIMARY-WIDTH)."
}

// exitsOf walks a function standalone and returns its exit states.
func (c *RC) exitsOf(fn *FuncInfo) []*State {
	return c.A.walkFuncFull(fn, newState(), false, false, true, nil)
}

// exitsFrom: like exitsOf but from a given initial state (inline mode).
func (c *RC) exitsFrom(fn *FuncInfo, init *State, trackFields bool) []*State {
	return c.A.walkFuncFull(fn, init, false, trackFields, true, nil)
}

// inlineSites walks fn in inline mode recording sites (with the caller's context) into a private table.
func (c *RC) inlineSites(fn *FuncInfo, trackFields bool) *Analysis {
	rec := &Analysis{Prog: c.Prog, Sites: map[string]*Site{}, FnSites: map[*FuncInfo][]*Site{}}
	c.A.walkFuncFull(fn, newState(), true, trackFields, true, rec)
	return rec
}

// ---- C04 ----

// G-ADMIT-PREP: every store of a received payload into PreparationPayloads is behind the proposal
// admission or the response admission.
func ruleAdmitPrep(c *RC) *RuleResult {
	r := &RuleResult{Rule: "G-ADMIT-PREP", Kind: "GUARD", Doc: "PreparationPayloads[sender] = msg ⇒ same view ∧ ((sender is primary ∧ VerifyPrepareRequest ok ∧ no proposal yet) ∨ (sender is not primary ∧ VerifyPrepareResponse ok ∧ slot empty))"}
	var sites []*Site
	for _, s := range c.writesTo("ctx.PreparationPayloads") {
		recv := false
		for _, sn := range s.Snaps {
			if sn.Val != nil && sn.Val.K == KParam {
				recv = true
			}
		}
		if recv {
			sites = append(sites, s)
		}
	}
	if len(sites) < 2 {
		r.unresolved(fmt.Sprintf("stores of a received payload into PreparationPayloads (found %d, expected >= 2)", len(sites)))
	}
	c.guardRule(r, sites, c.apiList, func(s *Site, sn *Snap) *Formula {
		if sn.Val == nil || sn.Val.K != KParam || sn.Idx == nil {
			return nil
		}
		m := sn.Val
		vi := getter("ConsensusPayload", "ValidatorIndex", m, true)
		if sn.Idx.S != vi.S {
			return fFalse
		}
		view := eq(getter("ConsensusMessage", "ViewNumber", m, true), tViewNumber)
		isPrim := eq(vi, tPrimaryIndex)
		req := fAnd(isPrim, fNot(nn(mkTerm(KCall, "cfg.VerifyPrepareRequest", m))), fNot(fRSR()),
			eq(getter("ConsensusMessage", "Type", m, false), constTerm("PrepareRequestType")))
		resp := fAnd(fNot(isPrim), fNot(nn(mkTerm(KCall, "cfg.VerifyPrepareResponse", m))), fNot(nn(slot("PreparationPayloads", vi))),
			eq(getter("ConsensusMessage", "Type", m, false), constTerm("PrepareResponseType")))
		return fAnd(view, fOr(req, resp))
	}, nil)
	return r
}

// G-SEND-PRESP2
func ruleSendPResp2(c *RC) *RuleResult {
	r := &RuleResult{Rule: "G-SEND-PRESP2", Kind: "GUARD+MUST", Doc: "PrepareResponse ⇒ proposal recorded ∧ all transactions present ∧ node is a backup ∧ the block verifier returned true earlier on the path"}
	sites := c.callSites("cb:NewPrepareResponse")
	if len(sites) == 0 {
		r.unresolved("call site of Config.NewPrepareResponse")
	}
	c.guardRule(r, sites, c.apiList, func(s *Site, sn *Snap) *Formula { return fAnd(fRSR(), fAllTx(), fNot(fIsPrimary())) }, nil)
	// verifier role: bool functions calling VerifyBlock / VerifyPreBlock
	ver := c.verifierFuncs()
	if len(ver) == 0 {
		r.unresolved("block verifier (function calling Config.VerifyBlock/VerifyPreBlock)")
	}
	for _, v := range ver {
		r.Sites++
		// its 'true' exits have the callback's result true
		bad := ""
		nTrue := 0
		for _, e := range c.exitsOf(v) {
			if len(e.Ret) == 0 || e.Ret[0].S != "true" {
				continue
			}
			nTrue++
			okk := false
			for k, val := range e.F.m {
				if val && (strings.HasPrefix(k, "l:cbres:VerifyBlock:") || strings.HasPrefix(k, "l:cbres:VerifyPreBlock:")) {
					okk = true
				}
			}
			if !okk {
				bad = "a path returns true without a positive VerifyBlock/VerifyPreBlock result: {" + strings.Join(e.Trail, "; ") + "}"
			}
		}
		if nTrue == 0 {
			bad = "no path returns true"
		}
		if bad == "" {
			r.ok(v.Name + ": returns true only when Config.VerifyBlock/VerifyPreBlock returned true")
		} else {
			r.fail(v.Name+"/verifier-true", c.Prog.Pos(v.Decl), bad)
		}
		// anti-MEV selects the pre-block verifier
	}
	for _, s := range sites {
		r.Sites++
		var evs []string
		for _, v := range ver {
			evs = append(evs, "fn:"+v.Name+"=true")
		}
		if f := c.proveEvent(s, evs, c.apiList); f == nil {
			r.ok(fmt.Sprintf("%s@%s: preceded on every path by %s", s.Fn.Name, c.Prog.Pos(s.Node), strings.Join(evs, "|")))
		} else {
			r.fail(s.Fn.Name+"/verify-before-response via "+chainNames(f.Chain), c.Prog.Pos(s.Node), f.String())
		}
	}
	return r
}

func (c *RC) verifierFuncs() []*FuncInfo {
	if c.verifiers != nil {
		return c.verifiers
	}
	var out []*FuncInfo
	in := map[*FuncInfo]bool{}
	for _, fn := range c.Prog.dbftFuncs() {
		if !boolResult(fn) {
			continue
		}
		for _, s := range c.A.FnSites[fn] {
			if s.Kind == "call" && (s.Callee == "cb:VerifyBlock" || s.Callee == "cb:VerifyPreBlock") {
				out = append(out, fn)
				in[fn] = true
				break
			}
		}
	}
	// closure: a boolean function whose every true result comes after a verifier returned true is a verifier too
	// (the verification may have been split over helpers)
	for changed := true; changed; {
		changed = false
		for _, fn := range c.Prog.dbftFuncs() {
			if in[fn] || !boolResult(fn) || c.A.isPure(fn) {
				continue
			}
			calls := false
			for _, s := range c.A.FnSites[fn] {
				if s.Kind == "call" && s.Target != nil && in[s.Target] {
					calls = true
				}
			}
			if !calls {
				continue
			}
			nt, all := 0, true
			for _, e := range c.exitsOf(fn) {
				if len(e.Ret) == 0 || e.Ret[0].S != "true" {
					if len(e.Ret) > 0 && e.Ret[0].S != "false" {
						all = false // result not a constant on this path
					}
					continue
				}
				nt++
				has := false
				for v := range in {
					if e.Events["fn:"+v.Name+"=true"] {
						has = true
					}
				}
				all = all && has
			}
			if nt > 0 && all {
				in[fn] = true
				out = append(out, fn)
				changed = true
			}
		}
	}
	c.verifiers = out
	return out
}

// topVerifiers: verifiers that no other verifier calls (the ones whose result the handlers act upon).
func (c *RC) topVerifiers() []*FuncInfo {
	vs := c.verifierFuncs()
	in := map[*FuncInfo]bool{}
	for _, v := range vs {
		in[v] = true
	}
	called := map[*FuncInfo]bool{}
	for _, v := range vs {
		for _, s := range c.A.FnSites[v] {
			if s.Kind == "call" && s.Target != nil && in[s.Target] && s.Target != v {
				called[s.Target] = true
			}
		}
	}
	var out []*FuncInfo
	for _, v := range vs {
		if !called[v] {
			out = append(out, v)
		}
	}
	return out
}

// proveEvent: one of the events happened before the site on every path from the roots.
func (c *RC) proveEvent(site *Site, events []string, roots []*FuncInfo) *Failure {
	rootSet := map[*FuncInfo]bool{}
	for _, r := range roots {
		rootSet[r] = true
	}
	seen := map[*FuncInfo]bool{}
	var entry func(fn *FuncInfo) *Failure
	at := func(s *Site) *Failure {
		for _, sn := range s.Snaps {
			has := false
			for _, e := range events {
				if sn.Events[e] {
					has = true
				}
			}
			if has {
				continue
			}
			if f := entry(s.Fn); f != nil {
				return &Failure{Chain: append([]string{fmt.Sprintf("%s@%s", s.Fn.Name, c.Prog.Pos(s.Node))}, f.Chain...), Reason: f.Reason, Cex: "path {" + sn.Trail + "}"}
			}
		}
		return nil
	}
	entry = func(fn *FuncInfo) *Failure {
		if seen[fn] {
			return nil
		}
		seen[fn] = true
		if rootSet[fn] {
			return &Failure{Chain: []string{"API:" + fn.Name}, Reason: "none of " + strings.Join(events, "|") + " happened before on a path from API entry " + fn.Name}
		}
		for _, cs := range c.A.callers[fn] {
			if f := at(cs); f != nil {
				return f
			}
		}
		return nil
	}
	return at(site)
}

// P-RESP-HASH
func ruleRespHash(c *RC) *RuleResult {
	r := &RuleResult{Rule: "P-RESP-HASH", Kind: "PROV", Doc: "NewPrepareResponse(x): x ≡ PreparationPayloads[PrimaryIndex].Hash()"}
	sites := c.callSites("cb:NewPrepareResponse")
	if len(sites) == 0 {
		r.unresolved("call site of Config.NewPrepareResponse")
	}
	want := "ConsensusPayload.Hash(ctx.PreparationPayloads[ctx.PrimaryIndex])"
	for _, s := range sites {
		for _, sn := range s.Snaps {
			r.Sites++
			if len(sn.Args) == 1 && sn.Args[0].S == want {
				r.ok(s.Fn.Name + ": NewPrepareResponse(" + want + ")")
			} else {
				got := "?"
				if len(sn.Args) == 1 {
					got = sn.Args[0].S
				}
				r.fail(s.Fn.Name+"/resp-hash", c.Prog.Pos(s.Node), "response names "+got+" instead of the stored proposal's hash")
			}
		}
	}
	return r
}

func prepPhi() string { return viewPhi() }

// G-COMMIT-QUORUM
func ruleCommitQuorum(c *RC) *RuleResult {
	r := &RuleResult{Rule: "G-COMMIT-QUORUM", Kind: "QUORUM", Doc: "Commit (anti-MEV off) / PreCommit construction ⇒ count{PreparationPayloads | current view} ≥ M ∧ a PrepareRequest is among them ∧ all transactions present"}
	q := func() *Formula {
		return fAnd(quorumAtLeast("PreparationPayloads", prepPhi(), mNF()),
			existsIn("PreparationPayloads", "ConsensusMessage.Type(e)==PrepareRequestType & e!=nil"), fAllTx())
	}
	var sites []*Site
	n := map[string]int{}
	for _, s := range c.callSites("cb:NewConsensusPayload") {
		if s.Call == nil || len(s.Call.Args) < 2 {
			continue
		}
		k := constName(s.Fn.Pkg.TypesInfo, s.Call.Args[1])
		if k == "CommitType" || k == "PreCommitType" {
			n[k]++
			sites = append(sites, s)
		}
	}
	if n["CommitType"] == 0 || n["PreCommitType"] == 0 {
		r.unresolved("constructor sites of Commit and PreCommit")
	}
	c.guardRule(r, sites, c.apiList, func(s *Site, sn *Snap) *Formula {
		k := constName(s.Fn.Pkg.TypesInfo, s.Call.Args[1])
		if k == "PreCommitType" {
			return q()
		}
		return fOr(fAMEV(), q())
	}, nil)
	return r
}

// G-RESP-MATCH
func ruleRespMatch(c *RC) *RuleResult {
	r := &RuleResult{Rule: "G-RESP-MATCH", Kind: "GUARD", Doc: "a stored PrepareResponse naming another proposal is removed: on arrival when the proposal is known, and when the proposal arrives (before any quorum test)"}
	// (1) in the function storing a received response: on the path where the proposal is recorded and hashes differ, the entry is nil-ed before return
	var respStore *FuncInfo
	isPrimSender := func(sn *Snap) *Atom {
		if sn.Val == nil || sn.Val.K != KParam {
			return nil
		}
		return mkAtom("eq", getter("ConsensusPayload", "ValidatorIndex", sn.Val, true), tPrimaryIndex)
	}
	for _, s := range c.writesTo("ctx.PreparationPayloads") {
		if t := c.roleSite(s, isPrimSender, false); t != nil {
			respStore = t.Fn
		}
	}
	if respStore == nil {
		r.unresolved("function storing a received PrepareResponse")
		return r
	}
	r.Sites++
	m := msgParam()
	hashEq := mkAtom("eq", getter("PrepareResponse", "PreparationHash", getter("ConsensusMessage", "GetPrepareResponse", m, false), false),
		getter("ConsensusPayload", "Hash", slot("PreparationPayloads", tPrimaryIndex), false))
	g := fOr(fNot(fRSR()), fAtom(hashEq))
	bad := ""
	kept := 0
	for _, e := range c.exitsOf(respStore) {
		k := e.Killed["ctx.PreparationPayloads"]
		if k&KillNNSender == 0 || k&KillNilAny != 0 {
			continue // nothing stored, or the entry was removed again
		}
		kept++
		res, cex := residual0(g, e.F, func(*Atom) int { return ModeNone })
		if res.K != FTrue {
			bad = "a path keeps the stored response although the proposal may be recorded with a different hash: {" + strings.Join(e.Trail, "; ") + "} counterexample: " + cexString(cex)
		}
	}
	if kept == 0 && bad == "" {
		bad = "no path keeps a stored response"
	}
	if bad == "" {
		r.ok(respStore.Name + ": a response stays stored only if no proposal is recorded or its PreparationHash equals the proposal's Hash")
	} else {
		r.fail(respStore.Name+"/resp-match", c.Prog.Pos(respStore.Decl), bad)
	}
	// (2) the proposal receiver purges mismatching responses before the quorum test: a nil-store loop over the table
	// comparing PreparationHash with msg.Hash precedes every checkPrepare-like call (QUORUM site) in that call.
	var reqStore *Site
	for _, s := range c.writesTo("ctx.PreparationPayloads") {
		if t := c.roleSite(s, isPrimSender, true); t != nil {
			reqStore = t
		}
	}
	r.Sites++
	if reqStore == nil {
		r.unresolved("store of a received PrepareRequest")
		return r
	}
	purge := c.purgeFuncs()
	if len(purge) == 0 {
		r.fail(reqStore.Fn.Name+"/purge", c.Prog.Pos(reqStore.Node), "no function removes stored responses whose PreparationHash differs from the proposal's hash")
		return r
	}
	var evs []string
	for _, p := range purge {
		evs = append(evs, "fn:"+p.Name)
		// the purge store is reached for every stored response: its reach conditions mention only the ranged element
		for _, s := range c.A.FnSites[p] {
			if s.Kind != "write" || s.Loc != "ctx.PreparationPayloads" || s.Store != KillNil {
				continue
			}
			r.Sites++
			bad := ""
			for _, l := range condLits(s) {
				if !strings.Contains(canonElem(l.A.S), "elem(ctx.PreparationPayloads)") {
					bad = l.String()
				}
			}
			if bad == "" {
				r.ok(p.Name + ": mismatching responses are removed unconditionally (conditions only about the ranged entry)")
			} else {
				r.fail(p.Name+"/purge-cond", c.Prog.Pos(s.Node), "stored responses naming another proposal are purged only under the extra condition "+bad)
			}
		}
	}
	// the purge runs on every path that stores the proposal (a later quorum test may be reached from another entry,
	// e.g. when the last missing transaction arrives)
	r.Sites++
	{
		bad := ""
		for _, e := range c.exitsOf(reqStore.Fn) {
			if lastIndex(e.Log, "write:ctx.PreparationPayloads") < 0 {
				continue // this path does not store the proposal itself
			}
			has := false
			for _, ev := range evs {
				if e.Events[ev] {
					has = true
				}
			}
			if !has {
				bad = "{" + strings.Join(e.Trail, "; ") + "}"
			}
		}
		if bad == "" {
			r.ok(reqStore.Fn.Name + ": every path that stores the proposal purges mismatching responses")
		} else {
			r.fail(reqStore.Fn.Name+"/purge-on-store", c.Prog.Pos(reqStore.Node), "the proposal is stored without purging early responses that name another proposal on path "+bad)
		}
	}
	// every quorum-check call in the proposal receiver after the store has the purge event
	okAll := true
	var after []*Site
	{
		rec := c.inlineSites(reqStore.Fn, false)
		for _, g := range c.Prog.sortedFuncs() {
			after = append(after, rec.FnSites[g]...)
		}
	}
	for _, s := range after {
		if s.Kind == "call" && s.Target != nil && c.reachesQuorumTest(s.Target) {
			for _, sn := range s.Snaps {
				if sn.Killed["ctx.PreparationPayloads"]&(KillNNOwn|KillNNSender|KillNNOther|KillNNPrimary|KillAny) == 0 {
					continue // the proposal has not been stored on this path yet
				}
				has := false
				for _, e := range evs {
					if sn.Events[e] {
						has = true
					}
				}
				if !has {
					okAll = false
					r.fail(reqStore.Fn.Name+"/purge-before-quorum", c.Prog.Pos(s.Node), "quorum test reachable after storing the proposal without purging mismatching responses first")
				}
			}
		}
	}
	if okAll {
		r.ok(reqStore.Fn.Name + ": " + strings.Join(evs, "|") + " precedes every quorum test after the proposal is stored")
	}
	// (3) the same for the primary's own proposal: responses that reached the primary before it proposed name some other
	// hash (nobody could know this one); they are purged before the primary counts its preparations
	for _, f := range c.senderOf("PrepareRequestType") {
		root := c.phaseRoot(f)
		r.Sites++
		bad := ""
		n := 0
		for _, e := range c.exitsOf(root) {
			if lastIndex(e.Log, "write:ctx.PreparationPayloads") < 0 {
				continue
			}
			firstQ := -1
			for i, ev := range e.Log {
				if strings.HasPrefix(ev, "fn:") {
					if g := c.Prog.fn(strings.TrimPrefix(ev, "fn:")); g != nil && g != root && c.reachesQuorumTest(g) && firstQ < 0 {
						firstQ = i
					}
				}
			}
			if firstQ < 0 {
				continue
			}
			n++
			purged := false
			for i, ev := range e.Log {
				if i < firstQ {
					for _, pe := range evs {
						if ev == pe {
							purged = true
						}
					}
					// a wrapper that purges on each of its paths (the log names the direct callee only)
					if !purged && strings.HasPrefix(ev, "fn:") {
						if g := c.Prog.fn(strings.TrimPrefix(ev, "fn:")); g != nil && c.mustDo(g, evs) {
							purged = true
						}
					}
				}
			}
			if !purged {
				bad = "{" + strings.Join(e.Trail, "; ") + "}"
			}
		}
		switch {
		case n == 0:
			r.ok(root.Name + ": no quorum test follows the store of the own proposal")
		case bad == "":
			r.ok(root.Name + ": early responses naming another proposal are purged before the primary counts its preparations")
		default:
			r.fail(root.Name+"/own-proposal-purge", c.Prog.Pos(root.Decl), "the primary stores its own proposal and counts the preparations without first removing responses that arrived earlier and name another proposal (they cannot name this one): it commits with fewer than M preparations for its proposal on path "+bad)
		}
	}
	return r
}

// roleSite finds the function in which the site s plays a role that is told apart by a fact (atom of the snapshot known
// to be `want`): s.Fn itself, or — when s sits in a single-caller helper that does not know the fact — the nearest
// function it serves whose inline walk knows it at the site. The returned site carries that function and its snapshots.
func (c *RC) roleSite(s *Site, atom func(sn *Snap) *Atom, want bool) *Site {
	knows := func(t *Site) bool {
		if len(t.Snaps) == 0 {
			return false
		}
		for _, sn := range t.Snaps {
			a := atom(sn)
			if a == nil {
				return false
			}
			if v, ok := sn.F.value(a); !ok || v != want {
				return false
			}
		}
		return true
	}
	if knows(s) {
		return s
	}
	root := s.Fn
	for hop := 0; hop < 4 && c.A.inlinable(root); hop++ {
		cs := c.A.callers[root]
		if len(cs) != 1 || cs[0].Fn == root {
			break
		}
		root = cs[0].Fn
		if c.clusterRec == nil {
			c.clusterRec = map[*FuncInfo]*Analysis{}
		}
		rec := c.clusterRec[root]
		if rec == nil {
			rec = c.inlineSites(root, false)
			c.clusterRec[root] = rec
		}
		for _, t := range rec.FnSites[s.Fn] {
			if t.Node == s.Node && t.Kind == s.Kind && t.Loc == s.Loc {
				cp := *t
				cp.Fn = root
				if knows(&cp) {
					return &cp
				}
			}
		}
	}
	return nil
}

// purgeFuncs: functions with a loop over PreparationPayloads that nil-s entries under a PreparationHash != Hash comparison.
func (c *RC) purgeFuncs() []*FuncInfo {
	var out []*FuncInfo
	for _, fn := range c.Prog.dbftFuncs() {
		for _, s := range c.A.FnSites[fn] {
			if s.Kind != "write" || s.Loc != "ctx.PreparationPayloads" || s.Store != KillNil {
				continue
			}
			for _, sn := range s.Snaps {
				if sn.Idx == nil || !strings.HasPrefix(sn.Idx.S, "l:rangekey:") {
					continue
				}
				for k, v := range sn.F.m {
					if !v && strings.Contains(k, "PrepareResponse.PreparationHash(") && strings.Contains(k, "ConsensusPayload.Hash(p:") {
						out = append(out, fn)
						goto next
					}
				}
			}
		}
	next:
	}
	return out
}

func (c *RC) reachesQuorumTest(fn *FuncInfo) bool {
	seen := map[*FuncInfo]bool{}
	var visit func(f *FuncInfo) bool
	visit = func(f *FuncInfo) bool {
		if seen[f] {
			return false
		}
		seen[f] = true
		for _, s := range c.A.FnSites[f] {
			if s.Kind == "call" && (s.Callee == "cb:NewCommit" || s.Callee == "cb:NewPreCommit") {
				return true
			}
			if s.Target != nil && visit(s.Target) {
				return true
			}
		}
		return false
	}
	return visit(fn)
}

// G-VIEW-QUORUM
func ruleViewQuorum(c *RC) *RuleResult {
	r := &RuleResult{Rule: "G-VIEW-QUORUM", Kind: "QUORUM", Doc: "view change to v ⇒ count{ChangeViewPayloads | e≠nil ∧ e.NewViewNumber() ≥ v} ≥ M"}
	sites := c.initCalls(true)
	if len(sites) == 0 {
		r.unresolved("initialiser call with a non-constant view")
	}
	c.guardRule(r, sites, c.apiList, func(s *Site, sn *Snap) *Formula {
		if len(sn.Args) == 0 {
			return fFalse
		}
		phi := "!ChangeView.NewViewNumber(ConsensusMessage.GetChangeView(e))<" + sn.Args[0].S + " & e!=nil"
		return quorumAtLeast("ChangeViewPayloads", phi, mNF())
	}, nil)
	return r
}

// G-CV-STORE
func ruleCVStore(c *RC) *RuleResult {
	r := &RuleResult{Rule: "G-CV-STORE", Kind: "GUARD", Doc: "a received ChangeView is stored only if it asks for a view above the current one, the node holds no own (pre)commit, and it is not older than the stored one of the same sender"}
	var sites []*Site
	for _, s := range c.writesTo("ctx.ChangeViewPayloads") {
		for _, sn := range s.Snaps {
			if sn.Val != nil && sn.Val.K == KParam {
				sites = append(sites, s)
				break
			}
		}
	}
	if len(sites) == 0 {
		r.unresolved("store of a received ChangeView")
	}
	c.guardRule(r, sites, c.apiList, func(s *Site, sn *Snap) *Formula {
		if sn.Val == nil || sn.Val.K != KParam || sn.Idx == nil {
			return nil
		}
		m := sn.Val
		vi := getter("ConsensusPayload", "ValidatorIndex", m, true)
		if sn.Idx.S != vi.S {
			return fFalse
		}
		nv := getter("ChangeView", "NewViewNumber", getter("ConsensusMessage", "GetChangeView", m, false), true)
		old := slot("ChangeViewPayloads", vi)
		oldNV := getter("ChangeView", "NewViewNumber", getter("ConsensusMessage", "GetChangeView", old, false), true)
		return fAnd(lt(tViewNumber, nv), fOr(fNot(nn(old)), fNot(lt(nv, oldNV))), fNot(fCommitSent()), fNot(fPreCommitSent()))
	}, nil)
	return r
}

// ---- predicate definitions ----

func (c *RC) predicateFormula(fn *FuncInfo) *Formula {
	var ors []*Formula
	for _, e := range c.exitsOf(fn) {
		if len(e.Ret) == 0 || e.Ret[0].S != "true" {
			continue
		}
		var ands []*Formula
		for k, v := range e.F.m {
			a := fAtom(e.F.atoms[k])
			if v {
				ands = append(ands, a)
			} else {
				ands = append(ands, fNot(a))
			}
		}
		ors = append(ors, fAnd(ands...))
	}
	return fOr(ors...)
}

// equivalent modulo the built-in theory
func equivalent(a, b *Formula) (bool, string) {
	m := map[string]*Atom{}
	a.atoms(m)
	b.atoms(m)
	var as []*Atom
	for _, x := range m {
		as = append(as, x)
	}
	if len(as) > 16 {
		return false, "too many atoms"
	}
	for mask := 0; mask < 1<<len(as); mask++ {
		f := newFacts()
		val := map[string]bool{}
		cons := true
		for i, x := range as {
			v := mask&(1<<i) != 0
			val[x.S] = v
			if !f.add(Lit{x, v}) {
				cons = false
				break
			}
		}
		if !cons {
			continue
		}
		if a.eval(val) != b.eval(val) {
			return false, cexString(val)
		}
	}
	return true, ""
}

func ruleDefs(c *RC) *RuleResult {
	r := &RuleResult{Rule: "DEF-PREDICATES", Kind: "AGREE", Doc: "the exported state predicates mean what the rules take them to mean (truth-table equivalence of the inlined body with the reference formula)"}
	cvOwn := slot("ChangeViewPayloads", tMyIndex)
	cvNV := getter("ChangeView", "NewViewNumber", getter("ConsensusMessage", "GetChangeView", cvOwn, false), true)
	defs := []struct {
		name string
		f    *Formula
	}{
		{"Context.WatchOnly", fWatchOnly()},
		{"Context.IsPrimary", fIsPrimary()},
		{"Context.IsBackup", fIsBackup()},
		{"Context.RequestSentOrReceived", fRSR()},
		{"Context.ResponseSent", fResponseSent()},
		{"Context.PreCommitSent", fPreCommitSent()},
		{"Context.CommitSent", fCommitSent()},
		{"Context.BlockSent", fBlockSent()},
		{"Context.ViewChanging", fAnd(fNotWatchOnly(), nn(cvOwn), lt(tViewNumber, cvNV))},
	}
	for _, d := range defs {
		r.Sites++
		fn := c.Prog.fn(d.name)
		if fn == nil {
			r.unresolved("exported predicate " + d.name)
			continue
		}
		got := c.predicateFormula(fn)
		if ok, cex := equivalent(got, d.f); ok {
			r.ok(d.name + " ≡ " + d.f.String())
		} else {
			r.fail(d.name+"/definition", c.Prog.Pos(fn.Decl), fmt.Sprintf("%s is %s, expected %s; differs at %s", d.name, got, d.f, cex))
		}
	}
	// private predicates by role
	if fn := c.amevPredicate(); fn != nil {
		r.Sites++
		got := c.predicateFormula(fn)
		if ok, cex := equivalent(got, fAMEV()); ok {
			r.ok(fn.Name + " ≡ EnablingHeight ≥ 0 ∧ EnablingHeight ≤ BlockIndex")
		} else {
			r.fail(fn.Name+"/definition", c.Prog.Pos(fn.Decl), fmt.Sprintf("anti-MEV switch is %s, expected %s; differs at %s", got, fAMEV(), cex))
		}
		// the comparison is made after a conversion: it must be value-preserving, or "below the enabling height" is
		// decided on a truncated number (an enabling height of 2^32+h would switch the extension on at height h)
		info := fn.Pkg.TypesInfo
		sizes := types.SizesFor("gc", "amd64")
		ast.Inspect(fn.Decl.Body, func(n ast.Node) bool {
			call, ok := n.(*ast.CallExpr)
			if !ok || len(call.Args) != 1 {
				return true
			}
			tv, ok := info.Types[call.Fun]
			if !ok || !tv.IsType() {
				return true
			}
			sel, ok := ast.Unparen(call.Args[0]).(*ast.SelectorExpr)
			if !ok || sel.Sel.Name != "AntiMEVExtensionEnablingHeight" {
				return true
			}
			src := info.TypeOf(call.Args[0])
			r.Sites++
			if sizes.Sizeof(tv.Type) >= sizes.Sizeof(src) {
				r.ok(fn.Name + ": the enabling height is compared without narrowing")
				return true
			}
			// narrowing: the configuration validator must bound the field by the target type's maximum
			max := uint64(1)<<(8*uint(sizes.Sizeof(tv.Type))) - 1
			bounded := false
			if cc := c.configChecker(); cc != nil && len(cc.Params) == 1 {
				bounded = true
				fieldT := mkTerm(KSel, "AntiMEVExtensionEnablingHeight", mkTerm(KParam, cc.Params[0].Name()))
				nacc := 0
				for _, e := range c.exitsOf(cc) {
					if len(e.Ret) != 1 || e.Ret[0].K != KNil {
						continue
					}
					nacc++
					okPath := false
					for k, v := range e.F.m {
						a := e.F.atoms[k]
						if a == nil || a.Op != "lt" || a.A == nil || a.B == nil {
							continue
						}
						// !(max < field)  or  field < max+1
						if !v && a.A.K == KConst && a.B.S == fieldT.S {
							if cv, err := strconv.ParseUint(a.A.S, 10, 64); err == nil && cv <= max {
								okPath = true
							}
						}
						if v && a.B.K == KConst && a.A.S == fieldT.S {
							if cv, err := strconv.ParseUint(a.B.S, 10, 64); err == nil && cv <= max+1 {
								okPath = true
							}
						}
					}
					if !okPath {
						bounded = false
					}
				}
				if nacc == 0 {
					bounded = false
				}
			}
			if bounded {
				r.ok(fmt.Sprintf("%s: %s narrows the enabling height, which the configuration validator bounds by %d", fn.Name, types.ExprString(call.Fun), max))
			} else {
				r.fail(fn.Name+"/lossy-enabling-height", c.Prog.Pos(call), fmt.Sprintf("the enabling height (%s) is narrowed to %s before the comparison and the configuration validator does not bound it by %d: an enabling height above that switches the extension on at heights that are below it", src.String(), types.ExprString(call.Fun), max))
			}
			return true
		})
	} else {
		r.unresolved("anti-MEV predicate (bool function reading Config.AntiMEVExtensionEnablingHeight)")
	}
	if fn := c.allTxPredicate(); fn != nil {
		r.Sites++
		got := c.predicateFormula(fn)
		if ok, cex := equivalent(got, fAllTx()); ok {
			r.ok(fn.Name + " ≡ len(TransactionHashes) == len(Transactions)")
		} else {
			r.fail(fn.Name+"/definition", c.Prog.Pos(fn.Decl), fmt.Sprintf("all-transactions predicate is %s, expected %s; differs at %s", got, fAllTx(), cex))
		}
	} else {
		r.unresolved("all-transactions predicate")
	}
	return r
}

func (c *RC) amevPredicate() *FuncInfo {
	for _, fn := range c.Prog.dbftFuncs() {
		if !c.A.isPurePredicate(fn) {
			continue
		}
		direct := false
		ast.Inspect(fn.Decl.Body, func(n ast.Node) bool {
			if sel, ok := n.(*ast.SelectorExpr); ok && sel.Sel.Name == "AntiMEVExtensionEnablingHeight" {
				direct = true
			}
			return true
		})
		if direct {
			return fn
		}
	}
	return nil
}

func (c *RC) allTxPredicate() *FuncInfo {
	for _, fn := range c.Prog.dbftFuncs() {
		if !c.A.isPurePredicate(fn) {
			continue
		}
		a, b := false, false
		ast.Inspect(fn.Decl.Body, func(n ast.Node) bool {
			if sel, ok := n.(*ast.SelectorExpr); ok {
				if sel.Sel.Name == "TransactionHashes" {
					a = true
				}
				if sel.Sel.Name == "Transactions" {
					b = true
				}
			}
			return true
		})
		if a && b && len(fn.Params) == 0 {
			return fn
		}
	}
	return nil
}

// ---- C06 ----

func (c *RC) singleRet(fn *FuncInfo) (*Term, bool) {
	ex := c.exitsOf(fn)
	if len(ex) != 1 || len(ex[0].Ret) != 1 {
		return nil, false
	}
	return ex[0].Ret[0], true
}

// DEF-COUNTS: what CountCommitted and CountFailed count, validator by validator. The two feed the "more than F committed or
// lost" restraint on view changes and recovery (C09: a node must neither give up a view the others are locked in, nor wait
// for validators that are gone). Their loops are walked once for one arbitrary validator; on every path the decision
// "counted / not counted" must be the canonical one and the path must know enough to make it:
//   committed(i) ≡ Commit[i] ≠ nil ∨ PreCommit[i] ≠ nil
//   failed(i)    ≡ ¬committed(i) ∧ (last seen = nil ∨ its height < BlockIndex ∨ its view < ViewNumber)
func ruleDefCounts(c *RC) *RuleResult {
	r := &RuleResult{Rule: "DEF-COUNTS", Kind: "DEF", Doc: "CountCommitted counts exactly the validators with a Commit or PreCommit of this height; CountFailed exactly those without either whose last seen message is missing or of an older height / view"}
	type tri int // 0 unknown, 1 true, 2 false
	val := func(known, v bool) tri {
		if !known {
			return 0
		}
		if v {
			return 1
		}
		return 2
	}
	or := func(xs ...tri) tri {
		u := false
		for _, x := range xs {
			if x == 1 {
				return 1
			}
			if x == 0 {
				u = true
			}
		}
		if u {
			return 0
		}
		return 2
	}
	not := func(x tri) tri { return map[tri]tri{0: 0, 1: 2, 2: 1}[x] }
	and := func(xs ...tri) tri {
		var ys []tri
		for _, x := range xs {
			ys = append(ys, not(x))
		}
		return not(or(ys...))
	}
	for _, k := range []string{"CountCommitted", "CountFailed"} {
		fn := c.Prog.fn("Context." + k)
		r.Sites++
		if fn == nil {
			r.unresolved("exported method Context." + k)
			continue
		}
		c.A.oneIter = true
		exits := c.A.walkFuncFull(fn, newState(), false, false, true, nil)
		c.A.oneIter = false
		if len(exits) == 0 {
			r.unresolved("paths of Context." + k)
			continue
		}
		bad := ""
		for _, e := range exits {
			if len(e.Ret) != 1 || e.Ret[0] == nil {
				bad = "no result"
				break
			}
			nf := nfString(e.Ret[0])
			counted := nf == "1" || strings.HasSuffix(nf, "+1") || strings.HasPrefix(nf, "1+")
			// what the path knows about the validator in question
			var C, P, N, H, V tri
			for key, v := range e.F.m {
				at := e.F.atoms[key]
				if at == nil || at.A == nil {
					continue
				}
				reads := func(t *Term, loc string) bool { return t != nil && t.readsLoc(loc) }
				switch {
				case at.Op == "nn" && at.A.K == KIndex && at.A.Args[0].S == "ctx.CommitPayloads":
					C = val(true, v)
				case at.Op == "nn" && at.A.K == KIndex && at.A.Args[0].S == "ctx.PreCommitPayloads":
					P = val(true, v)
				case at.Op == "nn" && reads(at.A, "ctx.LastSeenMessage"):
					N = val(true, v)
				case at.Op == "lt" && reads(at.A, "ctx.LastSeenMessage") && at.B != nil && at.B.S == "ctx.BlockIndex":
					H = val(true, v)
				case at.Op == "lt" && reads(at.A, "ctx.LastSeenMessage") && at.B != nil && at.B.S == "ctx.ViewNumber":
					V = val(true, v)
				}
			}
			committed := or(C, P)
			want := committed
			if k == "CountFailed" {
				want = and(not(committed), or(not(N), H, V))
			}
			switch {
			case want == 0:
				bad = "a validator is " + map[bool]string{true: "counted", false: "passed over"}[counted] + " on a path that does not know enough to decide {" + strings.Join(e.Trail, "; ") + "}"
			case (want == 1) != counted:
				bad = "a validator is " + map[bool]string{true: "counted", false: "passed over"}[counted] + " although the definition says otherwise on path {" + strings.Join(e.Trail, "; ") + "}"
			}
			if bad != "" {
				break
			}
		}
		if bad == "" {
			r.ok(fmt.Sprintf("Context.%s: canonical on each of %d per-validator paths", k, len(exits)))
		} else {
			r.fail("Context."+k+"/definition", c.Prog.Pos(fn.Decl), "Context."+k+" does not count what its name says: "+bad)
		}
	}
	return r
}

func nfN() string { return "len(ctx.Validators)" }
func nfF() string { return "div(len(ctx.Validators)-1,3)" }

func arithRule(c *RC, rule, name, want, doc string) *RuleResult {
	r := &RuleResult{Rule: rule, Kind: "ARITH", Doc: doc}
	fn := c.Prog.fn(name)
	r.Sites++
	if fn == nil {
		r.unresolved("exported method " + name)
		return r
	}
	t, ok := c.singleRet(fn)
	if !ok {
		r.fail(name+"/shape", c.Prog.Pos(fn.Decl), name+" is not a single-path pure function (outside the affine domain)")
		return r
	}
	if got := nfString(t); got == want {
		r.ok(name + "() ≡ " + want)
	} else {
		r.fail(name+"/normal-form", c.Prog.Pos(fn.Decl), fmt.Sprintf("%s() has normal form %s, expected %s", name, got, want))
	}
	return r
}

func ruleArithN(c *RC) *RuleResult {
	return arithRule(c, "A-N", "Context.N", nfN(), "N() ≡ len(Validators)")
}
func ruleArithF(c *RC) *RuleResult {
	return arithRule(c, "A-F", "Context.F", nfF(), "F() ≡ (len(Validators)−1) div 3")
}
func ruleArithM(c *RC) *RuleResult {
	return arithRule(c, "A-M", "Context.M", mNF(), "M() ≡ len(Validators) − F()")
}

func ruleArithPrimary(c *RC) *RuleResult {
	r := &RuleResult{Rule: "A-PRIMARY", Kind: "ARITH", Doc: "GetPrimaryIndex(v) ≡ r if r ≥ 0 else r+N, r = (int(BlockIndex) − int(v)) mod N (signed), so the result is in [0,N)"}
	fn := c.Prog.fn("Context.GetPrimaryIndex")
	r.Sites++
	if fn == nil || len(fn.Params) != 1 {
		r.unresolved("exported method Context.GetPrimaryIndex(view)")
		return r
	}
	p := "p:" + fn.Params[0].Name()
	rmod := "mod(ctx.BlockIndex-" + p + "," + nfN() + ")"
	ex := c.exitsOf(fn)
	if len(ex) == 0 {
		r.fail(fn.Name+"/shape", c.Prog.Pos(fn.Decl), "no return path")
		return r
	}
	sawNonNeg, sawNeg := false, false
	for _, e := range ex {
		if len(e.Ret) != 1 {
			r.fail(fn.Name+"/shape", c.Prog.Pos(fn.Decl), "unexpected result arity")
			return r
		}
		got := nfString(e.Ret[0])
		// double-mod form: ((a % N) + N) % N
		if got == "mod("+rmod+"+"+nfN()+","+nfN()+")" || got == "mod("+nfN()+"+"+rmod+","+nfN()+")" {
			sawNonNeg, sawNeg = true, true
			continue
		}
		// find the sign fact about r on this path
		neg, known := false, false
		for k, v := range e.F.m {
			at := e.F.atoms[k]
			if at.Op == "lt" && at.B.S == "0" && nfString(at.A) == rmod {
				neg, known = v, true
			}
		}
		switch {
		case got == rmod && known && !neg:
			sawNonNeg = true
		case (got == rmod+"+"+nfN() || got == nfN()+"+"+rmod) && known && neg:
			sawNeg = true
		case got == rmod && !known && len(ex) == 1:
			r.fail(fn.Name+"/correction", c.Prog.Pos(fn.Decl), "negative remainder is not corrected: result "+got+" may be negative when view > height")
			return r
		default:
			r.fail(fn.Name+"/normal-form", c.Prog.Pos(fn.Decl), fmt.Sprintf("return value %s on path {%s} is neither r (under r≥0) nor r+N (under r<0) with r=%s", got, strings.Join(e.Trail, "; "), rmod))
			return r
		}
	}
	if sawNonNeg && sawNeg {
		r.ok(fn.Name + ": r=" + rmod + "; returns r when r≥0 and r+N when r<0 ⇒ result ∈ [0,N)")
	} else {
		r.fail(fn.Name+"/branches", c.Prog.Pos(fn.Decl), "both the r≥0 and the r<0 case must be handled")
	}
	return r
}

func rulePurity(c *RC) *RuleResult {
	r := &RuleResult{Rule: "O-PURE", Kind: "OWN", Doc: "N, F, M, GetPrimaryIndex write nothing, call nothing external and read only Validators / BlockIndex / their parameter"}
	allowed := map[string]bool{"ctx.Validators": true, "ctx.BlockIndex": true}
	for _, name := range []string{"Context.N", "Context.F", "Context.M", "Context.GetPrimaryIndex"} {
		fn := c.Prog.fn(name)
		r.Sites++
		if fn == nil {
			r.unresolved(name)
			continue
		}
		if !c.A.isPure(fn) {
			r.fail(name+"/impure", c.Prog.Pos(fn.Decl), name+" has side effects or external calls")
			continue
		}
		bad := ""
		for _, rd := range c.A.readsOf(fn) {
			if !allowed[rd] {
				bad = rd
			}
		}
		if bad != "" {
			r.fail(name+"/reads:"+bad, c.Prog.Pos(fn.Decl), name+" depends on "+bad+" (must be a function of the validator list, the height and its parameter only)")
		} else {
			r.ok(name + " reads only " + strings.Join(c.A.readsOf(fn), ","))
		}
	}
	return r
}

func rulePrimaryField(c *RC) *RuleResult {
	r := &RuleResult{Rule: "P-PRIMARY-FIELD", Kind: "PROV", Doc: "PrimaryIndex is assigned only in the epoch writer from GetPrimaryIndex(view), in the same call that assigns ViewNumber = view"}
	ws := c.writesTo("ctx.PrimaryIndex")
	if len(ws) == 0 {
		r.unresolved("write of Context.PrimaryIndex")
	}
	for _, s := range ws {
		r.Sites++
		if !c.inEpoch(s.Fn) {
			r.fail(s.Fn.Name+"/write:ctx.PrimaryIndex", c.Prog.Pos(s.Node), "PrimaryIndex assigned outside the epoch writer")
			continue
		}
		want := "fn:Context.GetPrimaryIndex(<view parameter>)"
		good := len(s.Snaps) > 0
		got := ""
		for _, sn := range s.Snaps {
			if sn.Val == nil || sn.Val.K != KCall || sn.Val.Name != "fn:Context.GetPrimaryIndex" || len(sn.Val.Args) != 1 || sn.Val.Args[0].K != KParam || !c.isViewParam(s.Fn, sn.Val.Args[0]) {
				good = false
				if sn.Val != nil {
					got = sn.Val.S
				}
			}
		}
		if good {
			r.ok("PrimaryIndex ← GetPrimaryIndex(view) in " + s.Fn.Name)
		} else {
			r.fail(s.Fn.Name+"/value:ctx.PrimaryIndex", c.Prog.Pos(s.Node), "PrimaryIndex assigned from "+got+", expected "+want)
		}
	}
	// assigned on every path of the epoch writer
	if c.A.epochWriter != nil {
		r.Sites++
		all := true
		for _, e := range c.exitsOf(c.A.epochWriter) {
			if e.Killed["ctx.PrimaryIndex"] == 0 || e.Killed["ctx.ViewNumber"] == 0 {
				all = false
			}
		}
		if all {
			r.ok("every path of the epoch writer assigns both PrimaryIndex and ViewNumber")
		} else {
			r.fail(c.A.epochWriter.Name+"/primary-every-path", c.Prog.Pos(c.A.epochWriter.Decl), "a path of the epoch writer leaves PrimaryIndex or ViewNumber unassigned")
		}
	}
	return r
}

// isViewParam: the parameter term is the view of the epoch being entered: the epoch writer's own view parameter, or a
// helper's parameter that receives it at the helper's (single) call site.
func (c *RC) isViewParam(fn *FuncInfo, p *Term) bool {
	if fn == c.A.epochWriter {
		return p.S == "p:"+c.A.epochViewParm.Name()
	}
	for _, cs := range c.A.callers[fn] {
		if !c.inEpoch(cs.Fn) {
			return false
		}
		for i, fp := range fn.Params {
			if "p:"+fp.Name() != p.S {
				continue
			}
			for _, sn := range cs.Snaps {
				if i >= len(sn.Args) || sn.Args[i].K != KParam || !c.isViewParam(cs.Fn, sn.Args[i]) {
					return false
				}
			}
			return true
		}
	}
	return false
}

// mustDo: every way out of g (its context-free summary) has seen one of the events.
func (c *RC) mustDo(g *FuncInfo, evs []string) bool {
	if c.A.isPure(g) || c.A.higherOrder(g) {
		return false
	}
	sum := c.A.summary(g, nil)
	if sum == nil || len(sum.Classes) == 0 {
		return false
	}
	for _, cl := range sum.Classes {
		has := false
		for _, e := range evs {
			if cl.Events[e] {
				has = true
			}
		}
		if !has {
			return false
		}
	}
	return true
}
