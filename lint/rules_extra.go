package main

// Additional obligations: lemma L1 obligations, responder window arithmetic, duration sources.

import (
	"fmt"
	"strings"
)

var extrasDone bool

func registerExtras() {
	if extrasDone {
		return
	}
	extrasDone = true
	propertyRules["C03"] = append(propertyRules["C03"], ruleL1Obl, ruleRefBlock)
	propertyRules["C01"] = append(propertyRules["C01"], ruleL1Obl)
	propertyRules["C09"] = append(propertyRules["C09"], ruleResponderWindow, ruleStaleCVRequest)
	propertyRules["C14"] = append(propertyRules["C14"], ruleDurationSrc)
	propertyRules["C10"] = append(propertyRules["C10"], ruleDurationSrc)
	propertyRules["C16"] = append(propertyRules["C16"], ruleBlockStartRef)
}

// L1-OBL: the state lemma "own (pre)commit / own preparation ⇒ proposal recorded" is an invariant: every non-nil store
// into the own slot of those tables happens with the proposal recorded (or, for the preparation table, by the primary
// whose own slot is the proposal slot).
func ruleL1Obl(c *RC) *RuleResult {
	r := &RuleResult{Rule: "L1-OBL", Kind: "GUARD", Doc: "own-slot stores into Commit/PreCommit/Preparation tables ⇒ proposal recorded (Preparation: or the node is the primary) — the obligation of lemma L1"}
	n := 0
	for _, t := range []string{"CommitPayloads", "PreCommitPayloads", "PreparationPayloads"} {
		for _, s := range c.writesTo("ctx." + t) {
			own := false
			for _, sn := range s.Snaps {
				if sn.Idx != nil && sn.Idx.S == "ctx.MyIndex" && sn.Val != nil && sn.Val.K != KNil {
					own = true
				}
			}
			if !own {
				continue
			}
			n++
			table := t
			c.guardRule(r, []*Site{s}, c.apiList, func(s *Site, sn *Snap) *Formula {
				if sn.Idx == nil || sn.Idx.S != "ctx.MyIndex" {
					return nil
				}
				if table == "PreparationPayloads" {
					return fOr(fRSR(), fIsPrimary())
				}
				return fRSR()
			}, nil)
		}
	}
	if n < 4 {
		r.unresolved(fmt.Sprintf("own-slot stores (found %d)", n))
	}
	return r
}

// A-RESPONDER-WINDOW: a validator without an own (pre)commit answers a recovery request iff
// (MyIndex − sender + N − 1) mod N ≤ F, i.e. it is one of the next F+1 validators after the sender.
func ruleResponderWindow(c *RC) *RuleResult {
	r := &RuleResult{Rule: "A-RESPONDER-WINDOW", Kind: "ARITH", Doc: "recovery-request handler: the non-committed responder window is (MyIndex − sender + N − 1) mod N ≤ F"}
	h := c.handlers()["RecoveryRequestType"]
	if h == nil {
		r.unresolved("recovery-request handler")
		return r
	}
	m := msgParam()
	n := mkTerm(KLen, "", fld("ctx.Validators", false))
	vi := getter("ConsensusPayload", "ValidatorIndex", m, true)
	expr := mkTerm(KBin, "%", mkTerm(KBin, "-", mkTerm(KBin, "+", mkTerm(KBin, "-", tMyIndex, vi), n), constTerm("1")), n)
	want := nfString(expr)
	found := false
	for _, e := range c.exitsOf(h) {
		for _, l := range e.TrailL {
			if l.A.Op != "lt" {
				continue
			}
			a, b := nfString(l.A.A), nfString(l.A.B)
			if strings.HasPrefix(a, "mod(") || strings.HasPrefix(b, "mod(") {
				r.Sites++
				// the only accepted form: F < window  (window > F ⇒ not a responder)
				if a == nfF() && b == want {
					found = true
					r.ok(h.Name + ": responder window " + want + " compared with F")
				} else {
					r.fail(h.Name+"/window", c.Prog.Pos(h.Decl), fmt.Sprintf("responder selection compares %s with %s; expected F < %s", a, b, want))
				}
			}
		}
	}
	if !found && len(r.Findings) == 0 {
		r.unresolved("responder window test in the recovery-request handler")
	}
	return r
}

// O-NO-DURATION-SRC: durations handed to the timer are built from configured durations, the RTT estimate,
// differences of injected instants and constants only.
func ruleDurationSrc(c *RC) *RuleResult {
	r := &RuleResult{Rule: "O-NO-DURATION-SRC", Kind: "PROV", Doc: "every duration handed to Timer.Reset / Timer.Extend is built from timePerBlock, maxTimePerBlock, rttEstimates, Sub of injected instants, M() and constants"}
	var leafBad func(t *Term) string
	leafBad = func(t *Term) string {
		switch t.K {
		case KConst:
			return ""
		case KField:
			if strings.HasPrefix(t.S, "ctx.timePerBlock") || strings.HasPrefix(t.S, "ctx.maxTimePerBlock") || strings.HasPrefix(t.S, "ctx.rttEstimates") || t.S == "ctx.ViewNumber" || t.S == "ctx.Validators" {
				return ""
			}
			return t.S
		case KLen:
			return leafBad(t.Args[0])
		case KParam:
			return "" // judged at the callers of the wrapper
		case KLocal:
			if strings.HasPrefix(t.Name, "if:Timer.Now") || strings.HasPrefix(t.Name, "loopvar") {
				return ""
			}
			return t.S
		case KCall:
			if t.Name == "time.Time.Sub" {
				// operands are instants: injected readings or instants stored from them (P-INSTANT)
				for _, a := range t.Args {
					if a.K == KField && (a.S == "ctx.lastBlockTime" || a.S == "ctx.prepareSentTime") {
						continue
					}
					if b := leafBad(a); b != "" {
						return b
					}
				}
				return ""
			}
			if t.Name == "max" || t.Name == "min" || t.Name == "fn:Context.M" || t.Name == "fn:Context.F" || t.Name == "fn:Context.N" {
				for _, a := range t.Args {
					if b := leafBad(a); b != "" {
						return b
					}
				}
				return ""
			}
			return t.S
		case KBin:
			for _, a := range t.Args {
				if b := leafBad(a); b != "" {
					return b
				}
			}
			return ""
		}
		return t.S
	}
	n := 0
	check := func(s *Site, arg *Term) {
		n++
		r.Sites++
		if b := leafBad(arg); b == "" {
			r.ok(fmt.Sprintf("%s@%s: %s", s.Fn.Name, c.Prog.Pos(s.Node), arg.S))
		} else {
			r.fail(s.Fn.Name+"/duration-src", c.Prog.Pos(s.Node), "timer duration "+arg.S+" depends on "+b+", which is not a configured duration, the RTT estimate or a difference of injected instants")
		}
	}
	for _, w := range c.timerWrappers() {
		for _, s := range c.A.callers[w] {
			for _, sn := range s.Snaps {
				if len(sn.Args) > 0 {
					check(s, sn.Args[len(sn.Args)-1])
				}
			}
		}
	}
	for _, s := range c.callSites("if:Timer.Extend") {
		for _, sn := range s.Snaps {
			if len(sn.Args) == 1 {
				check(s, sn.Args[0])
			}
		}
	}
	for _, s := range c.callSites("if:Timer.Reset") {
		for _, sn := range s.Snaps {
			if len(sn.Args) == 3 {
				check(s, sn.Args[2])
			}
		}
	}
	if n < 8 {
		r.unresolved("timer duration sites")
	}
	if len(r.Samples) > 4 {
		r.Samples = r.Samples[:4]
	}
	return r
}

// G-BLOCKSTART-REF: the timer reference (lastBlockTime/Index/View: "when we started creating the last block, as in
// PrepareRequest") is taken only once a proposal exists for the epoch, from the injected clock and the current epoch.
func ruleBlockStartRef(c *RC) *RuleResult {
	r := &RuleResult{Rule: "G-BLOCKSTART-REF", Kind: "GUARD+PROV", Doc: "lastBlockTime/lastBlockIndex/lastBlockView are written only with a proposal recorded for the epoch (not on an idle attempt), from Timer.Now() / BlockIndex / ViewNumber"}
	var sites []*Site
	for _, loc := range []string{"ctx.lastBlockTime", "ctx.lastBlockIndex", "ctx.lastBlockView"} {
		ws := c.writesTo(loc)
		if len(ws) == 0 {
			r.unresolved("write of " + loc)
		}
		for _, s := range ws {
			sites = append(sites, s)
			for _, sn := range s.Snaps {
				r.Sites++
				want := map[string]string{"ctx.lastBlockIndex": "ctx.BlockIndex", "ctx.lastBlockView": "ctx.ViewNumber"}[loc]
				switch {
				case sn.Val == nil:
					r.fail(s.Fn.Name+"/value:"+loc, c.Prog.Pos(s.Node), loc+" written with an untracked value")
				case want != "" && sn.Val.S != want:
					r.fail(s.Fn.Name+"/value:"+loc, c.Prog.Pos(s.Node), loc+" assigned from "+sn.Val.S+", expected "+want)
				case want == "" && !strings.HasPrefix(sn.Val.S, "l:if:Timer.Now:"):
					r.fail(s.Fn.Name+"/value:"+loc, c.Prog.Pos(s.Node), loc+" assigned from "+sn.Val.S+", expected Timer.Now()")
				default:
					r.ok(s.Fn.Name + ": " + loc + " ← " + sn.Val.S)
				}
			}
		}
	}
	c.guardRule(r, sites, c.apiList, func(s *Site, sn *Snap) *Formula { return fRSR() }, nil)
	return r
}

// M-STALE-CV-REQUEST: a ChangeView for a view that is not above the receiver's is the cry of a node that fell behind
// (cut off or restarted): on every such path the ChangeView handler hands the payload to the recovery-request handler.
func ruleStaleCVRequest(c *RC) *RuleResult {
	r := &RuleResult{Rule: "M-STALE-CV-REQUEST", Kind: "MUST", Doc: "ChangeView handler: NewViewNumber ≤ current view (both < and =) ⇒ every path reaches the recovery-request handler with that payload"}
	hs := c.handlers()
	cv, rr := hs["ChangeViewType"], hs["RecoveryRequestType"]
	if cv == nil || rr == nil || len(cv.Params) != 1 {
		r.unresolved("ChangeView handler / recovery-request handler")
		return r
	}
	m := mkTerm(KParam, cv.Params[0].Name())
	nv := getter("ChangeView", "NewViewNumber", getter("ConsensusMessage", "GetChangeView", m, false), true)
	for _, sc := range []struct {
		name string
		lit  Lit
	}{
		{"NewViewNumber == ViewNumber", Lit{mkAtom("eq", nv, tViewNumber), true}},
		{"NewViewNumber < ViewNumber", Lit{mkAtom("lt", nv, tViewNumber), true}},
	} {
		init := newState()
		init.F.add(sc.lit)
		exits := c.exitsFrom(cv, init, false)
		r.Sites++
		if len(exits) == 0 {
			r.fail(cv.Name+"/stale:"+sc.name, c.Prog.Pos(cv.Decl), "no path of the ChangeView handler is feasible under "+sc.name)
			continue
		}
		bad := ""
		for _, e := range exits {
			if !e.Events["fn:"+rr.Name] {
				bad = strings.Join(e.Trail, "; ")
			}
		}
		if bad != "" {
			r.fail(cv.Name+"/stale:"+sc.name, c.Prog.Pos(cv.Decl), "a ChangeView with "+sc.name+" is not treated as a recovery request on path {"+bad+"}: a node that fell behind and keeps asking for the view the others are already in is never sent the recovery message")
		} else {
			r.ok(fmt.Sprintf("%s: %s ⇒ %s on all %d paths", cv.Name, sc.name, rr.Name, len(exits)))
		}
	}
	return r
}
