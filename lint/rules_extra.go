package main

// Additional obligations: lemma L1 obligations, responder window arithmetic, duration sources.

import (
	"fmt"
	"go/ast"
	"go/constant"
	"go/token"
	"go/types"
	"strings"

	"golang.org/x/tools/go/types/typeutil"
)

var extrasDone bool

func registerExtras() {
	if extrasDone {
		return
	}
	extrasDone = true
	propertyRules["C03"] = append(propertyRules["C03"], ruleL1Obl, ruleRefBlock)
	propertyRules["C01"] = append(propertyRules["C01"], ruleL1Obl, ruleRevalidate, ruleVerifyKey)
	propertyRules["C09"] = append(propertyRules["C09"], ruleResponderWindow, ruleStaleCVRequest, ruleCVPending, ruleTypeSwitch)
	propertyRules["C14"] = append(propertyRules["C14"], ruleDurationSrc, ruleTimestampUnit)
	propertyRules["C10"] = append(propertyRules["C10"], ruleDurationSrc, ruleTimerExtend) // the shipped timer must not lose a pending expiry when the deadline is extended (C10r6-2)
	propertyRules["C16"] = append(propertyRules["C16"], ruleBlockStartRef, ruleInstantSet)
	propertyRules["C11"] = append(propertyRules["C11"], ruleDivNonzero)
	propertyRules["C05"] = append(propertyRules["C05"], ruleDbftState)
	propertyRules["C03"] = append(propertyRules["C03"], ruleDbftState)
	propertyRules["C04"] = append(propertyRules["C04"], rulePrefix)
	propertyRules["C12"] = append(propertyRules["C12"], rulePrefix)
	propertyRules["C02"] = append(propertyRules["C02"], ruleVerifyKey, ruleBlockComplete)
	propertyRules["C15"] = append(propertyRules["C15"], ruleBlockComplete, ruleTimestampUnit)
	propertyRules["C12"] = append(propertyRules["C12"], ruleBlockComplete)
	propertyRules["C07"] = append(propertyRules["C07"], ruleVerifyKey)
	propertyRules["C08"] = append(propertyRules["C08"], ruleVerifyKey)
	// the quorum is only as good as its uses: every progress decision compares its count with M in normal form (a site
	// that spells its own threshold, e.g. 2F, is a different quorum for N != 3F+1) — seed C06r3-3
	propertyRules["C06"] = append(propertyRules["C06"], ruleAccept, rulePreAccept, ruleCommitQuorum, ruleViewQuorum, ruleResponderWindow, ruleDefs, ruleRecoveryReplay)
	propertyRules["C01"] = append(propertyRules["C01"], ruleCommitQuorum, ruleVerifyWindow)
	propertyRules["C02"] = append(propertyRules["C02"], ruleVerifyWindow)
	propertyRules["C08"] = append(propertyRules["C08"], ruleVerifyWindow)
	propertyRules["C08"] = append(propertyRules["C08"], rulePhaseProgress, ruleNoIdleCV, ruleForce)
	propertyRules["C09"] = append(propertyRules["C09"], rulePhaseProgress, ruleViewResetCover, ruleSendPResp, ruleDefCounts, ruleStartAsks)
	propertyRules["C07"] = append(propertyRules["C07"], rulePhaseProgress)
	// the example runs watch-only nodes and a blocked validator in one process: a panic of the library on a watch-only
	// node (index -1) or a payload broadcast by it stops / disturbs the whole simulation — seed C17r3-3
	propertyRules["C17"] = append(propertyRules["C17"], ruleIdx, ruleGSilent, rulePhaseProgress, rulePool, ruleTypedNil, ruleCacheAgree)
	propertyRules["C11"] = append(propertyRules["C11"], ruleTypedNil)
	// "the view's designated primary" is what GetPrimaryIndex computes: admission of proposals (C04, C11) rests on it
	propertyRules["C11"] = append(propertyRules["C11"], ruleArithPrimary, rulePrimaryField)
	propertyRules["C04"] = append(propertyRules["C04"], ruleArithPrimary, rulePrimaryField)
}

// L1-OBL: the state lemma "own (pre)commit / own preparation ⇒ proposal recorded" is an invariant: every non-nil store
// into the own slot of those tables happens with the proposal recorded (or, for the preparation table, by the primary
// whose own slot is the proposal slot).
func ruleL1Obl(c *RC) *RuleResult {
	r := &RuleResult{Rule: "L1-OBL", Kind: "GUARD", Doc: "own-slot stores into Commit/PreCommit/Preparation tables ⇒ proposal recorded (Preparation: or the node is the primary) — the obligation of lemma L1"}
	n := 0
	for _, t := range []string{"CommitPayloads", "PreCommitPayloads", "PreparationPayloads"} {
		for _, s := range c.writesTo("ctx." + t) {
			own := false
			for _, sn := range s.Snaps {
				if sn.Idx != nil && sn.Idx.S == "ctx.MyIndex" && sn.Val != nil && sn.Val.K != KNil {
					own = true
				}
			}
			if !own {
				continue
			}
			n++
			table := t
			c.guardRule(r, []*Site{s}, c.apiList, func(s *Site, sn *Snap) *Formula {
				if sn.Idx == nil || sn.Idx.S != "ctx.MyIndex" {
					return nil
				}
				if table == "PreparationPayloads" {
					return fOr(fRSR(), fIsPrimary())
				}
				return fRSR()
			}, nil)
		}
	}
	if n < 4 {
		r.unresolved(fmt.Sprintf("own-slot stores (found %d)", n))
	}
	return r
}

// A-RESPONDER-WINDOW: a validator without an own (pre)commit answers a recovery request iff
// (MyIndex − sender + N − 1) mod N ≤ F, i.e. it is one of the next F+1 validators after the sender.
func ruleResponderWindow(c *RC) *RuleResult {
	r := &RuleResult{Rule: "A-RESPONDER-WINDOW", Kind: "ARITH", Doc: "recovery-request handler: the non-committed responder window is (MyIndex − sender + N − 1) mod N ≤ F"}
	h := c.handlers()["RecoveryRequestType"]
	if h == nil {
		r.unresolved("recovery-request handler")
		return r
	}
	m := msgParam()
	n := mkTerm(KLen, "", fld("ctx.Validators", false))
	vi := getter("ConsensusPayload", "ValidatorIndex", m, true)
	expr := mkTerm(KBin, "%", mkTerm(KBin, "-", mkTerm(KBin, "+", mkTerm(KBin, "-", tMyIndex, vi), n), constTerm("1")), n)
	want := nfString(expr)
	found := false
	for _, e := range c.exitsOf(h) {
		for _, l := range e.TrailL {
			if l.A.Op != "lt" {
				continue
			}
			a, b := nfString(l.A.A), nfString(l.A.B)
			if strings.HasPrefix(a, "mod(") || strings.HasPrefix(b, "mod(") {
				r.Sites++
				// the only accepted form: F < window  (window > F ⇒ not a responder)
				if a == nfF() && b == want {
					found = true
					r.ok(h.Name + ": responder window " + want + " compared with F")
				} else {
					r.fail(h.Name+"/window", c.Prog.Pos(h.Decl), fmt.Sprintf("responder selection compares %s with %s; expected F < %s", a, b, want))
				}
			}
		}
	}
	if !found && len(r.Findings) == 0 {
		r.unresolved("responder window test in the recovery-request handler")
	}
	return r
}

// O-NO-DURATION-SRC: durations handed to the timer are built from configured durations, the RTT estimate,
// differences of injected instants and constants only.
func ruleDurationSrc(c *RC) *RuleResult {
	r := &RuleResult{Rule: "O-NO-DURATION-SRC", Kind: "PROV", Doc: "every duration handed to Timer.Reset / Timer.Extend is built from timePerBlock, maxTimePerBlock, rttEstimates, Sub of injected instants, M() and constants"}
	var leafBad func(t *Term) string
	leafBad = func(t *Term) string {
		switch t.K {
		case KConst:
			return ""
		case KField:
			if strings.HasPrefix(t.S, "ctx.timePerBlock") || strings.HasPrefix(t.S, "ctx.maxTimePerBlock") || strings.HasPrefix(t.S, "ctx.rttEstimates") || t.S == "ctx.ViewNumber" || t.S == "ctx.Validators" {
				return ""
			}
			return t.S
		case KLen:
			return leafBad(t.Args[0])
		case KParam:
			return "" // judged at the callers of the wrapper
		case KLocal:
			if strings.HasPrefix(t.Name, "if:Timer.Now") || strings.HasPrefix(t.Name, "loopvar") {
				return ""
			}
			return t.S
		case KCall:
			if t.Name == "time.Time.Sub" {
				// operands are instants: injected readings or instants stored from them (P-INSTANT)
				for _, a := range t.Args {
					if a.K == KField && (a.S == "ctx.lastBlockTime" || a.S == "ctx.prepareSentTime") {
						continue
					}
					if b := leafBad(a); b != "" {
						return b
					}
				}
				return ""
			}
			if t.Name == "max" || t.Name == "min" || t.Name == "fn:Context.M" || t.Name == "fn:Context.F" || t.Name == "fn:Context.N" {
				for _, a := range t.Args {
					if b := leafBad(a); b != "" {
						return b
					}
				}
				return ""
			}
			return t.S
		case KBin:
			for _, a := range t.Args {
				if b := leafBad(a); b != "" {
					return b
				}
			}
			return ""
		}
		return t.S
	}
	n := 0
	check := func(s *Site, arg *Term) {
		n++
		r.Sites++
		if b := leafBad(arg); b == "" {
			r.ok(fmt.Sprintf("%s@%s: %s", s.Fn.Name, c.Prog.Pos(s.Node), arg.S))
		} else {
			r.fail(s.Fn.Name+"/duration-src", c.Prog.Pos(s.Node), "timer duration "+arg.S+" depends on "+b+", which is not a configured duration, the RTT estimate or a difference of injected instants")
		}
	}
	for _, w := range c.timerWrappers() {
		for _, s := range c.A.callers[w] {
			for _, sn := range c.preciseSnaps(s) {
				if len(sn.Args) > 0 {
					check(s, sn.Args[len(sn.Args)-1])
				}
			}
		}
	}
	for _, s := range c.callSites("if:Timer.Extend") {
		for _, sn := range c.preciseSnaps(s) {
			if len(sn.Args) == 1 {
				check(s, sn.Args[0])
			}
		}
	}
	for _, s := range c.callSites("if:Timer.Reset") {
		for _, sn := range c.preciseSnaps(s) {
			if len(sn.Args) == 3 {
				check(s, sn.Args[2])
			}
		}
	}
	if n < 8 {
		r.unresolved("timer duration sites")
	}
	if len(r.Samples) > 4 {
		r.Samples = r.Samples[:4]
	}
	return r
}

// preciseSnaps: the snapshots of a call site; when an argument is the opaque result of a module function (a value
// computed by a helper), the snapshots of the cluster walk, in which single-caller helpers are inlined and the value
// is explicit.
func (c *RC) preciseSnaps(s *Site) []*Snap {
	opaque := false
	for _, sn := range s.Snaps {
		for _, a := range sn.Args {
			if a != nil && strings.Contains(a.S, "l:ret:") {
				opaque = true
			}
		}
	}
	if opaque {
		if t := c.clusterSite(s); t != nil {
			return t.Snaps
		}
	}
	return s.Snaps
}

// preciseSnapsAll: the snapshots of s as seen from the function it serves (cluster walk) when s sits in a single-caller
// helper, otherwise its own.
func (c *RC) preciseSnapsAll(s *Site) []*Snap {
	if c.A.inlinable(s.Fn) {
		if t := c.clusterSite(s); t != nil {
			return t.Snaps
		}
	}
	return s.Snaps
}

// G-BLOCKSTART-REF: the timer reference (lastBlockTime/Index/View: "when we started creating the last block, as in
// PrepareRequest") is taken only once a proposal exists for the epoch, from the injected clock and the current epoch.
func ruleBlockStartRef(c *RC) *RuleResult {
	r := &RuleResult{Rule: "G-BLOCKSTART-REF", Kind: "GUARD+PROV", Doc: "lastBlockTime/lastBlockIndex/lastBlockView are written only with a proposal recorded for the epoch (not on an idle attempt), from Timer.Now() / BlockIndex / ViewNumber"}
	var sites []*Site
	locs := []string{"ctx.lastBlockTime", "ctx.lastBlockIndex", "ctx.lastBlockView"}
	if len(c.writesTo(locs[1])) == 0 && len(c.writesTo(locs[2])) == 0 {
		// the two epoch fields merged into one struct-valued tag: every write takes the current height and view
		if tag := c.epochTagField(); tag != nil {
			locs = locs[:1]
			loc := "ctx." + tag.Name()
			for _, s := range c.writesTo(loc) {
				sites = append(sites, s)
				r.Sites++
				as, _ := s.Node.(*ast.AssignStmt)
				okv := false
				if as != nil && len(as.Lhs) == len(as.Rhs) {
					for i, l := range as.Lhs {
						if sel, isSel := ast.Unparen(l).(*ast.SelectorExpr); isSel && sel.Sel.Name == tag.Name() {
							h, v := c.epochMentions(s.Fn.Pkg.TypesInfo, as.Rhs[i], 0)
							okv = c.epochOnly(s.Fn.Pkg.TypesInfo, as.Rhs[i], 0) && h && v
						}
					}
				}
				if okv {
					r.ok(s.Fn.Name + ": " + loc + " ← the current height and view")
				} else {
					r.fail(s.Fn.Name+"/value:"+loc, c.Prog.Pos(s.Node), loc+" (the epoch tag of the timer reference) is written with something other than the current height and view")
				}
			}
		}
	}
	for _, loc := range locs {
		ws := c.writesTo(loc)
		if len(ws) == 0 {
			r.unresolved("write of " + loc)
		}
		for _, s := range ws {
			sites = append(sites, s)
			for _, sn := range c.preciseSnapsAll(s) {
				r.Sites++
				want := map[string]string{"ctx.lastBlockIndex": "ctx.BlockIndex", "ctx.lastBlockView": "ctx.ViewNumber"}[loc]
				switch {
				case sn.Val == nil:
					r.fail(s.Fn.Name+"/value:"+loc, c.Prog.Pos(s.Node), loc+" written with an untracked value")
				case want != "" && sn.Val.S != want:
					r.fail(s.Fn.Name+"/value:"+loc, c.Prog.Pos(s.Node), loc+" assigned from "+sn.Val.S+", expected "+want)
				case want == "" && !strings.HasPrefix(sn.Val.S, "l:if:Timer.Now:"):
					r.fail(s.Fn.Name+"/value:"+loc, c.Prog.Pos(s.Node), loc+" assigned from "+sn.Val.S+", expected Timer.Now()")
				default:
					r.ok(s.Fn.Name + ": " + loc + " ← " + sn.Val.S)
				}
			}
		}
	}
	c.guardRule(r, sites, c.apiList, func(s *Site, sn *Snap) *Formula { return fRSR() }, nil)
	return r
}

// M-STALE-CV-REQUEST: a ChangeView for a view that is not above the receiver's is the cry of a node that fell behind
// (cut off or restarted): on every such path the ChangeView handler hands the payload to the recovery-request handler.
func ruleStaleCVRequest(c *RC) *RuleResult {
	r := &RuleResult{Rule: "M-STALE-CV-REQUEST", Kind: "MUST", Doc: "ChangeView handler: NewViewNumber ≤ current view (both < and =) ⇒ every path reaches the recovery-request handler with that payload"}
	hs := c.handlers()
	cv, rr := hs["ChangeViewType"], hs["RecoveryRequestType"]
	if cv == nil || rr == nil || len(cv.Params) != 1 {
		r.unresolved("ChangeView handler / recovery-request handler")
		return r
	}
	m := mkTerm(KParam, cv.Params[0].Name())
	nv := getter("ChangeView", "NewViewNumber", getter("ConsensusMessage", "GetChangeView", m, false), true)
	for _, sc := range []struct {
		name string
		lit  Lit
	}{
		{"NewViewNumber == ViewNumber", Lit{mkAtom("eq", nv, tViewNumber), true}},
		{"NewViewNumber < ViewNumber", Lit{mkAtom("lt", nv, tViewNumber), true}},
	} {
		init := newState()
		init.F.add(sc.lit)
		exits := c.exitsFrom(cv, init, false)
		r.Sites++
		if len(exits) == 0 {
			r.fail(cv.Name+"/stale:"+sc.name, c.Prog.Pos(cv.Decl), "no path of the ChangeView handler is feasible under "+sc.name)
			continue
		}
		bad := ""
		for _, e := range exits {
			if !e.Events["fn:"+rr.Name] {
				bad = strings.Join(e.Trail, "; ")
			}
		}
		if bad != "" {
			r.fail(cv.Name+"/stale:"+sc.name, c.Prog.Pos(cv.Decl), "a ChangeView with "+sc.name+" is not treated as a recovery request on path {"+bad+"}: a node that fell behind and keeps asking for the view the others are already in is never sent the recovery message")
		} else {
			r.ok(fmt.Sprintf("%s: %s ⇒ %s on all %d paths", cv.Name, sc.name, rr.Name, len(exits)))
		}
	}
	return r
}

// A-DIV-NONZERO: integer division / remainder panics on a zero divisor. Every divisor in package dbft is a non-zero
// constant, the length of an array, derived from the validator count (config.go documents that an empty validator list
// panics: contract A11), or a configuration field that checkConfig refuses when it is zero.
func ruleDivNonzero(c *RC) *RuleResult {
	r := &RuleResult{Rule: "A-DIV-NONZERO", Kind: "ARITH+GUARD", Doc: "every integer / and % in package dbft has a divisor that cannot be zero: non-zero constant, array length, validator count (documented contract), or a Config field validated by checkConfig"}
	_, validated := c.configFacts()
	if c.configChecker() == nil {
		r.unresolved("checkConfig")
	}
	// the constructor hands out an instance only after checkConfig returned nil
	if nw := c.Prog.fn("New"); nw != nil {
		r.Sites++
		bad, good := "", 0
		for _, e := range c.exitsOf(nw) {
			if len(e.Ret) != 2 || e.Ret[0].K == KNil {
				continue
			}
			okd := c.configChecker() != nil && e.Events["fn:"+c.configChecker().Name+"=nil"]
			if okd {
				good++
			} else {
				bad = strings.Join(e.Trail, "; ")
			}
		}
		switch {
		case bad != "":
			r.fail("New/unchecked-config", c.Prog.Pos(nw.Decl), "New returns an instance on a path where checkConfig did not return nil: {"+bad+"}")
		case good == 0:
			r.unresolved("successful exit of New")
		default:
			r.ok("New returns an instance only after checkConfig returned nil")
		}
	} else {
		r.unresolved("New")
	}
	n := 0
	for _, fn := range c.Prog.sortedFuncs() {
		if fn.Pkg.PkgPath != modPath {
			continue
		}
		info := fn.Pkg.TypesInfo
		check := func(pos ast.Node, div ast.Expr) {
			t := info.TypeOf(div)
			if t == nil {
				return
			}
			if b, ok := t.Underlying().(*types.Basic); !ok || b.Info()&types.IsInteger == 0 {
				return
			}
			n++
			r.Sites++
			why := c.nonzeroDivisor(fn, div, validated)
			if why != "" {
				r.ok(fmt.Sprintf("%s@%s: divisor %s — %s", fn.Name, c.Prog.Pos(pos), types.ExprString(div), why))
			} else {
				r.fail(fn.Name+"/div:"+types.ExprString(div), c.Prog.Pos(pos), "integer division by "+types.ExprString(div)+", which nothing keeps from being zero (checkConfig accepts a zero value): the library panics with 'integer divide by zero'")
			}
		}
		ast.Inspect(fn.Decl.Body, func(nd ast.Node) bool {
			switch x := nd.(type) {
			case *ast.BinaryExpr:
				if x.Op == token.QUO || x.Op == token.REM {
					check(x, x.Y)
				}
			case *ast.AssignStmt:
				if (x.Tok == token.QUO_ASSIGN || x.Tok == token.REM_ASSIGN) && len(x.Rhs) == 1 {
					check(x, x.Rhs[0])
				}
			}
			return true
		})
	}
	if n < 3 {
		r.unresolved(fmt.Sprintf("integer divisions in package dbft (found %d, expected >= 3)", n))
	}
	return r
}

// configFacts reads the configuration validator the way the walker sees it: the Config fields that are known to be
// non-nil, and those known to be non-zero, on every path on which checkConfig (with its single-caller helpers inlined)
// returns nil.
func (c *RC) configFacts() (nonNil, nonZero map[string]bool) {
	if c.cfgNonNil != nil {
		return c.cfgNonNil, c.cfgNonZero
	}
	c.cfgNonNil, c.cfgNonZero = map[string]bool{}, map[string]bool{}
	cc := c.configChecker()
	if cc == nil || len(cc.Params) != 1 {
		return c.cfgNonNil, c.cfgNonZero
	}
	pre := "p:" + cc.Params[0].Name() + "."
	first := true
	for _, e := range c.exitsOf(cc) {
		if len(e.Ret) != 1 || e.Ret[0].K != KNil {
			continue
		}
		nn, nz := map[string]bool{}, map[string]bool{}
		for k, v := range e.F.m {
			a := e.F.atoms[k]
			if a == nil || a.A == nil {
				continue
			}
			switch {
			case a.Op == "nn" && v && strings.HasPrefix(a.A.S, pre):
				nn[strings.TrimPrefix(a.A.S, pre)] = true
			case a.Op == "eq" && !v && a.B != nil && a.B.S == "0" && strings.HasPrefix(a.A.S, pre):
				nz[strings.TrimPrefix(a.A.S, pre)] = true
			case a.Op == "lt" && v && a.B != nil && a.A.S == "0" && strings.HasPrefix(a.B.S, pre):
				nz[strings.TrimPrefix(a.B.S, pre)] = true
			}
		}
		if first {
			c.cfgNonNil, c.cfgNonZero, first = nn, nz, false
			continue
		}
		for k := range c.cfgNonNil {
			if !nn[k] {
				delete(c.cfgNonNil, k)
			}
		}
		for k := range c.cfgNonZero {
			if !nz[k] {
				delete(c.cfgNonZero, k)
			}
		}
	}
	return c.cfgNonNil, c.cfgNonZero
}

// nonzeroDivisor explains why div cannot be zero ("" if nothing does).
func (c *RC) nonzeroDivisor(fn *FuncInfo, div ast.Expr, validated map[string]bool) string {
	info := fn.Pkg.TypesInfo
	div = ast.Unparen(div)
	if tv, ok := info.Types[div]; ok && tv.Value != nil {
		if constant.Sign(tv.Value) != 0 {
			return "non-zero constant"
		}
		return ""
	}
	if id, ok := div.(*ast.Ident); ok {
		if v, ok := info.Uses[id].(*types.Var); ok {
			if d, ok := singleDefs(fn)[v]; ok {
				return c.nonzeroDivisor(fn, d, validated)
			}
			// a parameter of a private helper that is never re-assigned: non-zero if every caller passes a non-zero value
			if pi := paramIndexOf(fn, v); pi >= 0 && !fn.Decl.Name.IsExported() && !c.A.escapes[fn] && c.divDepth < 4 {
				reassigned := false
				ast.Inspect(fn.Decl.Body, func(n ast.Node) bool {
					switch x := n.(type) {
					case *ast.AssignStmt:
						for _, l := range x.Lhs {
							if lid, ok := ast.Unparen(l).(*ast.Ident); ok && info.Uses[lid] == v {
								reassigned = true
							}
						}
					case *ast.IncDecStmt:
						if lid, ok := ast.Unparen(x.X).(*ast.Ident); ok && info.Uses[lid] == v {
							reassigned = true
						}
					}
					return true
				})
				if reassigned {
					return ""
				}
				why, n := "", 0
				for _, g := range c.Prog.sortedFuncs() {
					if g.Pkg != fn.Pkg {
						continue
					}
					bad := false
					ast.Inspect(g.Decl.Body, func(nd ast.Node) bool {
						call, ok := nd.(*ast.CallExpr)
						if !ok || pi >= len(call.Args) || call.Ellipsis.IsValid() {
							return true
						}
						fo, _ := typeutil.Callee(g.Pkg.TypesInfo, call).(*types.Func)
						if fo == nil || c.Prog.Funcs[fo.Origin()] != fn {
							return true
						}
						n++
						c.divDepth++
						w := c.nonzeroDivisor(g, call.Args[pi], validated)
						c.divDepth--
						if w == "" {
							bad = true
						} else {
							why = w
						}
						return true
					})
					if bad {
						return ""
					}
				}
				if n > 0 {
					return "every caller passes a non-zero value (" + why + ")"
				}
			}
		}
		return ""
	}
	if call, ok := div.(*ast.CallExpr); ok {
		// conversion T(x)
		if tv, ok := info.Types[call.Fun]; ok && tv.IsType() && len(call.Args) == 1 {
			return c.nonzeroDivisor(fn, call.Args[0], validated)
		}
		if id, ok := call.Fun.(*ast.Ident); ok && id.Name == "len" && len(call.Args) == 1 {
			if _, isBuiltin := info.Uses[id].(*types.Builtin); isBuiltin {
				at := info.TypeOf(call.Args[0])
				if p, ok := at.Underlying().(*types.Pointer); ok {
					at = p.Elem()
				}
				if _, ok := at.Underlying().(*types.Array); ok {
					return "length of an array"
				}
				if sel, ok := call.Args[0].(*ast.SelectorExpr); ok && sel.Sel.Name == "Validators" && namedName(info.TypeOf(sel.X)) == "Context" {
					return "validator count (an empty list is a documented panic: A11)"
				}
			}
		}
		if f, ok := typeutil.Callee(info, call).(*types.Func); ok {
			if t := c.Prog.Funcs[f.Origin()]; t != nil {
				if rt, ok := c.singleRet(t); ok {
					switch nfString(rt) {
					case nfN():
						return "N() = validator count (A11)"
					case mNF():
						return "M() = N-F ≥ 1 for N ≥ 1 (A11)"
					}
				}
			}
		}
		return ""
	}
	if sel, ok := div.(*ast.SelectorExpr); ok && namedName(info.TypeOf(sel.X)) == "Config" {
		if validated[sel.Sel.Name] {
			return "Config." + sel.Sel.Name + " is refused by checkConfig when zero"
		}
	}
	return ""
}

// P-VERIFY-KEY: a (pre)commit is verified under the key of the validator that sent it, over the signature / data it
// carries: Verify(Validators[ValidatorIndex(X)], Signature(GetCommit(X))) for one and the same payload X.
func ruleVerifyKey(c *RC) *RuleResult {
	r := &RuleResult{Rule: "P-VERIFY-KEY", Kind: "PROV", Doc: "every Block.Verify / PreBlock.Verify call checks payload X's own signature (Commit.Signature / PreCommit.Data of X) under Validators[X.ValidatorIndex()] (or the range key of the table X is ranged from)"}
	n := 0
	for _, k := range []struct{ callee, body, get string }{
		{"if:Block.Verify", "Commit.Signature", "ConsensusMessage.GetCommit"},
		{"if:PreBlock.Verify", "PreCommit.Data", "ConsensusMessage.GetPreCommit"},
	} {
		for _, s := range c.callSites(k.callee) {
			if s.Fn.Pkg.PkgPath != modPath {
				continue
			}
			for _, sn := range s.Snaps {
				n++
				r.Sites++
				if len(sn.Args) != 2 {
					r.fail(s.Fn.Name+"/verify-args", c.Prog.Pos(s.Node), "unexpected arity")
					continue
				}
				key, sig := sn.Args[0], sn.Args[1]
				var x *Term
				if sig.K == KCall && sig.Name == k.body && len(sig.Args) == 1 && sig.Args[0].K == KCall && sig.Args[0].Name == k.get && len(sig.Args[0].Args) == 1 {
					x = sig.Args[0].Args[0]
				}
				bad := ""
				switch {
				case x == nil:
					bad = "the verified bytes " + sig.S + " are not " + k.body + "(" + k.get + "(payload))"
				case key.K != KIndex || key.Args[0].S != "ctx.Validators":
					bad = "the key " + key.S + " is not an entry of the validator list"
				default:
					idx := key.Args[1]
					own := getter("ConsensusPayload", "ValidatorIndex", x, true)
					okIdx := idx.S == own.S
					if !okIdx && x.K == KElem && idx.K == KLocal && strings.HasPrefix(idx.Name, "rangekey:") && strings.HasSuffix(idx.Name, ":"+x.Args[0].S) {
						okIdx = true // the slot index of the ranged payload (stores are keyed by the sender index: P-SLOT)
					}
					if !okIdx {
						bad = "the key is Validators[" + idx.S + "], not the sender's Validators[" + own.S + "]"
					}
				}
				if bad == "" {
					r.ok(fmt.Sprintf("%s@%s: %s under the sender's key", s.Fn.Name, c.Prog.Pos(s.Node), k.body))
				} else {
					r.fail(s.Fn.Name+"/verify-key:"+k.callee, c.Prog.Pos(s.Node), bad+" (a valid (pre)commit of another validator is rejected, or a forged one accepted)")
				}
			}
		}
	}
	if n < 4 {
		r.unresolved(fmt.Sprintf("Verify call sites (found %d, expected >= 4)", n))
	}
	return r
}

// F-DBFT-STATE: state kept next to the Context (fields of the DBFT struct itself) is not touched by the epoch writer,
// so each such field must be of a kind that cannot carry anything from one height or view into the next: the embedded
// Context / Config, the mutex, the future-message cache (A-CACHE), or a boolean flag that is scoped to one call (every
// function that sets it has it cleared again at every exit). Anything else is persistent state outside the reset
// discipline and fails until it is classified.
func ruleDbftState(c *RC) *RuleResult {
	r := &RuleResult{Rule: "F-DBFT-STATE", Kind: "TYPESTATE", Doc: "every field of DBFT outside Context is the config, the mutex, the future-message cache, or a call-scoped boolean flag (false again at every exit of every function that sets it)"}
	st := c.Prog.Structs["DBFT"]
	if st == nil {
		r.unresolved("struct DBFT")
		return r
	}
	for i := 0; i < st.NumFields(); i++ {
		f := st.Field(i)
		r.Sites++
		tn := c.Prog.typeRole(namedName(f.Type()))
		switch {
		case f.Embedded() && (tn == "Context" || tn == "Config" || tn == "Mutex"):
			r.ok("DBFT." + f.Name() + ": embedded " + tn)
			continue
		case tn == "cache":
			r.ok("DBFT." + f.Name() + ": future-message cache (obligations in A-CACHE)")
			continue
		case c.A.dispatchTable("dbft."+c.Prog.fieldRole(f, f.Name())) != nil:
			r.ok("DBFT." + f.Name() + ": constant dispatch table (assigned once by New from a literal with constant keys, never modified): configuration, not state")
			continue
		}
		loc := "dbft." + c.Prog.fieldRole(f, f.Name())
		if b, ok := f.Type().Underlying().(*types.Basic); ok && b.Kind() == types.Bool {
			// call-scoped flag
			bad := ""
			writers := 0
			for _, fn := range c.Prog.dbftFuncs() {
				sets := false
				for _, s := range c.A.FnSites[fn] {
					if s.Kind == "write" && s.Loc == loc {
						sets = true
					}
				}
				if !sets {
					continue
				}
				writers++
				for _, e := range c.exitsFrom(fn, newState(), true) {
					v := e.FieldVal[loc]
					if e.Killed[loc] != 0 && (v == nil || v.S != "false") {
						got := "unknown"
						if v != nil {
							got = v.S
						}
						bad = fn.Name + " leaves " + loc + " = " + got + " on path {" + strings.Join(e.Trail, "; ") + "}"
					}
				}
			}
			switch {
			case bad != "":
				r.fail("DBFT."+f.Name()+"/flag-leaks", "", "the flag is not cleared on every exit of the function that sets it, and neither Reset nor Start clears it: "+bad+" (it then influences later heights)")
			case writers == 0:
				r.ok("DBFT." + f.Name() + ": never written")
			default:
				r.ok(fmt.Sprintf("DBFT.%s: call-scoped flag, false at every exit of its %d writer(s)", f.Name(), writers))
			}
			continue
		}
		r.fail("DBFT."+f.Name()+"/unclassified", "", "field "+f.Name()+" ("+f.Type().String()+") of DBFT lives outside Context: the epoch writer does not reinitialise it, so what it holds survives view changes and Reset; classify it (and state what resets it) before relying on it")
	}
	return r
}

// G-BLOCK-COMPLETE: the cached block / pre-block is built (its transaction list is fixed by SetTransactions, and the
// object is memoised) only when every transaction of the proposal is present; built earlier it would carry nil
// transactions into verification and acceptance.
func ruleBlockComplete(c *RC) *RuleResult {
	r := &RuleResult{Rule: "G-BLOCK-COMPLETE", Kind: "GUARD", Doc: "every call of Block.SetTransactions / PreBlock.SetTransactions (the memoised block constructors) happens with all transactions of the proposal present"}
	sites := c.sitesWhere(func(s *Site) bool {
		return s.Kind == "call" && (s.Callee == "if:Block.SetTransactions" || s.Callee == "if:PreBlock.SetTransactions") && s.Fn.Pkg.PkgPath == modPath
	})
	if len(sites) < 2 {
		r.unresolved(fmt.Sprintf("SetTransactions call sites (found %d, expected >= 2)", len(sites)))
	}
	c.guardRule(r, sites, c.apiList, func(s *Site, sn *Snap) *Formula { return fAllTx() }, nil)
	return r
}
