package main

// Dependency reading of package internal/merkle. "A Merkle root changes with any leaf change" has a structural necessary
// condition that does not depend on how the code is spelled: wherever a node's hash is computed by a digest, the digest's
// input depends on the hashes of both children, elements 2i and 2i+1 of the level below (the odd last one may be paired
// with itself). The reader below is flow-insensitive and context-sensitive: locals stand for the union of everything ever
// assigned to them (including what copy() and append() put into them), parameters for the caller's arguments, pointer
// fields (Left/Right) for everything ever assigned to a field of that name, integer expressions for sets of affine forms.
// It therefore does not care whether the input is built with append or copy, in one function or in three, recursively or
// level by level.

import (
	"fmt"
	"go/ast"
	"go/token"
	"go/types"
	"os"
	"sort"
	"strconv"
	"strings"

	"golang.org/x/tools/go/types/typeutil"
)

type mctx struct {
	fn    *FuncInfo
	bind  map[*types.Var]mbinding
	stack []*FuncInfo
}

type mbinding struct {
	ctx  *mctx
	expr ast.Expr
}

type mfield struct {
	ctx *mctx
	rhs ast.Expr
}

type mhashAsg struct {
	ctx  *mctx
	base ast.Expr // X of X.Hash
	rhs  ast.Expr
	node ast.Node
}

type mfnDefs struct {
	defs     map[*types.Var][]ast.Expr // every value assigned to a local
	symbolic map[*types.Var]bool       // range keys, counters: stand for themselves
	copied   map[*types.Var][]ast.Expr // copy(v[...], src), v = append(v, src...)
}

type merkleReader struct {
	c      *RC
	pkg    string
	fdefs  map[*FuncInfo]*mfnDefs
	fields map[string][]mfield
	hashes []mhashAsg
	ctxs   int
	busy   map[string]bool
}

type maff struct {
	co map[string]int
	k  int
}

func (a maff) String() string {
	var ks []string
	for s, c := range a.co {
		if c != 0 {
			ks = append(ks, s)
		}
	}
	sort.Strings(ks)
	var parts []string
	for _, s := range ks {
		if a.co[s] == 1 {
			parts = append(parts, s)
		} else {
			parts = append(parts, strconv.Itoa(a.co[s])+"*"+s)
		}
	}
	if a.k != 0 || len(parts) == 0 {
		parts = append(parts, strconv.Itoa(a.k))
	}
	return strings.Join(parts, "+")
}

func (m *merkleReader) defsOf(fn *FuncInfo) *mfnDefs {
	if d, ok := m.fdefs[fn]; ok {
		return d
	}
	d := &mfnDefs{defs: map[*types.Var][]ast.Expr{}, symbolic: map[*types.Var]bool{}, copied: map[*types.Var][]ast.Expr{}}
	m.fdefs[fn] = d
	info := fn.Pkg.TypesInfo
	varOf := func(e ast.Expr) *types.Var {
		for {
			switch x := ast.Unparen(e).(type) {
			case *ast.SliceExpr:
				e = x.X
				continue
			case *ast.Ident:
				if v, ok := info.Defs[x].(*types.Var); ok {
					return v
				}
				if v, ok := info.Uses[x].(*types.Var); ok {
					return v
				}
			}
			return nil
		}
	}
	ast.Inspect(fn.Decl.Body, func(n ast.Node) bool {
		switch x := n.(type) {
		case *ast.AssignStmt:
			if len(x.Lhs) == len(x.Rhs) {
				for i, l := range x.Lhs {
					if id, ok := ast.Unparen(l).(*ast.Ident); ok {
						if v := varOf(id); v != nil {
							if x.Tok == token.ASSIGN || x.Tok == token.DEFINE {
								d.defs[v] = append(d.defs[v], x.Rhs[i])
							} else {
								d.symbolic[v] = true // +=, -= ...
							}
						}
					}
				}
			} else {
				for _, l := range x.Lhs {
					if v := varOf(l); v != nil && len(x.Rhs) == 1 {
						d.defs[v] = append(d.defs[v], x.Rhs[0])
					}
				}
			}
		case *ast.ValueSpec:
			for i, id := range x.Names {
				if v, ok := info.Defs[id].(*types.Var); ok && i < len(x.Values) {
					d.defs[v] = append(d.defs[v], x.Values[i])
				}
			}
		case *ast.IncDecStmt:
			if v := varOf(x.X); v != nil {
				d.symbolic[v] = true
			}
		case *ast.RangeStmt:
			if id, ok := x.Key.(*ast.Ident); ok && id.Name != "_" {
				if v := varOf(id); v != nil {
					d.symbolic[v] = true
				}
			}
			if id, ok := x.Value.(*ast.Ident); ok && id.Name != "_" {
				if v := varOf(id); v != nil {
					if k, ok := x.Key.(*ast.Ident); ok && k.Name != "_" {
						d.defs[v] = append(d.defs[v], &ast.IndexExpr{X: x.X, Index: k})
					} else {
						d.defs[v] = append(d.defs[v], &ast.IndexExpr{X: x.X, Index: &ast.Ident{Name: "?"}})
					}
				}
			}
		case *ast.CallExpr:
			if id, ok := ast.Unparen(x.Fun).(*ast.Ident); ok && info.Uses[id] == types.Universe.Lookup("copy") && len(x.Args) == 2 {
				if v := varOf(x.Args[0]); v != nil {
					d.copied[v] = append(d.copied[v], x.Args[1])
				}
			}
		}
		return true
	})
	return d
}

func (m *merkleReader) callee(ctx *mctx, call *ast.CallExpr) *FuncInfo {
	fo, _ := typeutil.Callee(ctx.fn.Pkg.TypesInfo, call).(*types.Func)
	if fo == nil {
		return nil
	}
	t := m.c.Prog.Funcs[fo.Origin()]
	if t == nil || t.Decl == nil || t.Decl.Body == nil || t.Pkg.PkgPath != m.pkg {
		return nil
	}
	return t
}

func (m *merkleReader) enter(ctx *mctx, call *ast.CallExpr, t *FuncInfo) *mctx {
	for _, s := range ctx.stack {
		if s == t {
			return nil
		}
	}
	if len(ctx.stack) > 6 {
		return nil
	}
	sub := &mctx{fn: t, bind: map[*types.Var]mbinding{}, stack: append(append([]*FuncInfo{}, ctx.stack...), t)}
	sig := t.Obj.Type().(*types.Signature)
	for j, p := range t.Params {
		switch {
		case sig.Variadic() && j == len(t.Params)-1:
			if call.Ellipsis.IsValid() && j < len(call.Args) {
				sub.bind[p] = mbinding{ctx, call.Args[j]}
			}
		case j < len(call.Args):
			sub.bind[p] = mbinding{ctx, call.Args[j]}
		}
	}
	if t.RecvVar != nil {
		if sel, ok := ast.Unparen(call.Fun).(*ast.SelectorExpr); ok {
			sub.bind[t.RecvVar] = mbinding{ctx, sel.X}
		}
	}
	return sub
}

// collect walks the call tree below ctx, noting pointer-field assignments and hash-field assignments with their contexts.
func (m *merkleReader) collect(ctx *mctx) {
	m.ctxs++
	info := ctx.fn.Pkg.TypesInfo
	ast.Inspect(ctx.fn.Decl.Body, func(n ast.Node) bool {
		switch x := n.(type) {
		case *ast.AssignStmt:
			if len(x.Lhs) != len(x.Rhs) {
				return true
			}
			for i, l := range x.Lhs {
				sel, ok := ast.Unparen(l).(*ast.SelectorExpr)
				if !ok {
					continue
				}
				s := info.Selections[sel]
				if s == nil || s.Kind() != types.FieldVal {
					continue
				}
				ft := s.Obj().Type()
				if _, isPtr := ft.(*types.Pointer); isPtr {
					m.fields[sel.Sel.Name] = append(m.fields[sel.Sel.Name], mfield{ctx, x.Rhs[i]})
				} else if m.isHashType(ft) {
					m.hashes = append(m.hashes, mhashAsg{ctx, sel.X, x.Rhs[i], x})
				}
			}
		case *ast.CallExpr:
			if t := m.callee(ctx, x); t != nil {
				if sub := m.enter(ctx, x, t); sub != nil {
					m.collect(sub)
				}
			}
		}
		return true
	})
}

func (m *merkleReader) isHashType(t types.Type) bool {
	arr, ok := t.Underlying().(*types.Array)
	if !ok {
		return false
	}
	b, ok := arr.Elem().Underlying().(*types.Basic)
	return ok && b.Kind() == types.Uint8
}

func (m *merkleReader) guard(kind string, ctx *mctx, e ast.Expr) (func(), bool) {
	k := fmt.Sprintf("%s|%p|%d|%d|%T", kind, ctx, e.Pos(), e.End(), e)
	if id, ok := e.(*ast.Ident); ok {
		k += id.Name
	}
	if m.busy[k] {
		return nil, false
	}
	m.busy[k] = true
	return func() { delete(m.busy, k) }, true
}

func (m *merkleReader) localVar(ctx *mctx, id *ast.Ident) *types.Var {
	info := ctx.fn.Pkg.TypesInfo
	if v, ok := info.Uses[id].(*types.Var); ok && !v.IsField() {
		return v
	}
	if v, ok := info.Defs[id].(*types.Var); ok && !v.IsField() {
		return v
	}
	return nil
}

// returnsOf: the result expressions (position i) of an internal callee, each with the callee's context.
func (m *merkleReader) returnsOf(ctx *mctx, call *ast.CallExpr, i int) (*mctx, []ast.Expr) {
	t := m.callee(ctx, call)
	if t == nil {
		return nil, nil
	}
	sub := m.enter(ctx, call, t)
	if sub == nil {
		return nil, nil
	}
	var out []ast.Expr
	ast.Inspect(t.Decl.Body, func(n ast.Node) bool {
		switch x := n.(type) {
		case *ast.FuncLit:
			return false
		case *ast.ReturnStmt:
			if i < len(x.Results) {
				out = append(out, x.Results[i])
			}
		}
		return true
	})
	return sub, out
}

// ints: the affine forms an integer expression may take.
func (m *merkleReader) ints(ctx *mctx, e ast.Expr) []maff {
	e = ast.Unparen(e)
	done, ok := m.guard("i", ctx, e)
	if !ok {
		return nil
	}
	defer done()
	info := ctx.fn.Pkg.TypesInfo
	if tv, ok := info.Types[e]; ok && tv.Value != nil {
		if n, err := strconv.Atoi(tv.Value.ExactString()); err == nil {
			return []maff{{map[string]int{}, n}}
		}
	}
	sym := func(s string) []maff { return []maff{{map[string]int{s: 1}, 0}} }
	switch x := e.(type) {
	case *ast.Ident:
		v := m.localVar(ctx, x)
		if v == nil {
			return sym(x.Name)
		}
		if b, ok := ctx.bind[v]; ok {
			return m.ints(b.ctx, b.expr)
		}
		d := m.defsOf(ctx.fn)
		if d.symbolic[v] || len(d.defs[v]) == 0 {
			return sym(x.Name)
		}
		var out []maff
		for _, def := range d.defs[v] {
			out = append(out, m.ints(ctx, def)...)
		}
		return out
	case *ast.BinaryExpr:
		as, bs := m.ints(ctx, x.X), m.ints(ctx, x.Y)
		var out []maff
		for _, a := range as {
			for _, b := range bs {
				switch x.Op {
				case token.ADD, token.SUB:
					sg := 1
					if x.Op == token.SUB {
						sg = -1
					}
					r := maff{map[string]int{}, a.k + sg*b.k}
					for s, c := range a.co {
						r.co[s] += c
					}
					for s, c := range b.co {
						r.co[s] += sg * c
					}
					out = append(out, r)
				case token.MUL:
					p, q := a, b
					if len(p.co) == 0 {
						p, q = q, p
					}
					if len(q.co) == 0 {
						r := maff{map[string]int{}, p.k * q.k}
						for s, c := range p.co {
							r.co[s] = c * q.k
						}
						out = append(out, r)
					} else {
						out = append(out, maff{map[string]int{"(" + a.String() + ")*(" + b.String() + ")": 1}, 0})
					}
				default:
					out = append(out, maff{map[string]int{"(" + a.String() + x.Op.String() + b.String() + ")": 1}, 0})
				}
			}
		}
		return out
	case *ast.CallExpr:
		if tv, ok := info.Types[x.Fun]; ok && tv.IsType() && len(x.Args) == 1 {
			return m.ints(ctx, x.Args[0])
		}
		if sub, rets := m.returnsOf(ctx, x, 0); sub != nil {
			var out []maff
			for _, r := range rets {
				out = append(out, m.ints(sub, r)...)
			}
			return out
		}
	}
	return sym(fmt.Sprintf("?%d", e.Pos()))
}

// arrs: the node arrays a slice expression may denote (named by the function and variable that made them).
func (m *merkleReader) arrs(ctx *mctx, e ast.Expr) []string {
	e = ast.Unparen(e)
	done, ok := m.guard("a", ctx, e)
	if !ok {
		return nil
	}
	defer done()
	switch x := e.(type) {
	case *ast.Ident:
		v := m.localVar(ctx, x)
		if v == nil {
			return nil
		}
		if b, ok := ctx.bind[v]; ok {
			return m.arrs(b.ctx, b.expr)
		}
		var out []string
		for _, def := range m.defsOf(ctx.fn).defs[v] {
			if call, ok := ast.Unparen(def).(*ast.CallExpr); ok {
				if id, ok := ast.Unparen(call.Fun).(*ast.Ident); ok && id.Name == "make" {
					out = append(out, ctx.fn.Name+"."+x.Name)
					continue
				}
				if id, ok := ast.Unparen(call.Fun).(*ast.Ident); ok && id.Name == "append" && len(call.Args) > 0 {
					out = append(out, m.arrs(ctx, call.Args[0])...)
					continue
				}
			}
			if _, ok := ast.Unparen(def).(*ast.CompositeLit); ok {
				out = append(out, ctx.fn.Name+"."+x.Name)
				continue
			}
			out = append(out, m.arrs(ctx, def)...)
		}
		if len(out) == 0 {
			out = append(out, ctx.fn.Name+"."+x.Name)
		}
		return out
	case *ast.SliceExpr:
		return m.arrs(ctx, x.X)
	case *ast.CallExpr:
		if sub, rets := m.returnsOf(ctx, x, 0); sub != nil {
			var out []string
			for _, r := range rets {
				out = append(out, m.arrs(sub, r)...)
			}
			return out
		}
	}
	return nil
}

// refs: the nodes an expression of node or pointer-to-node type may denote, as "array[affine index]".
func (m *merkleReader) refs(ctx *mctx, e ast.Expr) []string {
	e = ast.Unparen(e)
	done, ok := m.guard("r", ctx, e)
	if !ok {
		return nil
	}
	defer done()
	info := ctx.fn.Pkg.TypesInfo
	switch x := e.(type) {
	case *ast.UnaryExpr:
		if x.Op == token.AND {
			return m.refs(ctx, x.X)
		}
	case *ast.StarExpr:
		return m.refs(ctx, x.X)
	case *ast.IndexExpr:
		var out []string
		for _, a := range m.arrs(ctx, x.X) {
			for _, i := range m.ints(ctx, x.Index) {
				out = append(out, a+"["+i.String()+"]")
			}
		}
		return out
	case *ast.Ident:
		v := m.localVar(ctx, x)
		if v == nil {
			return nil
		}
		if b, ok := ctx.bind[v]; ok {
			return m.refs(b.ctx, b.expr)
		}
		var out []string
		for _, def := range m.defsOf(ctx.fn).defs[v] {
			out = append(out, m.refs(ctx, def)...)
		}
		return out
	case *ast.SelectorExpr:
		if s := info.Selections[x]; s != nil && s.Kind() == types.FieldVal {
			if _, isPtr := s.Obj().Type().(*types.Pointer); isPtr {
				var out []string
				for _, fa := range m.fields[x.Sel.Name] {
					out = append(out, m.refs(fa.ctx, fa.rhs)...)
				}
				return out
			}
		}
	case *ast.CallExpr:
		if sub, rets := m.returnsOf(ctx, x, 0); sub != nil {
			var out []string
			for _, r := range rets {
				out = append(out, m.refs(sub, r)...)
			}
			return out
		}
	}
	return nil
}

// hdeps: the nodes whose hash an expression's value may depend on; digest tells whether a digest function of package
// crypto was passed on the way.
func (m *merkleReader) hdeps(ctx *mctx, e ast.Expr) (out []string, digest bool) {
	e = ast.Unparen(e)
	done, ok := m.guard("h", ctx, e)
	if !ok {
		return nil, false
	}
	defer done()
	info := ctx.fn.Pkg.TypesInfo
	add := func(s []string, d bool) {
		out = append(out, s...)
		digest = digest || d
	}
	switch x := e.(type) {
	case *ast.SelectorExpr:
		if s := info.Selections[x]; s != nil && s.Kind() == types.FieldVal && m.isHashType(s.Obj().Type()) {
			return m.refs(ctx, x.X), false
		}
	case *ast.SliceExpr:
		return m.hdeps(ctx, x.X)
	case *ast.IndexExpr:
		return m.hdeps(ctx, x.X)
	case *ast.StarExpr:
		return m.hdeps(ctx, x.X)
	case *ast.UnaryExpr:
		return m.hdeps(ctx, x.X)
	case *ast.BinaryExpr:
		add(m.hdeps(ctx, x.X))
		add(m.hdeps(ctx, x.Y))
	case *ast.CompositeLit:
		for _, el := range x.Elts {
			if kv, ok := el.(*ast.KeyValueExpr); ok {
				el = kv.Value
			}
			add(m.hdeps(ctx, el))
		}
	case *ast.Ident:
		v := m.localVar(ctx, x)
		if v == nil {
			return nil, false
		}
		if b, ok := ctx.bind[v]; ok {
			return m.hdeps(b.ctx, b.expr)
		}
		d := m.defsOf(ctx.fn)
		for _, def := range d.defs[v] {
			add(m.hdeps(ctx, def))
		}
		for _, src := range d.copied[v] {
			add(m.hdeps(ctx, src))
		}
	case *ast.CallExpr:
		if tv, ok := info.Types[x.Fun]; ok && tv.IsType() && len(x.Args) == 1 {
			return m.hdeps(ctx, x.Args[0])
		}
		if sub, rets := m.returnsOf(ctx, x, 0); sub != nil {
			for _, r := range rets {
				add(m.hdeps(sub, r))
			}
			return
		}
		isDigest := false
		if fo, _ := typeutil.Callee(info, x).(*types.Func); fo != nil && fo.Pkg() != nil {
			p := fo.Pkg().Path()
			if strings.HasSuffix(p, "/internal/crypto") && strings.HasPrefix(fo.Name(), "Hash") || strings.HasPrefix(p, "crypto/sha") {
				isDigest = true
			}
		}
		for _, a := range x.Args {
			add(m.hdeps(ctx, a))
		}
		if sel, ok := ast.Unparen(x.Fun).(*ast.SelectorExpr); ok {
			if s := info.Selections[sel]; s != nil && s.Kind() == types.MethodVal {
				add(m.hdeps(ctx, sel.X)) // h.Write(x); h.Sum(nil)
			}
		}
		digest = digest || isDigest
	}
	return
}

// ruleMerkleDeps adds the Merkle obligations to r.
func (c *RC) ruleMerkleDeps(r *RuleResult) {
	pkg := modPath + "/internal/merkle"
	m := &merkleReader{c: c, pkg: pkg, fdefs: map[*FuncInfo]*mfnDefs{}, fields: map[string][]mfield{}, busy: map[string]bool{}}
	called := map[*FuncInfo]bool{}
	var fns []*FuncInfo
	for _, fn := range c.Prog.sortedFuncs() {
		if fn.Pkg.PkgPath != pkg || fn.Decl == nil || fn.Decl.Body == nil {
			continue
		}
		fns = append(fns, fn)
		ctx := &mctx{fn: fn}
		ast.Inspect(fn.Decl.Body, func(n ast.Node) bool {
			if call, ok := n.(*ast.CallExpr); ok {
				if t := m.callee(ctx, call); t != nil && t != fn {
					called[t] = true
				}
			}
			return true
		})
	}
	for _, fn := range fns {
		if !called[fn] {
			m.collect(&mctx{fn: fn, bind: map[*types.Var]mbinding{}, stack: []*FuncInfo{fn}})
		}
	}
	if os.Getenv("DBFTLINT_DEBUG_MERKLE") != "" {
		for f, as := range m.fields {
			for _, a := range as {
				fmt.Println("MERKLE field", f, a.ctx.fn.Name, c.Prog.Pos(a.rhs), m.refs(a.ctx, a.rhs))
			}
		}
	}
	n := 0
	seen := map[string]bool{}
	for _, h := range m.hashes {
		deps, digest := m.hdeps(h.ctx, h.rhs)
		if !digest {
			continue // a leaf's hash, a copy
		}
		parents := m.refs(h.ctx, h.base)
		set := map[string]bool{}
		for _, d := range deps {
			set[d] = true
		}
		var ds []string
		for d := range set {
			ds = append(ds, d)
		}
		sort.Strings(ds)
		sort.Strings(parents)
		key := c.Prog.Pos(h.node) + "|" + strings.Join(ds, ",")
		if seen[key] {
			continue
		}
		seen[key] = true
		n++
		r.Sites++
		// two children: array[2*s] and array[2*s+1] of one array for one symbol s
		good := ""
		for d := range set {
			i := strings.LastIndex(d, "[")
			arr, idx := d[:i], strings.TrimSuffix(d[i+1:], "]")
			if !strings.HasPrefix(idx, "2*") || strings.Contains(idx, "+") {
				continue
			}
			if set[arr+"["+idx+"+1]"] {
				good = arr + "[" + idx + "] and " + arr + "[" + idx + "+1]"
			}
		}
		if good != "" {
			r.ok(fmt.Sprintf("%s: hash of %s = digest over the hashes of %s (all sources: %s)", h.ctx.fn.Name, strings.Join(parents, "|"), good, strings.Join(ds, ", ")))
		} else {
			r.fail("merkle.parent-hash/children", c.Prog.Pos(h.node), "a node hash computed in "+h.ctx.fn.Name+" does not depend on the hashes of both children 2i and 2i+1 of the level below (it depends on: "+strings.Join(ds, ", ")+"): a change of the other leaf leaves the root unchanged")
		}
	}
	if n == 0 {
		r.unresolved("a node hash computed by a digest in internal/merkle")
	}
}
