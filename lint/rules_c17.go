package main

// C17: the bundled simulation honours the library contract (client typestate).

import (
	"fmt"
	"go/ast"
	"go/token"
	"go/types"
	"math/big"
	"strings"

	"golang.org/x/tools/go/types/typeutil"
)

func init() {
	propertyRules["C17"] = []ruleFn{ruleClientReset, ruleClientTip, ruleClientConfig, ruleRefBlock, ruleViewResetCover, ruleTimerDrain, ruleRearm, ruleInitArms, ruleTimestampUnit}
	propertyExplain["C17"] = "Client typestate on internal/simulation and internal/consensus.New: the node's event loop re-initialises the library (DBFT.Reset) after a handled event under a condition implied by 'a block was processed', from the loop and not from inside the ProcessBlock callback; the ledger callbacks return fields that the ProcessBlock callback assigns from b.Index()/b.Hash(); OnTimeout receives the timer's Height()/View(); the timer channel is re-read in every iteration; every option checkConfig requires is supplied and the payload-verification options share one verifier; the reference block constructor receives the context fields in their roles; plus the library/timer preconditions the example's liveness relies on (per-view state dropped on every view change, the immediate-expiry channel is drained before a send, every timeout and initialisation re-arms the timer). Goroutine schedules, block interval and agreement between the simulated nodes are run-time behaviour of a concurrent program: not applicable."
}

const simPath = modPath + "/internal/simulation"

func (c *RC) simFuncs() []*FuncInfo {
	var out []*FuncInfo
	for _, fn := range c.Prog.sortedFuncs() {
		if fn.Pkg.PkgPath == simPath {
			out = append(out, fn)
		}
	}
	return out
}

// dbftMethodCalls finds calls of (*DBFT).name in fn.
func dbftMethodCalls(fn *FuncInfo, name string) []*ast.CallExpr {
	var out []*ast.CallExpr
	info := fn.Pkg.TypesInfo
	ast.Inspect(fn.Decl.Body, func(n ast.Node) bool {
		call, ok := n.(*ast.CallExpr)
		if !ok {
			return true
		}
		if f, ok := typeutil.Callee(info, call).(*types.Func); ok && f.Name() == name {
			if sig := f.Type().(*types.Signature); sig.Recv() != nil {
				rn := namedName(sig.Recv().Type())
				if (rn == "DBFT" || rn == "Context") && namedPkgPath(sig.Recv().Type()) == modPath {
					out = append(out, call)
				}
			}
		}
		return true
	})
	return out
}

// callbackArg: the function passed to consensus.New for the given parameter name.
func (c *RC) callbackArg(param string) (*FuncInfo, *ast.CallExpr) {
	newFn := c.Prog.ByName["internal/consensus:New"]
	if newFn == nil {
		return nil, nil
	}
	idx := -1
	for i, p := range newFn.Params {
		if p.Name() == param {
			idx = i
		}
	}
	if idx < 0 {
		return nil, nil
	}
	for _, fn := range c.simFuncs() {
		info := fn.Pkg.TypesInfo
		var res *FuncInfo
		var at *ast.CallExpr
		ast.Inspect(fn.Decl.Body, func(n ast.Node) bool {
			call, ok := n.(*ast.CallExpr)
			if !ok || len(call.Args) <= idx {
				return true
			}
			if f, ok := typeutil.Callee(info, call).(*types.Func); ok && c.Prog.Funcs[f.Origin()] == newFn {
				if sel, ok := ast.Unparen(call.Args[idx]).(*ast.SelectorExpr); ok {
					if s := info.Selections[sel]; s != nil && s.Kind() == types.MethodVal {
						if m, ok := s.Obj().(*types.Func); ok {
							res = c.Prog.Funcs[m.Origin()]
							at = call
						}
					}
				}
			}
			return true
		})
		if res != nil {
			return res, at
		}
	}
	return nil, nil
}

func (c *RC) simReach(from *FuncInfo) map[*FuncInfo]bool {
	seen := map[*FuncInfo]bool{}
	var visit func(f *FuncInfo)
	visit = func(f *FuncInfo) {
		if seen[f] {
			return
		}
		seen[f] = true
		info := f.Pkg.TypesInfo
		ast.Inspect(f.Decl.Body, func(n ast.Node) bool {
			if call, ok := n.(*ast.CallExpr); ok {
				if fo, ok := typeutil.Callee(info, call).(*types.Func); ok {
					if t := c.Prog.Funcs[fo.Origin()]; t != nil && t.Pkg.PkgPath == simPath {
						visit(t)
					}
				}
			}
			return true
		})
	}
	visit(from)
	return seen
}

func ruleClientReset(c *RC) *RuleResult {
	r := &RuleResult{Rule: "G-CLIENT-RESET", Kind: "TYPESTATE", Doc: "the event loop calls DBFT.Reset after handling an event, under a condition implied by 'block processed', inside the loop and not from the ProcessBlock callback"}
	var loopFn *FuncInfo
	for _, fn := range c.simFuncs() {
		if len(dbftMethodCalls(fn, "Start")) > 0 {
			loopFn = fn
		}
	}
	if loopFn == nil {
		r.unresolved("event loop (function calling DBFT.Start) in internal/simulation")
		return r
	}
	pb, _ := c.callbackArg("processBlock")
	if pb == nil {
		r.unresolved("ProcessBlock callback passed to consensus.New")
		return r
	}
	// fields written by the ProcessBlock callback
	pbFields := map[string]bool{}
	ast.Inspect(pb.Decl.Body, func(n ast.Node) bool {
		if as, ok := n.(*ast.AssignStmt); ok {
			for _, l := range as.Lhs {
				if sel, ok := l.(*ast.SelectorExpr); ok {
					pbFields[sel.Sel.Name] = true
				}
			}
		}
		return true
	})
	inCallback := c.simReach(pb)
	fromLoop := c.simReach(loopFn)
	total := 0
	good := 0
	for _, fn := range c.simFuncs() {
		for _, call := range dbftMethodCalls(fn, "Reset") {
			total++
			r.Sites++
			switch {
			case inCallback[fn]:
				r.fail(fn.Name+"/reset-in-callback", c.Prog.Pos(call), "DBFT.Reset is called from inside the ProcessBlock callback: the library sets its block-sent flag after the callback returns, so the nested re-initialisation is overwritten and the node stays quiescent")
				continue
			case !fromLoop[fn]:
				r.fail(fn.Name+"/reset-unreachable", c.Prog.Pos(call), "DBFT.Reset is not reachable from the event loop")
				continue
			}
			// enclosing statements: inside a for loop (when in the loop function) and under a block-processed condition.
			// A single-caller helper is followed up to its call in the loop function.
			inFor, condOK := false, false
			top, topNode := fn, ast.Node(call)
			for hop := 0; ; hop++ {
				for _, enc := range enclosingConds(top, topNode) {
					switch x := enc.(type) {
					case *ast.ForStmt, *ast.RangeStmt:
						inFor = true
					case *ast.IfStmt:
						ast.Inspect(x.Cond, func(m ast.Node) bool {
							switch y := m.(type) {
							case *ast.CallExpr:
								if f, ok := typeutil.Callee(top.Pkg.TypesInfo, y).(*types.Func); ok && f.Name() == "BlockSent" {
									condOK = true
								}
							case *ast.SelectorExpr:
								if pbFields[y.Sel.Name] {
									condOK = true
								}
							}
							return true
						})
					}
				}
				if top == loopFn || hop > 3 || !c.A.inlinable(top) {
					break
				}
				var up *FuncInfo
				var upNode ast.Node
				for _, g := range c.simFuncs() {
					for _, s := range c.A.FnSites[g] {
						if s.Kind == "call" && s.Target == top {
							up, upNode = g, s.Node
						}
					}
				}
				if up == nil {
					break
				}
				top, topNode = up, upNode
			}
			if top != loopFn {
				inFor = true // a multi-caller helper reachable from the loop: judged by its own condition
			}
			// the walker's verdict: at the call, on every path, the library's block-processed flag (what BlockSent
			// returns) is known to be set -- covers early-return guards and helpers
			if !condOK {
				if bs := c.Prog.fn("Context.BlockSent"); bs != nil {
					// the location BlockSent() reports: the positive literal of its 'true' exit
					var t *Term
					for _, e := range c.exitsOf(bs) {
						if len(e.Ret) == 1 && e.Ret[0].S == "true" {
							for _, l := range e.TrailL {
								if l.Pos && l.A.Op == "b" && l.A.A.K == KField {
									t = l.A.A
								}
							}
						}
					}
					if t != nil {
						suffix := "." + strings.TrimPrefix(t.S, "ctx.")
						rec := c.inlineSites(loopFn, false)
						for _, s := range rec.FnSites[fn] {
							if s.Node != ast.Node(call) || len(s.Snaps) == 0 {
								continue
							}
							all := true
							for _, sn := range s.Snaps {
								found := false
								for _, l := range sn.TrailL {
									if l.Pos && l.A.Op == "b" && strings.HasSuffix(l.A.A.S, suffix) {
										found = true
									}
								}
								all = all && found
							}
							condOK = all
						}
					}
				}
			}
			// the re-initialisation must follow every kind of handled event: if it sits inside one select/switch arm,
			// every arm that feeds the library must have it
			partial := ""
			for _, enc := range enclosingClauses(top, topNode) {
				ast.Inspect(top.Decl.Body, func(n ast.Node) bool {
					var body []ast.Stmt
					switch x := n.(type) {
					case *ast.CommClause:
						body = x.Body
					case *ast.CaseClause:
						body = x.Body
					default:
						return true
					}
					if n == enc {
						return true
					}
					feeds, resets := false, false
					for _, st := range body {
						// directly or in a helper of the example called from the arm
						if c.simReaches(top, st, 0, func(f *FuncInfo, ce *ast.CallExpr) bool {
							if fo, ok := typeutil.Callee(f.Pkg.TypesInfo, ce).(*types.Func); ok {
								switch fo.Name() {
								case "OnReceive", "OnTimeout", "OnTransaction", "OnNewTransaction":
									if sig := fo.Type().(*types.Signature); sig.Recv() != nil && namedName(sig.Recv().Type()) == "DBFT" {
										return true
									}
								}
							}
							return false
						}) {
							feeds = true
						}
						if c.simReaches(top, st, 0, func(f *FuncInfo, ce *ast.CallExpr) bool {
							if fo, ok := typeutil.Callee(f.Pkg.TypesInfo, ce).(*types.Func); ok && fo.Name() == "Reset" {
								if sig := fo.Type().(*types.Signature); sig.Recv() != nil && namedName(sig.Recv().Type()) == "DBFT" {
									return true
								}
							}
							return false
						}) {
							resets = true
						}
					}
					if feeds && !resets {
						partial = c.Prog.Pos(n)
					}
					return true
				})
			}
			switch {
			case partial != "":
				r.fail(fn.Name+"/reset-partial", c.Prog.Pos(call), "DBFT.Reset follows only some kinds of events: the event arm at "+partial+" feeds the library but is not followed by the re-initialisation (a block accepted there leaves the node idle forever)")
			case !inFor:
				r.fail(fn.Name+"/reset-outside-loop", c.Prog.Pos(call), "DBFT.Reset is called once, outside the event loop")
			case !condOK:
				r.fail(fn.Name+"/reset-unconditional", c.Prog.Pos(call), "DBFT.Reset is not guarded by a 'block processed' condition (BlockSent() or a field written by the ProcessBlock callback); an unconditional reset restarts the height on every event")
			default:
				good++
				r.ok(fmt.Sprintf("%s@%s: Reset after a processed block, from the event loop", fn.Name, c.Prog.Pos(call)))
			}
		}
	}
	if total == 0 {
		r.Sites++
		r.fail(loopFn.Name+"/no-reset", c.Prog.Pos(loopFn.Decl), "the simulation never calls DBFT.Reset: after its first block every node is quiescent (BlockSent gate) and the chain stops at height 1")
	}
	// an event arm that feeds the library must not leave the iteration (continue / goto / labelled break) before the
	// re-initialisation step that follows the select
	feedNames := map[string]bool{"OnReceive": true, "OnTimeout": true, "OnTransaction": true, "OnNewTransaction": true}
	ast.Inspect(loopFn.Decl.Body, func(n ast.Node) bool {
		var body []ast.Stmt
		switch x := n.(type) {
		case *ast.CommClause:
			body = x.Body
		case *ast.CaseClause:
			body = x.Body
		default:
			return true
		}
		feeds, resets := false, false
		var escape ast.Node
		for _, st := range body {
			depthLoop := 0
			var walk func(m ast.Node) bool
			walk = func(m ast.Node) bool {
				switch y := m.(type) {
				case *ast.ForStmt, *ast.RangeStmt:
					depthLoop++
					ast.Inspect(y.(interface{ Pos() token.Pos }).(ast.Node), func(k ast.Node) bool {
						if k == m {
							return true
						}
						return walk(k)
					})
					depthLoop--
					return false
				case *ast.FuncLit:
					return false
				case *ast.CallExpr:
					if f, ok := typeutil.Callee(loopFn.Pkg.TypesInfo, y).(*types.Func); ok {
						if feedNames[f.Name()] {
							feeds = true
						}
						if f.Name() == "Reset" {
							if sig := f.Type().(*types.Signature); sig.Recv() != nil && namedName(sig.Recv().Type()) == "DBFT" {
								resets = true
							}
						}
					}
				case *ast.BranchStmt:
					if feeds && !resets && (y.Tok == token.GOTO || y.Tok == token.CONTINUE && (depthLoop == 0 || y.Label != nil) || y.Tok == token.BREAK && y.Label != nil) {
						escape = y
					}
				}
				return true
			}
			ast.Inspect(st, walk)
		}
		if escape != nil {
			r.Sites++
			r.fail(loopFn.Name+"/reset-skipped", c.Prog.Pos(escape), "an event arm feeds the library and then leaves the iteration before the re-initialisation step: a block accepted while handling that event leaves the node idle forever")
		}
		return true
	})
	// the event loop handles timer and messages inside the same for loop
	r.Sites++
	feedsDeep := func(name string) bool {
		return c.simReaches(loopFn, loopFn.Decl.Body, 0, func(f *FuncInfo, call *ast.CallExpr) bool {
			for _, x := range dbftMethodCalls(f, name) {
				if x == call {
					return true
				}
			}
			return false
		})
	}
	if feedsDeep("OnReceive") && feedsDeep("OnTimeout") {
		r.ok(loopFn.Name + " feeds OnReceive and OnTimeout")
	} else {
		r.fail(loopFn.Name+"/events", c.Prog.Pos(loopFn.Decl), "the event loop does not feed both OnReceive and OnTimeout")
	}
	return r
}

func ruleClientTip(c *RC) *RuleResult {
	r := &RuleResult{Rule: "P-CLIENT-TIP", Kind: "PROV", Doc: "CurrentHeight/CurrentBlockHash return the fields ProcessBlock assigns from b.Index()/b.Hash(); OnTimeout gets Timer.Height()/View(); Timer.C() is re-read every iteration"}
	pb, _ := c.callbackArg("processBlock")
	ch, _ := c.callbackArg("currentHeight")
	cbh, _ := c.callbackArg("currentBlockHash")
	if pb == nil || ch == nil || cbh == nil {
		r.unresolved("ledger callbacks passed to consensus.New")
		return r
	}
	// field assigned from b.Index() / b.Hash() in ProcessBlock
	src := map[string]string{}
	ast.Inspect(pb.Decl.Body, func(n ast.Node) bool {
		if as, ok := n.(*ast.AssignStmt); ok && len(as.Lhs) == 1 && len(as.Rhs) == 1 {
			if sel, ok := as.Lhs[0].(*ast.SelectorExpr); ok {
				if call, ok := as.Rhs[0].(*ast.CallExpr); ok {
					if m, ok := call.Fun.(*ast.SelectorExpr); ok && len(pb.Params) == 1 {
						if id, ok := m.X.(*ast.Ident); ok && pb.Pkg.TypesInfo.Uses[id] == pb.Params[0] {
							src[sel.Sel.Name] = m.Sel.Name
						}
					}
				}
			}
		}
		return true
	})
	retField := func(fn *FuncInfo) string {
		if len(fn.Decl.Body.List) == 1 {
			if rs, ok := fn.Decl.Body.List[0].(*ast.ReturnStmt); ok && len(rs.Results) == 1 {
				if sel, ok := rs.Results[0].(*ast.SelectorExpr); ok {
					return sel.Sel.Name
				}
			}
		}
		return ""
	}
	for _, g := range []struct {
		fn   *FuncInfo
		want string
	}{{ch, "Index"}, {cbh, "Hash"}} {
		r.Sites++
		f := retField(g.fn)
		if f != "" && src[f] == g.want {
			r.ok(g.fn.Name + " returns " + f + ", which ProcessBlock assigns from b." + g.want + "()")
		} else {
			r.fail(g.fn.Name+"/tip", c.Prog.Pos(g.fn.Decl), g.fn.Name+" does not return the field that ProcessBlock updates from b."+g.want+"()")
		}
	}
	// OnTimeout arguments and Timer.C() inside the loop
	for _, fn := range c.simFuncs() {
		for _, call := range dbftMethodCalls(fn, "OnTimeout") {
			r.Sites++
			okk := len(call.Args) == 2 && strings.HasSuffix(exprText(call.Args[0]), "Timer.Height()") && strings.HasSuffix(exprText(call.Args[1]), "Timer.View()")
			if okk {
				r.ok(fn.Name + ": OnTimeout(Timer.Height(), Timer.View())")
			} else {
				r.fail(fn.Name+"/timeout-args", c.Prog.Pos(call), "OnTimeout is not fed the timer's own height and view")
			}
		}
		if len(dbftMethodCalls(fn, "Start")) > 0 {
			r.Sites++
			inLoop := false
			ast.Inspect(fn.Decl.Body, func(n ast.Node) bool {
				if fs, ok := n.(*ast.ForStmt); ok {
					// in the loop's body or condition, directly or in a helper of the example called from there
					isC := func(_ *FuncInfo, call *ast.CallExpr) bool { return strings.HasSuffix(exprText(call.Fun), "Timer.C") }
					if c.simReaches(fn, fs.Body, 0, isC) || fs.Cond != nil && c.simReaches(fn, fs.Cond, 0, isC) {
						inLoop = true
					}
				}
				return true
			})
			if inLoop {
				r.ok(fn.Name + ": Timer.C() is evaluated inside the loop")
			} else {
				r.fail(fn.Name+"/timer-channel", c.Prog.Pos(fn.Decl), "the timer channel is not re-read in every iteration (Reset replaces the runtime timer and its channel)")
			}
		}
	}
	return r
}

func ruleClientConfig(c *RC) *RuleResult {
	r := &RuleResult{Rule: "A-CLIENT-CONFIG", Kind: "AGREE", Doc: "consensus.New supplies every option checkConfig requires; the payload-verification options share one verifier"}
	newFn := c.Prog.ByName["internal/consensus:New"]
	cc := c.configChecker()
	if newFn == nil || cc == nil {
		r.unresolved("consensus.New / checkConfig")
		return r
	}
	// required: the function-valued options checkConfig insists on (non-nil on every accepting path), minus those
	// defaultConfig already provides
	required := map[string]bool{}
	nonNil, _ := c.configFacts()
	defaults := c.configDefaults()
	for f := range nonNil {
		if !defaults[f] {
			required[f] = true
		}
	}
	supplied := map[string]string{}
	ast.Inspect(newFn.Decl.Body, func(n ast.Node) bool {
		call, ok := n.(*ast.CallExpr)
		if !ok || len(call.Args) != 1 {
			return true
		}
		name := exprText(call.Fun)
		if i := strings.Index(name, "With"); i >= 0 {
			opt := strings.TrimSuffix(name[i+4:], "[]")
			if j := strings.Index(opt, "["); j >= 0 {
				opt = opt[:j]
			}
			supplied[opt] = exprText(call.Args[0])
		}
		return true
	})
	for f := range required {
		r.Sites++
		if _, ok := supplied[f]; ok {
			r.ok("required option " + f + " supplied")
		} else {
			r.fail("consensus.New/missing:"+f, c.Prog.Pos(newFn.Decl), "option "+f+" is required by checkConfig but not supplied by consensus.New")
		}
	}
	r.Sites++
	if supplied["VerifyPrepareRequest"] != "" && supplied["VerifyPrepareRequest"] == supplied["VerifyPrepareResponse"] && supplied["VerifyPrepareRequest"] == supplied["VerifyCommit"] {
		r.ok("payload verification options share " + supplied["VerifyCommit"])
	} else {
		r.fail("consensus.New/verifier", c.Prog.Pos(newFn.Decl), "the three payload-verification options do not receive the same verifier")
	}
	if len(required) < 10 {
		r.unresolved("required options in checkConfig")
	}
	return r
}

// P-REFBLOCK / P-PAYLOAD-VIEW (reference implementation)
func ruleRefBlock(c *RC) *RuleResult {
	r := &RuleResult{Rule: "P-REFBLOCK", Kind: "PROV", Doc: "newBlockFromContext passes Timestamp, BlockIndex, PrevHash, Nonce, TransactionHashes to NewBlock's timestamp, index, prevHash, nonce, txHashes; defaultNewConsensusPayload passes BlockIndex, MyIndex, ViewNumber to height, validatorIndex, viewNumber"}
	check := func(option, callee string, want map[string]string) {
		// the factory is whatever consensus.New installs with the option (a role, not a name)
		fn := c.optionArg(option)
		target := c.Prog.ByName["internal/consensus:"+callee]
		r.Sites++
		if fn == nil || target == nil {
			r.unresolved("function installed by dbft.With" + option + " in consensus.New / " + callee)
			return
		}
		fnName := fn.Name
		found := false
		ast.Inspect(fn.Decl.Body, func(n ast.Node) bool {
			call, ok := n.(*ast.CallExpr)
			if !ok {
				return true
			}
			if f, ok := typeutil.Callee(fn.Pkg.TypesInfo, call).(*types.Func); ok && c.Prog.Funcs[f.Origin()] == target {
				found = true
				for i, p := range target.Params {
					if w, ok := want[p.Name()]; ok && i < len(call.Args) {
						got := exprText(call.Args[i])
						if !strings.HasSuffix(strings.TrimSuffix(got, ")"), "."+w) {
							r.fail(fnName+"/arg:"+p.Name(), c.Prog.Pos(call), fmt.Sprintf("%s receives %s for parameter %s, expected the context's %s", callee, got, p.Name(), w))
							return false
						}
					}
				}
				r.ok(fnName + " → " + callee + ": context fields passed in their roles")
			}
			return true
		})
		if !found {
			r.fail(fnName+"/no-call", c.Prog.Pos(fn.Decl), fnName+" does not call "+callee)
		}
	}
	check("NewBlockFromContext", "NewBlock", map[string]string{"timestamp": "Timestamp", "index": "BlockIndex", "prevHash": "PrevHash", "nonce": "Nonce", "txHashes": "TransactionHashes"})
	check("NewConsensusPayload", "NewConsensusPayload", map[string]string{"height": "BlockIndex", "validatorIndex": "MyIndex", "viewNumber": "ViewNumber"})
	// the block factory declines (returns nil) only when no proposal is recorded, i.e. TransactionHashes is nil; an
	// empty proposal (non-nil, length 0) is a legitimate block and must be built
	if bf := c.optionArg("NewBlockFromContext"); bf != nil {
		r.Sites++
		bad, nils, builds := "", 0, 0
		for _, e := range c.exitsOf(bf) {
			if len(e.Ret) != 1 {
				continue
			}
			if e.Ret[0].K != KNil {
				builds++
				continue
			}
			nils++
			for _, l := range e.TrailL {
				a := l.A
				if a.Op == "nn" && !l.Pos && a.A != nil && strings.HasSuffix(a.A.S, ".TransactionHashes") {
					continue
				}
				bad = l.String()
			}
		}
		switch {
		case builds == 0:
			r.fail(bf.Name+"/never-builds", c.Prog.Pos(bf.Decl), "the block factory never returns a block")
		case bad != "":
			r.fail(bf.Name+"/declines", c.Prog.Pos(bf.Decl), "the block factory returns nil under the condition "+bad+": it may only decline while no proposal is recorded (TransactionHashes == nil); a proposal without transactions could never be committed")
		default:
			r.ok(fmt.Sprintf("%s declines only when no proposal is recorded (%d nil path(s))", bf.Name, nils))
		}
	}
	return r
}

// optionArg: the module function that internal/consensus.New installs through dbft.With<option>(...).
func (c *RC) optionArg(option string) *FuncInfo {
	newFn := c.Prog.ByName["internal/consensus:New"]
	if newFn == nil {
		return nil
	}
	info := newFn.Pkg.TypesInfo
	var res *FuncInfo
	ast.Inspect(newFn.Decl.Body, func(n ast.Node) bool {
		call, ok := n.(*ast.CallExpr)
		if !ok || len(call.Args) != 1 {
			return true
		}
		f, ok := typeutil.Callee(info, call).(*types.Func)
		if !ok || f.Name() != "With"+option || f.Pkg() == nil || f.Pkg().Path() != modPath {
			return true
		}
		switch a := ast.Unparen(call.Args[0]).(type) {
		case *ast.Ident:
			if fo, ok := info.Uses[a].(*types.Func); ok {
				res = c.Prog.Funcs[fo.Origin()]
			}
		case *ast.SelectorExpr:
			if fo, ok := info.Uses[a.Sel].(*types.Func); ok {
				res = c.Prog.Funcs[fo.Origin()]
			}
		}
		return true
	})
	return res
}

// enclosingClauses: select/switch clauses whose body encloses the node.
func enclosingClauses(fn *FuncInfo, target ast.Node) []ast.Node {
	var out []ast.Node
	var stack []ast.Node
	ast.Inspect(fn.Decl.Body, func(n ast.Node) bool {
		if n == nil {
			stack = stack[:len(stack)-1]
			return true
		}
		if n == target {
			for _, anc := range stack {
				switch anc.(type) {
				case *ast.CommClause, *ast.CaseClause:
					out = append(out, anc)
				}
			}
		}
		stack = append(stack, n)
		return true
	})
	return out
}

// simReaches: some call under node (in fn), or in a function of the example package called from there (to depth 3),
// satisfies match.
func (c *RC) simReaches(fn *FuncInfo, node ast.Node, depth int, match func(*FuncInfo, *ast.CallExpr) bool) bool {
	found := false
	ast.Inspect(node, func(n ast.Node) bool {
		if found {
			return false
		}
		if _, ok := n.(*ast.FuncLit); ok {
			return false
		}
		call, ok := n.(*ast.CallExpr)
		if !ok {
			return true
		}
		if match(fn, call) {
			found = true
			return false
		}
		if depth < 3 {
			if fo, _ := typeutil.Callee(fn.Pkg.TypesInfo, call).(*types.Func); fo != nil {
				if t := c.Prog.Funcs[fo.Origin()]; t != nil && t != fn && t.Pkg.PkgPath == simPath && t.Decl != nil && t.Decl.Body != nil {
					if c.simReaches(t, t.Decl.Body, depth+1, match) {
						found = true
						return false
					}
				}
			}
		}
		return true
	})
	return found
}

// A-TIMESTAMP-UNIT (C15, C14, C17): the library aligns proposal timestamps to Config.TimestampIncrement and guarantees
// "previous + increment" at least. The bundled payloads and blocks keep a timestamp in a coarser unit (they divide the
// nanoseconds they are given by a constant). The wiring that puts the two together (consensus.New) must ask for an
// increment that is a multiple of that unit; with a finer one the increment is truncated away again and the proposal, and
// the block built from it, carry the previous block's timestamp whenever the clock is behind.
func ruleTimestampUnit(c *RC) *RuleResult {
	r := &RuleResult{Rule: "A-TIMESTAMP-UNIT", Kind: "AGREE", Doc: "the TimestampIncrement configured by consensus.New (or the default) is a multiple of the unit in which the bundled proposal keeps its timestamp"}
	newFn := c.Prog.ByName["internal/consensus:New"]
	if newFn == nil {
		r.Sites++
		r.unresolved("consensus.New")
		return r
	}
	info := newFn.Pkg.TypesInfo
	// the proposal constructor handed to WithNewPrepareRequest, and the increment handed to WithTimestampIncrement
	var ctor *FuncInfo
	var inc *big.Int
	ast.Inspect(newFn.Decl.Body, func(n ast.Node) bool {
		call, ok := n.(*ast.CallExpr)
		if !ok || len(call.Args) != 1 {
			return true
		}
		name := exprText(call.Fun)
		switch {
		case strings.Contains(name, "WithNewPrepareRequest"):
			if id, ok := ast.Unparen(call.Args[0]).(*ast.Ident); ok {
				if f, ok := info.Uses[id].(*types.Func); ok {
					ctor = c.Prog.Funcs[f.Origin()]
				}
			}
		case strings.Contains(name, "WithTimestampIncrement"):
			if tv, ok := info.Types[call.Args[0]]; ok && tv.Value != nil {
				if v, ok := new(big.Int).SetString(tv.Value.ExactString(), 10); ok {
					inc = v
				}
			}
		}
		return true
	})
	src := "consensus.New"
	if inc == nil {
		// the library's default
		if dc := c.configDefaulter(); dc != nil {
			ast.Inspect(dc.Decl.Body, func(n ast.Node) bool {
				if kv, ok := n.(*ast.KeyValueExpr); ok {
					if id, ok := kv.Key.(*ast.Ident); ok && id.Name == "TimestampIncrement" {
						if tv, ok := dc.Pkg.TypesInfo.Types[kv.Value]; ok && tv.Value != nil {
							if v, ok := new(big.Int).SetString(tv.Value.ExactString(), 10); ok {
								inc = v
								src = "the default of " + dc.Name
							}
						}
					}
				}
				return true
			})
		}
	}
	r.Sites++
	if ctor == nil || ctor.Decl == nil || len(ctor.Params) == 0 || inc == nil {
		r.unresolved("proposal constructor given to WithNewPrepareRequest / configured increment")
		return r
	}
	// the unit: the constant the constructor (or a one-line helper it hands the parameter to) divides its timestamp by
	unit := big.NewInt(1)
	var divisorIn func(fn *FuncInfo, prm *types.Var, depth int)
	divisorIn = func(fn *FuncInfo, prm *types.Var, depth int) {
		finfo := fn.Pkg.TypesInfo
		ast.Inspect(fn.Decl.Body, func(n ast.Node) bool {
			switch x := n.(type) {
			case *ast.BinaryExpr:
				if x.Op == token.QUO {
					if id, ok := ast.Unparen(x.X).(*ast.Ident); ok && finfo.Uses[id] == types.Object(prm) {
						if tv, ok := finfo.Types[x.Y]; ok && tv.Value != nil {
							if v, ok := new(big.Int).SetString(tv.Value.ExactString(), 10); ok && v.Sign() > 0 {
								unit = v
							}
						}
					}
				}
			case *ast.CallExpr:
				if depth < 2 {
					if fo, ok := typeutil.Callee(finfo, x).(*types.Func); ok {
						if callee := c.Prog.Funcs[fo.Origin()]; callee != nil && callee.Decl != nil && callee.Decl.Body != nil {
							for ai, a := range x.Args {
								if id, ok := ast.Unparen(a).(*ast.Ident); ok && finfo.Uses[id] == types.Object(prm) && ai < len(callee.Params) {
									divisorIn(callee, callee.Params[ai], depth+1)
								}
							}
						}
					}
				}
			}
			return true
		})
	}
	// the timestamp parameter: the first parameter of unsigned 64-bit type
	var tsParam *types.Var
	for _, p := range ctor.Params {
		if b, ok := p.Type().Underlying().(*types.Basic); ok && b.Kind() == types.Uint64 && tsParam == nil {
			tsParam = p
		}
	}
	if tsParam == nil {
		r.unresolved("timestamp parameter of " + ctor.Name)
		return r
	}
	divisorIn(ctor, tsParam, 0)
	if new(big.Int).Mod(inc, unit).Sign() == 0 {
		r.ok(fmt.Sprintf("%s keeps its timestamp in units of %s ns; the increment (%s, from %s) is a multiple of it", ctor.Name, unit, inc, src))
	} else {
		r.fail("consensus.New/increment-below-payload-unit", c.Prog.Pos(newFn.Decl), fmt.Sprintf("%s keeps its timestamp in units of %s ns, the configured TimestampIncrement is %s ns (%s): the library's 'previous + increment' is truncated back to the previous block's timestamp, so with a clock that is behind (or stepped back) the broadcast proposal and the block built from it are not newer than the previous block", ctor.Name, unit, inc, src))
	}
	return r
}
