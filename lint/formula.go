package main

// Boolean formulas over atoms; residuals under fact sets.

import (
	"sort"
	"strings"
)

type FKind int

const (
	FTrue FKind = iota
	FFalse
	FLit
	FAnd
	FOr
	FNot
)

type Formula struct {
	K    FKind
	Atom *Atom
	Sub  []*Formula
}

var fTrue = &Formula{K: FTrue}
var fFalse = &Formula{K: FFalse}

func fAtom(a *Atom) *Formula { return &Formula{K: FLit, Atom: a} }
func fNot(f *Formula) *Formula {
	switch f.K {
	case FTrue:
		return fFalse
	case FFalse:
		return fTrue
	case FNot:
		return f.Sub[0]
	}
	return &Formula{K: FNot, Sub: []*Formula{f}}
}
func fAnd(fs ...*Formula) *Formula {
	var out []*Formula
	for _, f := range fs {
		switch f.K {
		case FTrue:
			continue
		case FFalse:
			return fFalse
		case FAnd:
			out = append(out, f.Sub...)
		default:
			out = append(out, f)
		}
	}
	if len(out) == 0 {
		return fTrue
	}
	if len(out) == 1 {
		return out[0]
	}
	return &Formula{K: FAnd, Sub: out}
}
func fOr(fs ...*Formula) *Formula {
	var out []*Formula
	for _, f := range fs {
		switch f.K {
		case FFalse:
			continue
		case FTrue:
			return fTrue
		case FOr:
			out = append(out, f.Sub...)
		default:
			out = append(out, f)
		}
	}
	if len(out) == 0 {
		return fFalse
	}
	if len(out) == 1 {
		return out[0]
	}
	return &Formula{K: FOr, Sub: out}
}
func fImp(a, b *Formula) *Formula { return fOr(fNot(a), b) }

func (f *Formula) String() string {
	switch f.K {
	case FTrue:
		return "true"
	case FFalse:
		return "false"
	case FLit:
		return f.Atom.S
	case FNot:
		return "!(" + f.Sub[0].String() + ")"
	case FAnd, FOr:
		op := " && "
		if f.K == FOr {
			op = " || "
		}
		var ss []string
		for _, s := range f.Sub {
			ss = append(ss, s.String())
		}
		return "(" + strings.Join(ss, op) + ")"
	}
	return "?"
}

func (f *Formula) atoms(m map[string]*Atom) {
	if f.K == FLit {
		m[f.Atom.S] = f.Atom
	}
	for _, s := range f.Sub {
		s.atoms(m)
	}
}

func (f *Formula) atomList() []*Atom {
	m := map[string]*Atom{}
	f.atoms(m)
	ks := make([]string, 0, len(m))
	for k := range m {
		ks = append(ks, k)
	}
	sort.Strings(ks)
	out := make([]*Atom, 0, len(ks))
	for _, k := range ks {
		out = append(out, m[k])
	}
	return out
}

// eval evaluates under a total assignment of its atoms.
func (f *Formula) eval(val map[string]bool) bool {
	switch f.K {
	case FTrue:
		return true
	case FFalse:
		return false
	case FLit:
		return val[f.Atom.S]
	case FNot:
		return !f.Sub[0].eval(val)
	case FAnd:
		for _, s := range f.Sub {
			if !s.eval(val) {
				return false
			}
		}
		return true
	case FOr:
		for _, s := range f.Sub {
			if s.eval(val) {
				return true
			}
		}
		return false
	}
	return false
}

// subst replaces atoms with known values and simplifies.
func (f *Formula) subst(val func(a *Atom) (bool, bool)) *Formula {
	switch f.K {
	case FLit:
		if v, ok := val(f.Atom); ok {
			if v {
				return fTrue
			}
			return fFalse
		}
		return f
	case FNot:
		return fNot(f.Sub[0].subst(val))
	case FAnd:
		var subs []*Formula
		for _, s := range f.Sub {
			subs = append(subs, s.subst(val))
		}
		return fAnd(subs...)
	case FOr:
		var subs []*Formula
		for _, s := range f.Sub {
			subs = append(subs, s.subst(val))
		}
		return fOr(subs...)
	}
	return f
}

// mapAtoms rewrites every atom; fn may return nil to mean "unknown in target" (kept as-is marker).
func (f *Formula) mapAtoms(fn func(a *Atom) *Formula) *Formula {
	switch f.K {
	case FLit:
		return fn(f.Atom)
	case FNot:
		return fNot(f.Sub[0].mapAtoms(fn))
	case FAnd:
		var subs []*Formula
		for _, s := range f.Sub {
			subs = append(subs, s.mapAtoms(fn))
		}
		return fAnd(subs...)
	case FOr:
		var subs []*Formula
		for _, s := range f.Sub {
			subs = append(subs, s.mapAtoms(fn))
		}
		return fOr(subs...)
	}
	return f
}

// mapAtomsPol is mapAtoms with the polarity of the occurrence (true: the atom occurs under an even number of negations).
func (f *Formula) mapAtomsPol(pos bool, fn func(a *Atom, pos bool) *Formula) *Formula {
	switch f.K {
	case FLit:
		return fn(f.Atom, pos)
	case FNot:
		return fNot(f.Sub[0].mapAtomsPol(!pos, fn))
	case FAnd:
		var subs []*Formula
		for _, s := range f.Sub {
			subs = append(subs, s.mapAtomsPol(pos, fn))
		}
		return fAnd(subs...)
	case FOr:
		var subs []*Formula
		for _, s := range f.Sub {
			subs = append(subs, s.mapAtomsPol(pos, fn))
		}
		return fOr(subs...)
	}
	return f
}

// dnf expands a formula into a list of literal conjunctions (for branch splitting).
// The result is a disjunction of conjunctions; `neg` asks for the DNF of the negation.
func dnf(f *Formula, neg bool) [][]Lit {
	switch f.K {
	case FTrue:
		if neg {
			return nil
		}
		return [][]Lit{{}}
	case FFalse:
		if neg {
			return [][]Lit{{}}
		}
		return nil
	case FLit:
		return [][]Lit{{Lit{f.Atom, !neg}}}
	case FNot:
		return dnf(f.Sub[0], !neg)
	case FAnd, FOr:
		isAnd := (f.K == FAnd) != neg
		if isAnd {
			res := [][]Lit{{}}
			for _, s := range f.Sub {
				sd := dnf(s, neg)
				var nr [][]Lit
				for _, r := range res {
					for _, c := range sd {
						nc := append(append([]Lit{}, r...), c...)
						nr = append(nr, nc)
					}
				}
				res = nr
			}
			return res
		}
		// disjunction made disjoint (short-circuit order): s1 | (!s1 & s2) | ...
		var res [][]Lit
		prefix := [][]Lit{{}}
		for _, s := range f.Sub {
			sd := dnf(s, neg)
			for _, p := range prefix {
				for _, c := range sd {
					res = append(res, append(append([]Lit{}, p...), c...))
				}
			}
			nd := dnf(s, !neg)
			var np [][]Lit
			for _, p := range prefix {
				for _, c := range nd {
					np = append(np, append(append([]Lit{}, p...), c...))
				}
			}
			prefix = np
			if len(prefix) == 0 {
				break
			}
		}
		return res
	}
	return nil
}

// Demand modes of an atom that is unknown on a path.
const (
	ModeNone           = iota // cannot be related to the entry state: universally quantified
	ModeEqual                 // same value as at function entry
	ModeImpliesEntry          // current ⇒ entry (only nil-stores happened): "== nil" is inherited
	ModeImpliedByEntry        // entry ⇒ current (only non-nil stores happened): "!= nil" is inherited
)

// residual computes a formula R over entry-state atoms such that R ∧ facts ⇒ g.
// Atoms that are neither known nor related to the entry state are quantified
// universally. Returns fFalse with a counterexample when no entry condition suffices.
func residual(g *Formula, facts *Facts, mode func(a *Atom) int) (res *Formula, cex map[string]bool) {
	r0, cex := residual0(g, facts, mode)
	if r0.K == FTrue || r0.K == FFalse {
		return r0, cex
	}
	// the path was taken under conditions on the entry state: R = premise ⇒ R0, where the premise
	// keeps the path literals that a caller can contradict (stable atoms, parameter atoms, and atoms
	// over the locations R0 talks about)
	locs := map[string]bool{}
	for _, a := range r0.atomList() {
		for _, l := range a.Reads {
			locs[l] = true
		}
	}
	var prem []*Formula
	var keys []string
	for k := range facts.m {
		keys = append(keys, k)
	}
	sort.Strings(keys)
	for _, k := range keys {
		at := facts.atoms[k]
		if mode(at) != ModeEqual {
			continue
		}
		rel := hasParamTerm(at.A) || hasParamTerm(at.B) || at.S == "ctx.MyIndex<0" || at.S == "cfg.WatchOnly()"
		if !rel {
			for _, l := range at.Reads {
				if locs[l] {
					rel = true
				}
			}
		}
		if !rel {
			continue
		}
		if facts.m[k] {
			prem = append(prem, fAtom(at))
		} else {
			prem = append(prem, fNot(fAtom(at)))
		}
	}
	if len(prem) == 0 {
		return r0, cex
	}
	if len(prem) > 8 {
		prem = prem[:8]
	}
	return fOr(fNot(fAnd(prem...)), r0), cex
}

func residual0(g *Formula, facts *Facts, mode func(a *Atom) int) (res *Formula, cex map[string]bool) {
	g = g.subst(facts.value)
	if g.K == FTrue {
		return fTrue, nil
	}
	atoms := g.atomList()
	type ent struct {
		a    *Atom
		mode int
	}
	var dem []ent   // enumerated as entry atoms
	var unk []*Atom // enumerated as current atoms
	link := map[string]int{}
	for _, a := range atoms {
		m := mode(a)
		switch m {
		case ModeEqual:
			dem = append(dem, ent{a, m})
		case ModeImpliesEntry, ModeImpliedByEntry:
			dem = append(dem, ent{a, m})
			unk = append(unk, a)
			link[a.S] = m
		default:
			unk = append(unk, a)
		}
	}
	if len(dem)+len(unk) > 22 {
		return fFalse, map[string]bool{"<support too large>": true}
	}
	var okAssign []map[string]bool
	var firstCex map[string]bool
	nd, nu := len(dem), len(unk)
	total := 0
	for dm := 0; dm < 1<<nd; dm++ {
		fd := facts.clone()
		entry := map[string]bool{}
		cons := true
		for i, e := range dem {
			v := dm&(1<<i) != 0
			entry[e.a.S] = v
			if e.mode == ModeEqual {
				if !fd.add(Lit{e.a, v}) {
					cons = false
					break
				}
			}
		}
		if !cons {
			continue
		}
		// the entry assignment must admit at least one consistent current assignment
		feasible := false
		good := true
		for um := 0; um < 1<<nu; um++ {
			fu := fd.clone()
			val := map[string]bool{}
			for k, v := range entry {
				if _, linked := link[k]; !linked {
					val[k] = v
				}
			}
			c2 := true
			for i, a := range unk {
				v := um&(1<<i) != 0
				if m, ok := link[a.S]; ok {
					e0 := entry[a.S]
					if m == ModeImpliesEntry && v && !e0 {
						c2 = false
						break
					}
					if m == ModeImpliedByEntry && e0 && !v {
						c2 = false
						break
					}
				}
				val[a.S] = v
				if !fu.add(Lit{a, v}) {
					c2 = false
					break
				}
			}
			if !c2 {
				continue
			}
			feasible = true
			if !g.eval(val) {
				good = false
				if firstCex == nil {
					firstCex = map[string]bool{}
					for k, v := range val {
						firstCex[k] = v
					}
					for k, v := range entry {
						if _, linked := link[k]; linked {
							firstCex["@entry:"+k] = v
						}
					}
				}
				break
			}
		}
		if !feasible {
			continue
		}
		total++
		if good {
			okAssign = append(okAssign, entry)
		}
	}
	if len(okAssign) == 0 {
		if total == 0 {
			return fTrue, nil // path infeasible under its own facts
		}
		return fFalse, firstCex
	}
	if len(okAssign) == total {
		return fTrue, nil
	}
	var demAtoms []*Atom
	for _, e := range dem {
		demAtoms = append(demAtoms, e.a)
	}
	var ors []*Formula
	for _, as := range okAssign {
		var ands []*Formula
		for _, a := range demAtoms {
			if as[a.S] {
				ands = append(ands, fAtom(a))
			} else {
				ands = append(ands, fNot(fAtom(a)))
			}
		}
		ors = append(ors, fAnd(ands...))
	}
	return simplifyDNF(demAtoms, okAssign, ors), firstCex
}

// simplifyDNF drops atoms on which the set of satisfying assignments does not depend.
func simplifyDNF(dem []*Atom, okAssign []map[string]bool, ors []*Formula) *Formula {
	key := func(m map[string]bool) string {
		var ss []string
		for _, a := range dem {
			if m[a.S] {
				ss = append(ss, a.S)
			} else {
				ss = append(ss, "!"+a.S)
			}
		}
		return strings.Join(ss, "&")
	}
	full := map[string]bool{}
	for _, m := range okAssign {
		full[key(m)] = true
	}
	var rel []*Atom
	for _, a := range dem {
		irrelevant := true
		for _, m := range okAssign {
			flipped := map[string]bool{}
			for k, v := range m {
				flipped[k] = v
			}
			flipped[a.S] = !m[a.S]
			if !full[key(flipped)] {
				irrelevant = false
				break
			}
		}
		if !irrelevant {
			rel = append(rel, a)
		}
	}
	if len(rel) == len(dem) {
		return fOr(ors...)
	}
	seen := map[string]bool{}
	var out []*Formula
	for _, m := range okAssign {
		var ands []*Formula
		var ks []string
		for _, a := range rel {
			if m[a.S] {
				ands = append(ands, fAtom(a))
				ks = append(ks, a.S)
			} else {
				ands = append(ands, fNot(fAtom(a)))
				ks = append(ks, "!"+a.S)
			}
		}
		k := strings.Join(ks, "&")
		if seen[k] {
			continue
		}
		seen[k] = true
		out = append(out, fAnd(ands...))
	}
	return fOr(out...)
}
