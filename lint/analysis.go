package main

// Analysis driver: purity / read sets, polyvariant summaries (fixpoint), site table.

import (
	"fmt"
	"go/ast"
	"go/token"
	"go/types"
	"sort"
	"strings"

	"golang.org/x/tools/go/types/typeutil"
)

type Undecided struct {
	Where string
	Msg   string
}

type Analysis struct {
	// escapes: module functions referenced as values (method values, function arguments): they have callers the
	// syntactic call count does not see
	escapes map[*FuncInfo]bool
	nescapes map[*FuncInfo]int // number of mentions outside call position
	// oneIter: loops are walked once for one arbitrary element (rule DEF-COUNTS only)
	oneIter  bool
	oneIterN int
	roleTest map[*FuncInfo]bool
	hoCache map[*FuncInfo]bool
	Prog    *Program
	Sites   map[string]*Site // key: fn|pos|kind|callee|loc
	// per function ordered site list
	FnSites map[*FuncInfo][]*Site

	pure    map[*FuncInfo]bool
	pureSet bool
	reads   map[*FuncInfo][]string
	ptests  map[*FuncInfo][]*Atom

	sums      map[string]*Summary
	sumFn     map[string]*FuncInfo
	sumCtx    map[string][]Lit
	sumDirty  bool
	Undec     []Undecided
	undecSeen map[string]bool

	// roles
	epochWriter   *FuncInfo
	epochViewParm *types.Var

	callers map[*FuncInfo][]*Site
	walked  bool
	// ncalls: syntactic call sites per function (for inlining decisions)
	ncalls map[*FuncInfo]int
	// noPureInline: pure functions whose inlining gives nothing (no counting terms)
	noPureInline map[*FuncInfo]bool
	// pseudo-variables for fields of local struct values (walk.go localFieldVar)
	fieldVars     map[[2]*types.Var]*types.Var
	fieldVarsOf   map[*types.Var][]*types.Var
	fieldVarField map[*types.Var]*types.Var
	// constant dispatch tables (devirt.go)
	tables   map[string]*dispatchTable
	entryOf  map[string]*tblEntry
	fnExprOf map[string]ast.Expr
}

// inlinable: a private, non-recursive helper with exactly one call site and a moderate body.
// inlinableValue: a private function that is never called by name and is mentioned as a value exactly once (an entry of
// a dispatch table, a callback handed to one helper): the call through that value is its one call site.
func (a *Analysis) inlinableValue(fn *FuncInfo) bool {
	a.computePurity()
	if a.ncalls[fn] != 0 || a.nescapes[fn] != 1 || ast.IsExported(fn.Decl.Name.Name) {
		return false
	}
	return stmtCount(fn.Decl.Body) <= 80
}

// inlinableShared: a small private helper with two or three call sites (the tail of a handler extracted so that a second
// caller can use it). A summary merges its exits by result, so for a helper without results it cannot say on which exits
// the helper answered and on which it gave up; the exit-based rules walk it at each call site instead.
func (a *Analysis) inlinableShared(fn *FuncInfo) bool {
	a.computePurity()
	if fn.Pkg.PkgPath != modPath || fn.Decl == nil || fn.Decl.Body == nil || ast.IsExported(fn.Decl.Name.Name) {
		return false
	}
	if sig, ok := fn.Obj.Type().(*types.Signature); !ok || sig.Results().Len() != 0 {
		return false
	}
	if a.ncalls[fn] < 2 || a.ncalls[fn] > 3 || a.escapes[fn] || a.pure[fn] {
		return false
	}
	// (not the functions that start an epoch: the rules read "an epoch was entered here" off their call events)
	if fn == a.epochWriter {
		return false
	}
	for _, s := range a.FnSites[fn] {
		if s.Kind == "call" && s.Target != nil && s.Target == a.epochWriter {
			return false
		}
	}
	// (a cycle through it — the answer may end in a ChangeView, whose sender re-requests transactions — is cut by the
	// walker's inlining depth, below which the summary is used)
	return stmtCount(fn.Decl.Body) <= 25
}

func (a *Analysis) inlinable(fn *FuncInfo) bool {
	a.computePurity()
	if a.ncalls[fn] != 1 || ast.IsExported(fn.Decl.Name.Name) || a.escapes[fn] {
		return false
	}
	return stmtCount(fn.Decl.Body) <= 80
}

func newAnalysis(p *Program) *Analysis {
	return &Analysis{Prog: p, Sites: map[string]*Site{}, FnSites: map[*FuncInfo][]*Site{},
		sums: map[string]*Summary{}, sumFn: map[string]*FuncInfo{}, sumCtx: map[string][]Lit{},
		undecSeen: map[string]bool{}, callers: map[*FuncInfo][]*Site{}, fnExprOf: map[string]ast.Expr{}}
}

func (a *Analysis) undecided(fn *FuncInfo, n ast.Node, msg string) {
	w := a.Prog.Pos(n)
	k := w + msg
	if a.undecSeen[k] {
		return
	}
	a.undecSeen[k] = true
	a.Undec = append(a.Undec, Undecided{Where: fn.Name + " " + w, Msg: msg})
}

func (a *Analysis) siteFor(fn *FuncInfo, n ast.Node, kind, callee, loc string) *Site {
	k := fmt.Sprintf("%s|%d|%s|%s|%s", fn.Name, n.Pos(), kind, callee, loc)
	if s, ok := a.Sites[k]; ok {
		return s
	}
	s := &Site{Fn: fn, Node: n, Kind: kind, Callee: callee, Loc: loc, seen: map[string]bool{}}
	if c, ok := n.(*ast.CallExpr); ok {
		s.Call = c
	}
	a.Sites[k] = s
	a.FnSites[fn] = append(a.FnSites[fn], s)
	return s
}

func (a *Analysis) snap(site *Site, st *State, recv *Term, args []*Term, val, idx *Term) {
	var ks []string
	for l, m := range st.Killed {
		ks = append(ks, fmt.Sprintf("%s:%d", l, m))
	}
	sort.Strings(ks)
	var as []string
	for _, t := range args {
		as = append(as, t.S)
	}
	key := st.F.key() + "|" + strings.Join(ks, ",") + "|" + strings.Join(as, ",")
	if idx != nil {
		key += "|i:" + idx.S
	}
	if val != nil {
		key += "|v:" + val.S
	}
	if site.seen[key] {
		return
	}
	site.seen[key] = true
	sn := &Snap{Sticky: st.Sticky, TrailL: append([]Lit{}, st.TrailL...), F: st.F.clone(), Killed: map[string]int{}, Events: map[string]bool{}, Recv: recv, Args: args, Val: val, Idx: idx, Trail: strings.Join(st.Trail, " ; ")}
	for k, v := range st.Killed {
		sn.Killed[k] = v
	}
	for k, v := range st.Events {
		sn.Events[k] = v
	}
	site.Snaps = append(site.Snaps, sn)
}

// stableLoc: writes of per-height-stable locations inside the epoch writer on a
// view change (view != 0) re-derive the same value (A1) and are not kills.
func (a *Analysis) stableLoc(w *Walker, loc string, st *State) bool {
	return false
}

// isStableLoc: per-height stable locations (A1): re-derived from the unchanged validator list on a view change.
func isStableLoc(loc string) bool {
	return loc == "ctx.MyIndex" || loc == "ctx.Priv" || loc == "ctx.Pub"
}

// ---- purity and read sets (syntactic, transitive) ----

func (a *Analysis) computePurity() {
	if a.pureSet {
		return
	}
	a.pureSet = true
	a.pure = map[*FuncInfo]bool{}
	a.reads = map[*FuncInfo][]string{}
	direct := map[*FuncInfo]bool{} // directly impure
	callees := map[*FuncInfo][]*FuncInfo{}
	dreads := map[*FuncInfo]map[string]bool{}
	for _, fn := range a.Prog.Funcs {
		info := fn.Pkg.TypesInfo
		dreads[fn] = map[string]bool{}
		impure := false
		ast.Inspect(fn.Decl.Body, func(n ast.Node) bool {
			switch x := n.(type) {
			case *ast.AssignStmt:
				for _, l := range x.Lhs {
					if !isLocalLvalue(info, l) {
						impure = true
					}
				}
			case *ast.IncDecStmt:
				if !isLocalLvalue(info, x.X) {
					impure = true
				}
			case *ast.SendStmt, *ast.GoStmt, *ast.DeferStmt:
				impure = true
			case *ast.UnaryExpr:
				if x.Op == token.ARROW {
					impure = true
				}
			case *ast.SelectorExpr:
				if s := info.Selections[x]; s != nil && s.Kind() == types.FieldVal {
					fv := s.Obj().(*types.Var).Origin()
					fname := a.Prog.fieldRole(fv, x.Sel.Name)
					switch a.Prog.FieldOwner[fv] {
					case "Context":
						if fname != "Config" {
							dreads[fn]["ctx."+fname] = true
						}
					case "Config":
						dreads[fn]["cfg."+fname] = true
					case "DBFT":
						if fname != "Context" && fname != "Config" {
							dreads[fn]["dbft."+fname] = true
						}
					}
				}
			case *ast.CallExpr:
				fun := ast.Unparen(x.Fun)
				if tv, ok := info.Types[fun]; ok && tv.IsType() {
					return true
				}
				if id, ok := fun.(*ast.Ident); ok {
					if _, ok := info.Uses[id].(*types.Builtin); ok {
						switch id.Name {
						case "clear", "delete", "copy", "panic":
							impure = true
						}
						return true
					}
				}
				obj := typeutil.Callee(info, x)
				if f, ok := obj.(*types.Func); ok {
					if fi := a.Prog.Funcs[f.Origin()]; fi != nil {
						callees[fn] = append(callees[fn], fi)
						if a.ncalls == nil {
							a.ncalls = map[*FuncInfo]int{}
						}
						a.ncalls[fi]++
						return true
					}
					id := a.extID(f)
					if !pureExt(id) {
						impure = true
					}
					return true
				}
				// call through field / func value
				if sel, ok := fun.(*ast.SelectorExpr); ok {
					if s := info.Selections[sel]; s != nil && s.Kind() == types.FieldVal {
						if sel.Sel.Name == "WatchOnly" {
							return true
						}
					}
				}
				// an immediately invoked literal, or a local that only ever holds function literals (whose bodies are
				// part of this function's body and judged with it) or module functions / method values (callees)
				if _, ok := fun.(*ast.FuncLit); ok {
					return true
				}
				if id, ok := fun.(*ast.Ident); ok {
					if v, ok := info.Uses[id].(*types.Var); ok && !v.IsField() {
						if fs, ok := localFuncTargets(a, fn, v); ok {
							callees[fn] = append(callees[fn], fs...)
							return true
						}
					}
				}
				impure = true
			}
			return true
		})
		direct[fn] = impure
		// references outside call position
		if a.escapes == nil {
			a.escapes = map[*FuncInfo]bool{}
		}
		inCall := map[*ast.Ident]bool{}
		ast.Inspect(fn.Decl.Body, func(n ast.Node) bool {
			if call, ok := n.(*ast.CallExpr); ok {
				switch f := ast.Unparen(call.Fun).(type) {
				case *ast.Ident:
					inCall[f] = true
				case *ast.SelectorExpr:
					inCall[f.Sel] = true
				case *ast.IndexExpr:
					if id, ok := ast.Unparen(f.X).(*ast.Ident); ok {
						inCall[id] = true
					}
				case *ast.IndexListExpr:
					if id, ok := ast.Unparen(f.X).(*ast.Ident); ok {
						inCall[id] = true
					}
				}
			}
			if id, ok := n.(*ast.Ident); ok && !inCall[id] {
				if f, ok := info.Uses[id].(*types.Func); ok {
					if fi := a.Prog.Funcs[f.Origin()]; fi != nil {
						a.escapes[fi] = true
						if a.nescapes == nil {
							a.nescapes = map[*FuncInfo]int{}
						}
						a.nescapes[fi]++
					}
				}
			}
			return true
		})
	}
	// fixpoint
	for _, fn := range a.Prog.Funcs {
		a.pure[fn] = !direct[fn]
	}
	for changed := true; changed; {
		changed = false
		for _, fn := range a.Prog.Funcs {
			if !a.pure[fn] {
				continue
			}
			for _, c := range callees[fn] {
				if !a.pure[c] {
					a.pure[fn] = false
					changed = true
					break
				}
			}
		}
	}
	for changed := true; changed; {
		changed = false
		for _, fn := range a.Prog.Funcs {
			for _, c := range callees[fn] {
				for r := range dreads[c] {
					if !dreads[fn][r] {
						dreads[fn][r] = true
						changed = true
					}
				}
			}
		}
	}
	for fn, m := range dreads {
		var rs []string
		for r := range m {
			rs = append(rs, r)
		}
		sort.Strings(rs)
		a.reads[fn] = rs
	}
}

func isLocalLvalue(info *types.Info, e ast.Expr) bool {
	e = ast.Unparen(e)
	switch x := e.(type) {
	case *ast.Ident:
		if x.Name == "_" {
			return true
		}
		obj := info.Uses[x]
		if obj == nil {
			obj = info.Defs[x]
		}
		if v, ok := obj.(*types.Var); ok {
			return v.Pkg() == nil || v.Parent() != v.Pkg().Scope()
		}
		return true
	case *ast.IndexExpr:
		// element of a local slice/map created in this function: approximated by root being a local
		// whose value does not come from state; conservatively treat as impure unless root is a local ident
		// holding a fresh make()/literal. We keep it simple: local root ⇒ local.
		return isLocalRoot(info, x.X)
	case *ast.SelectorExpr:
		// a field of a local variable of struct type (a value, not a pointer): the write stays in the function
		if id, ok := ast.Unparen(x.X).(*ast.Ident); ok {
			if v, ok := info.Uses[id].(*types.Var); ok && !v.IsField() && v.Pkg() != nil && v.Parent() != v.Pkg().Scope() {
				if _, isStruct := v.Type().Underlying().(*types.Struct); isStruct {
					if s := info.Selections[x]; s != nil && s.Kind() == types.FieldVal && !s.Indirect() {
						return true
					}
				}
			}
		}
		return false
	}
	return false
}

func isLocalRoot(info *types.Info, e ast.Expr) bool {
	e = ast.Unparen(e)
	if id, ok := e.(*ast.Ident); ok {
		if v, ok := info.Uses[id].(*types.Var); ok {
			sig := false
			_ = sig
			// parameters and receivers are not local roots
			return !v.IsField() && v.Parent() != nil && v.Pkg() != nil && v.Parent() != v.Pkg().Scope() && !isParamLike(v)
		}
	}
	return false
}

func isParamLike(v *types.Var) bool {
	// a variable is a parameter if its scope is a function scope and it is declared at the func position;
	// go/types does not expose this directly: approximate by checking pointer/slice/map/interface type
	// of variables that are not assigned in the function (handled by callers). Conservative: false.
	return false
}

// rootIfaces: interface types declared in the library's root package (filled by the loader).
var rootIfaces = map[string]bool{}

func pureExt(id string) bool {
	if strings.HasPrefix(id, "if:") {
		name := id[strings.LastIndex(id, ".")+1:]
		tn := id[3:strings.LastIndex(id, ".")]
		switch tn {
		case "Timer":
			return name == "Height" || name == "View"
		case "Block", "PreBlock":
			switch name {
			case "Sign", "SetData", "SetTransactions", "Verify":
				return false
			}
			return true
		case "RecoveryMessage":
			return name != "AddPayload"
		case "ConsensusPayload":
			return name != "SetValidatorIndex"
		}
		// getters of the library's own interfaces (callback contract A2); methods of interfaces declared elsewhere in
		// the module (e.g. a Serializable in the reference implementations) may mutate their receiver
		return rootIfaces[tn]
	}
	if strings.HasPrefix(id, "ext:go.uber.org/zap") || strings.HasPrefix(id, "ext:fmt.") || strings.HasPrefix(id, "ext:errors.") {
		return true
	}
	switch id {
	case "ext:slices.Index", "ext:slices.Contains", "ext:time.Duration.String", "ext:time.Time.Sub", "ext:time.Time.IsZero", "ext:time.Time.UnixNano",
		"ext:encoding/binary.littleEndian.Uint64", "ext:bytes.Equal":
		return true
	}
	return false
}

func (a *Analysis) isPure(fn *FuncInfo) bool {
	a.computePurity()
	return a.pure[fn]
}

func (a *Analysis) readsOf(fn *FuncInfo) []string {
	a.computePurity()
	return a.reads[fn]
}

func (a *Analysis) isPurePredicate(fn *FuncInfo) bool {
	if !a.isPure(fn) {
		return false
	}
	sig := fn.Obj.Type().(*types.Signature)
	if sig.Results().Len() != 1 {
		return false
	}
	b, ok := sig.Results().At(0).Type().Underlying().(*types.Basic)
	if !ok || b.Info()&types.IsBoolean == 0 {
		return false
	}
	hasLoop := false
	ast.Inspect(fn.Decl.Body, func(n ast.Node) bool {
		switch n.(type) {
		case *ast.ForStmt, *ast.RangeStmt:
			hasLoop = true
		}
		return true
	})
	return !hasLoop
}

// ---- param tests & call contexts ----

func (a *Analysis) paramTests(fn *FuncInfo) []*Atom {
	if a.ptests == nil {
		a.ptests = map[*FuncInfo][]*Atom{}
	}
	if t, ok := a.ptests[fn]; ok {
		return t
	}
	info := fn.Pkg.TypesInfo
	pset := map[*types.Var]bool{}
	for _, p := range fn.Params {
		pset[p] = true
	}
	seen := map[string]bool{}
	var out []*Atom
	addA := func(at *Atom) {
		if !seen[at.S] {
			seen[at.S] = true
			out = append(out, at)
		}
	}
	pterm := func(e ast.Expr) *Term {
		if id, ok := ast.Unparen(e).(*ast.Ident); ok {
			if v, ok := info.Uses[id].(*types.Var); ok && pset[v] {
				t := mkTerm(KParam, v.Name())
				t.Unsigned = isUnsigned(v.Type())
				return t
			}
		}
		return nil
	}
	cterm := func(e ast.Expr) *Term {
		if tv, ok := info.Types[e]; ok && tv.Value != nil {
			if id, ok := ast.Unparen(e).(*ast.Ident); ok {
				if c, ok := info.Uses[id].(*types.Const); ok {
					return constObjTerm(c)
				}
			}
			if sel, ok := ast.Unparen(e).(*ast.SelectorExpr); ok {
				if c, ok := info.Uses[sel.Sel].(*types.Const); ok {
					return constObjTerm(c)
				}
			}
			return constOf(tv.Value, tv.Type)
		}
		return nil
	}
	ast.Inspect(fn.Decl.Body, func(n ast.Node) bool {
		switch x := n.(type) {
		case *ast.BinaryExpr:
			switch x.Op {
			case token.EQL, token.NEQ, token.LSS, token.GTR, token.LEQ, token.GEQ:
				var p, c *Term
				var l, r *Term
				if p = pterm(x.X); p != nil {
					c = cterm(x.Y)
					l, r = p, c
				} else if p = pterm(x.Y); p != nil {
					c = cterm(x.X)
					l, r = c, p
				}
				if p != nil && c != nil {
					if lit, ok := cmpLit(x.Op, l, r, false); ok {
						addA(lit.A)
					}
				}
			}
		case *ast.Ident:
			if v, ok := info.Uses[x].(*types.Var); ok && pset[v] {
				if b, ok := v.Type().Underlying().(*types.Basic); ok && b.Info()&types.IsBoolean != 0 {
					addA(mkAtom("b", mkTerm(KParam, v.Name()), nil))
				}
			}
		}
		return true
	})
	a.ptests[fn] = out
	return out
}

// callCtx derives the literals known about the callee's parameters at a call.
func (a *Analysis) callCtx(fn *FuncInfo, args []*Term, st *State) []Lit {
	tests := a.paramTests(fn)
	var out []Lit
	if fn.Pkg.PkgPath == modPath && (fn.Recv == "DBFT" || fn.Recv == "Context") {
		for _, at := range stableAtoms() {
			if v, ok := st.F.known(at); ok {
				out = append(out, Lit{at, v})
			}
		}
		// a callee that asks "am I the primary?" itself gets the caller's answer
		if a.testsRole(fn) {
			at := mkAtom("eq", tMyIndex, tPrimaryIndex)
			if v, ok := st.F.known(at); ok {
				out = append(out, Lit{at, v})
			}
		}
	}
	if len(tests) == 0 {
		return out
	}
	pidx := map[string]int{}
	for i, p := range fn.Params {
		pidx["p:"+p.Name()] = i
	}
	for _, at := range tests {
		sub := func(t *Term) *Term {
			if t == nil {
				return nil
			}
			if t.K == KParam {
				if i, ok := pidx[t.S]; ok && i < len(args) {
					return args[i]
				}
			}
			return t
		}
		_ = out
		var inst *Atom
		if at.B != nil {
			inst = mkAtom(at.Op, sub(at.A), sub(at.B))
		} else {
			inst = mkAtom(at.Op, sub(at.A), nil)
		}
		if v, ok := st.F.value(inst); ok {
			out = append(out, Lit{at, v})
		}
	}
	return out
}

// stable atoms (per height, A1) that callees commonly branch on at entry
func stableAtoms() []*Atom {
	mi := mkTerm(KField, "ctx.MyIndex")
	return []*Atom{mkAtom("lt", mi, constTerm("0")), mkAtom("b", mkTerm(KCall, "cfg.WatchOnly"), nil)}
}

// ---- summaries ----

type killEnt struct {
	loc  string
	kind int
}

type ExitClass struct {
	Ret      string
	RetField string
	Kills    map[string]int
	Events   map[string]bool
	Post     []Lit
	post     map[string]Lit
	n        int
}

func (c *ExitClass) killList() []killEnt {
	var ks []killEnt
	for l, k := range c.Kills {
		ks = append(ks, killEnt{l, k})
	}
	sort.Slice(ks, func(i, j int) bool { return ks[i].loc < ks[j].loc })
	return ks
}

type Summary struct {
	Classes []*ExitClass
}

func (s *Summary) key() string {
	var parts []string
	for _, c := range s.Classes {
		var ks []string
		for _, k := range c.killList() {
			ks = append(ks, fmt.Sprintf("%s:%d", k.loc, k.kind))
		}
		var es []string
		for e := range c.Events {
			es = append(es, e)
		}
		sort.Strings(es)
		var ps []string
		for _, l := range c.Post {
			ps = append(ps, l.String())
		}
		parts = append(parts, c.Ret+"{"+strings.Join(ks, ",")+"}{"+strings.Join(es, ",")+"}{"+strings.Join(ps, ",")+"}")
	}
	return strings.Join(parts, ";")
}

func ctxKey(fn *FuncInfo, ctx []Lit) string {
	var ss []string
	for _, l := range ctx {
		ss = append(ss, l.String())
	}
	sort.Strings(ss)
	return fn.Pkg.PkgPath + "." + fn.Name + "|" + strings.Join(ss, "&")
}

// retMode: "bool" for a boolean first result, "valerr" for (value, error) pairs, "" otherwise.
func retMode(fn *FuncInfo) string {
	if boolResult(fn) {
		return "bool"
	}
	sig := fn.Obj.Type().(*types.Signature)
	if sig.Results().Len() == 2 && sig.Results().At(1).Type().String() == "error" {
		return "valerr"
	}
	// (value, ok bool): classified by the constant second result
	if sig.Results().Len() == 2 {
		if b, ok := sig.Results().At(1).Type().Underlying().(*types.Basic); ok && b.Kind() == types.Bool {
			return "valok"
		}
	}
	if sig.Results().Len() == 1 {
		switch sig.Results().At(0).Type().Underlying().(type) {
		case *types.Interface, *types.Pointer:
			return "ptr"
		}
	}
	return ""
}

func classifyRet(mode string, e *State) string {
	cls := func(t *Term) string {
		if t == nil {
			return "?"
		}
		if t.K == KNil {
			return "nil"
		}
		if t.NonNil {
			return "nn"
		}
		if v, ok := e.F.value(mkAtom("nn", t, nil)); ok {
			if v {
				return "nn"
			}
			return "nil"
		}
		return "?"
	}
	switch mode {
	case "bool":
		if len(e.Ret) > 0 && e.Ret[0] != nil && e.Ret[0].K == KConst && (e.Ret[0].S == "true" || e.Ret[0].S == "false") {
			return e.Ret[0].S
		}
		return "?"
	case "ptr":
		if len(e.Ret) == 1 {
			return cls(e.Ret[0])
		}
		return "?"
	case "valok":
		if len(e.Ret) == 2 && e.Ret[1] != nil && e.Ret[1].K == KConst && (e.Ret[1].S == "true" || e.Ret[1].S == "false") {
			return "_," + e.Ret[1].S
		}
		return "?"
	case "valerr":
		if len(e.Ret) == 2 {
			a, b := cls(e.Ret[0]), cls(e.Ret[1])
			if a != "?" && b != "?" {
				return a + "," + b
			}
		}
		return "?"
	}
	return ""
}

func hasParamTerm(t *Term) bool {
	if t == nil {
		return false
	}
	if t.K == KParam {
		return true
	}
	for _, a := range t.Args {
		if hasParamTerm(a) {
			return true
		}
	}
	return false
}

// paramsCovered: every parameter term of t has a substitute.
func paramsCovered(t *Term, sub map[string]*Term) bool {
	if t == nil {
		return true
	}
	if t.K == KParam {
		_, ok := sub[t.S]
		return ok
	}
	for _, a := range t.Args {
		if !paramsCovered(a, sub) {
			return false
		}
	}
	return true
}

func boolResult(fn *FuncInfo) bool {
	sig := fn.Obj.Type().(*types.Signature)
	if sig.Results().Len() == 0 {
		return false
	}
	b, ok := sig.Results().At(0).Type().Underlying().(*types.Basic)
	return ok && b.Info()&types.IsBoolean != 0
}

func (a *Analysis) summary(fn *FuncInfo, ctx []Lit) *Summary {
	k := ctxKey(fn, ctx)
	if s, ok := a.sums[k]; ok {
		return s
	}
	var s *Summary
	if boolResult(fn) {
		s = &Summary{Classes: []*ExitClass{{Ret: "true", Kills: map[string]int{}, Events: map[string]bool{}}, {Ret: "false", Kills: map[string]int{}, Events: map[string]bool{}}}}
	} else if retMode(fn) == "ptr" {
		s = &Summary{Classes: []*ExitClass{{Ret: "nn", Kills: map[string]int{}, Events: map[string]bool{}}, {Ret: "nil", Kills: map[string]int{}, Events: map[string]bool{}}}}
	} else if retMode(fn) == "valerr" {
		s = &Summary{Classes: []*ExitClass{{Ret: "nn,nil", Kills: map[string]int{}, Events: map[string]bool{}}, {Ret: "nil,nn", Kills: map[string]int{}, Events: map[string]bool{}}}}
	} else {
		s = &Summary{Classes: []*ExitClass{{Kills: map[string]int{}, Events: map[string]bool{}}}}
	}
	a.sums[k] = s
	a.sumFn[k] = fn
	a.sumCtx[k] = ctx
	a.sumDirty = true
	return s
}

func (a *Analysis) computeSummary(fn *FuncInfo, ctx []Lit) *Summary {
	st := newState()
	for _, l := range ctx {
		st.F.add(l)
	}
	exits := a.walkFunc(fn, st, false)
	classes := map[string]*ExitClass{}
	var order []string
	mode := retMode(fn)
	for _, e := range exits {
		ret := classifyRet(mode, e)
		c, ok := classes[ret]
		if !ok {
			c = &ExitClass{Ret: ret, Kills: map[string]int{}, Events: nil}
			classes[ret] = c
			order = append(order, ret)
		}
		c.n++
		for l, k := range e.Killed {
			c.Kills[l] |= k
		}
		// post-facts: literals over state atoms that hold at every exit of the class
		pf := map[string]Lit{}
		for k, v := range e.F.m {
			at := e.F.atoms[k]
			if hasLocalTerm(at.A) || hasLocalTerm(at.B) {
				continue
			}
			// literals over the parameters' entry values are kept: the call site substitutes the actual arguments
			pf[Lit{at, v}.String()] = Lit{at, v}
		}
		if c.post == nil {
			c.post = pf
		} else {
			for k := range c.post {
				if _, ok := pf[k]; !ok {
					delete(c.post, k)
				}
			}
		}
		if c.Events == nil {
			c.Events = map[string]bool{}
			for ev := range e.Events {
				c.Events[ev] = true
			}
		} else {
			for ev := range c.Events {
				if !e.Events[ev] {
					delete(c.Events, ev)
				}
			}
		}
	}
	sort.Strings(order)
	s := &Summary{}
	// an exit with unknown classification is merged into every definite class of its mode
	if q, ok := classes["?"]; ok && mode != "" {
		var defs []string
		switch mode {
		case "valok":
			defs = []string{"_,true", "_,false"}
		case "bool":
			defs = []string{"true", "false"}
		case "ptr":
			defs = []string{"nn", "nil"}
		default:
			defs = []string{"nn,nil", "nil,nn"}
		}
		for _, r := range defs {
			c, ok := classes[r]
			if !ok {
				c = &ExitClass{Ret: r, Kills: map[string]int{}, Events: map[string]bool{}}
				for ev := range q.Events {
					c.Events[ev] = true
				}
				classes[r] = c
				order = append(order, r)
			}
			for l, k := range q.Kills {
				c.Kills[l] |= k
			}
			for ev := range c.Events {
				if !q.Events[ev] {
					delete(c.Events, ev)
				}
			}
		}
		delete(classes, "?")
		sort.Strings(order)
	}
	for _, r := range order {
		if c, ok := classes[r]; ok {
			s.Classes = append(s.Classes, c)
			delete(classes, r)
		}
	}
	if len(s.Classes) == 0 {
		// function never returns normally on this context (all paths pruned): no continuation
	}
	for _, c := range s.Classes {
		if c.Events == nil {
			c.Events = map[string]bool{}
		}
		var ks []string
		for k := range c.post {
			ks = append(ks, k)
		}
		sort.Strings(ks)
		c.Post = nil
		for _, k := range ks {
			c.Post = append(c.Post, c.post[k])
		}
	}
	return s
}

// solveSummaries iterates to a fixpoint over all requested (fn, ctx) pairs.
func (a *Analysis) solveSummaries() {
	// seed: every module function with the empty context
	for _, fn := range a.Prog.sortedFuncs() {
		if !a.isPure(fn) && !a.higherOrder(fn) {
			a.summary(fn, nil)
		}
	}
	for iter := 0; iter < 60; iter++ {
		a.sumDirty = false
		var keys []string
		for k := range a.sums {
			keys = append(keys, k)
		}
		sort.Strings(keys)
		changed := false
		for _, k := range keys {
			ns := a.computeSummary(a.sumFn[k], a.sumCtx[k])
			if ns.key() != a.sums[k].key() {
				// kills are merged monotonically (growing); after the call depth has had time to propagate, MUST-events
				// and post-facts only shrink, so the iteration terminates
				merged := mergeMono(a.sums[k], ns, iter >= 10)
				if merged.key() != a.sums[k].key() {
					changed = true
				}
				a.sums[k] = merged
			}
		}
		if !changed && !a.sumDirty {
			return
		}
	}
	a.Undec = append(a.Undec, Undecided{Where: "summaries", Msg: "fixpoint not reached in 60 iterations"})
}

func mergeMono(old, nu *Summary, shrink bool) *Summary {
	om := map[string]*ExitClass{}
	for _, c := range old.Classes {
		om[c.Ret] = c
	}
	for _, c := range nu.Classes {
		if o, ok := om[c.Ret]; ok {
			for l, k := range o.Kills {
				c.Kills[l] |= k
			}
			if shrink {
				for ev := range c.Events {
					if !o.Events[ev] {
						delete(c.Events, ev)
					}
				}
				keep := map[string]bool{}
				for _, l := range o.Post {
					keep[l.String()] = true
				}
				var np []Lit
				for _, l := range c.Post {
					if keep[l.String()] {
						np = append(np, l)
					}
				}
				c.Post = np
			}
		}
	}
	if shrink {
		// classes never disappear once seen
		seen := map[string]bool{}
		for _, c := range nu.Classes {
			seen[c.Ret] = true
		}
		for _, c := range old.Classes {
			if !seen[c.Ret] {
				nu.Classes = append(nu.Classes, c)
			}
		}
	}
	return nu
}

// walkAll records site snapshots for every function of the module (generic context).
func (a *Analysis) walkAll() {
	if a.walked {
		return
	}
	a.walked = true
	a.resolveEpochWriter()
	a.solveSummaries()
	for _, fn := range a.Prog.sortedFuncs() {
		if a.higherOrder(fn) {
			continue // walked inline at its call sites (funcval.go)
		}
		a.walkFunc(fn, newState(), true)
	}
	for _, ss := range a.FnSites {
		for _, s := range ss {
			if s.Target != nil {
				a.callers[s.Target] = append(a.callers[s.Target], s)
			}
		}
	}
}

// resolveEpochWriter finds the function assigning ctx.ViewNumber and its view parameter.
func (a *Analysis) resolveEpochWriter() {
	for _, fn := range a.Prog.dbftFuncs() {
		info := fn.Pkg.TypesInfo
		ast.Inspect(fn.Decl.Body, func(n ast.Node) bool {
			as, ok := n.(*ast.AssignStmt)
			if !ok {
				return true
			}
			for i, l := range as.Lhs {
				sel, ok := ast.Unparen(l).(*ast.SelectorExpr)
				if !ok {
					continue
				}
				s := info.Selections[sel]
				if s == nil || s.Kind() != types.FieldVal {
					continue
				}
				fv := s.Obj().(*types.Var).Origin()
				if a.Prog.FieldOwner[fv] == "Context" && sel.Sel.Name == "ViewNumber" && i < len(as.Rhs) {
					if id, ok := ast.Unparen(as.Rhs[i]).(*ast.Ident); ok {
						if v, ok := info.Uses[id].(*types.Var); ok {
							for _, p := range fn.Params {
								if p == v {
									a.epochWriter = fn
									a.epochViewParm = v
								}
							}
						}
					}
				}
			}
			return true
		})
	}
	// the epoch writer may be split into private single-caller helpers: climb to the outermost function of that cluster
	// which still receives the view as a parameter
	for a.epochWriter != nil && a.inlinable(a.epochWriter) {
		w := a.epochWriter
		pidx := -1
		for i, p := range w.Params {
			if p == a.epochViewParm {
				pidx = i
			}
		}
		var caller *FuncInfo
		var cparam *types.Var
		for _, fn := range a.Prog.dbftFuncs() {
			info := fn.Pkg.TypesInfo
			ast.Inspect(fn.Decl.Body, func(n ast.Node) bool {
				call, ok := n.(*ast.CallExpr)
				if !ok {
					return true
				}
				if f, ok := typeutil.Callee(info, call).(*types.Func); ok && a.Prog.Funcs[f.Origin()] == w && pidx >= 0 && pidx < len(call.Args) {
					if id, ok := ast.Unparen(call.Args[pidx]).(*ast.Ident); ok {
						if v, ok := info.Uses[id].(*types.Var); ok {
							for _, p := range fn.Params {
								if p == v {
									caller, cparam = fn, v
								}
							}
						}
					}
				}
				return true
			})
		}
		if caller == nil || caller.Recv != w.Recv {
			break
		}
		a.epochWriter, a.epochViewParm = caller, cparam
	}
}

// cluster: root plus the private single-caller helpers reachable from it (what an "extract function" refactoring
// carves out of root).
func (a *Analysis) cluster(root *FuncInfo) map[*FuncInfo]bool {
	out := map[*FuncInfo]bool{root: true}
	var visit func(f *FuncInfo)
	visit = func(f *FuncInfo) {
		info := f.Pkg.TypesInfo
		ast.Inspect(f.Decl.Body, func(n ast.Node) bool {
			if call, ok := n.(*ast.CallExpr); ok {
				if fo, ok := typeutil.Callee(info, call).(*types.Func); ok {
					if t := a.Prog.Funcs[fo.Origin()]; t != nil && !out[t] && a.inlinable(t) {
						out[t] = true
						visit(t)
					}
				}
			}
			return true
		})
	}
	visit(root)
	return out
}

// localFuncTargets: v is a local of fn that is only ever assigned function literals, module functions or method values
// of module functions; returns the module functions among them.
func localFuncTargets(a *Analysis, fn *FuncInfo, v *types.Var) ([]*FuncInfo, bool) {
	info := fn.Pkg.TypesInfo
	for _, p := range fn.Params {
		if p == v {
			return nil, false
		}
	}
	ok := true
	found := false
	var out []*FuncInfo
	classify := func(e ast.Expr) {
		switch x := ast.Unparen(e).(type) {
		case *ast.FuncLit:
			found = true
		case *ast.Ident:
			if f, isF := info.Uses[x].(*types.Func); isF {
				if fi := a.Prog.Funcs[f.Origin()]; fi != nil {
					out = append(out, fi)
					found = true
					return
				}
			}
			ok = false
		case *ast.SelectorExpr:
			if s := info.Selections[x]; s != nil && s.Kind() == types.MethodVal {
				if f, isF := s.Obj().(*types.Func); isF {
					if fi := a.Prog.Funcs[f.Origin()]; fi != nil {
						out = append(out, fi)
						found = true
						return
					}
				}
			}
			ok = false
		default:
			ok = false
		}
	}
	ast.Inspect(fn.Decl.Body, func(n ast.Node) bool {
		switch s := n.(type) {
		case *ast.AssignStmt:
			for i, l := range s.Lhs {
				id, isId := ast.Unparen(l).(*ast.Ident)
				if !isId {
					continue
				}
				obj := info.Defs[id]
				if obj == nil {
					obj = info.Uses[id]
				}
				if obj != v {
					continue
				}
				if len(s.Rhs) == len(s.Lhs) {
					classify(s.Rhs[i])
				} else {
					ok = false
				}
			}
		case *ast.ValueSpec:
			for i, id := range s.Names {
				if info.Defs[id] == v {
					if i < len(s.Values) {
						classify(s.Values[i])
					} else if len(s.Values) != 0 {
						ok = false
					}
				}
			}
		case *ast.UnaryExpr:
			if s.Op == token.AND {
				if id, isId := ast.Unparen(s.X).(*ast.Ident); isId && info.Uses[id] == v {
					ok = false
				}
			}
		}
		return true
	})
	return out, ok && found
}

// testsRole: fn's own body asks whether this node is the view's primary (a pure predicate reading both indices, or a
// direct comparison).
func (a *Analysis) testsRole(fn *FuncInfo) bool {
	if a.roleTest == nil {
		a.roleTest = map[*FuncInfo]bool{}
	}
	if v, ok := a.roleTest[fn]; ok {
		return v
	}
	a.roleTest[fn] = false
	found := false
	w := &Walker{A: a, Fn: fn, info: fn.Pkg.TypesInfo}
	ast.Inspect(fn.Decl.Body, func(n ast.Node) bool {
		call, ok := n.(*ast.CallExpr)
		if !ok || found {
			return !found
		}
		t := w.staticCallee(call)
		if t == nil || !a.isPure(t) {
			return true
		}
		mi, pi := false, false
		for _, r := range a.readsOf(t) {
			if r == "ctx.MyIndex" {
				mi = true
			}
			if r == "ctx.PrimaryIndex" {
				pi = true
			}
		}
		if mi && pi && a.isPurePredicate(t) {
			found = true
		}
		return true
	})
	a.roleTest[fn] = found
	return found
}
