package main

// Backward demand engine: proves "whenever control reaches site s, G holds" by
// evaluating G on every recorded path snapshot of s and pushing the residual
// requirement to the callers of the enclosing function, up to the API entries.

import (
	"fmt"
	"os"
	"sort"
	"strings"
)

type Failure struct {
	Chain  []string // innermost site first
	Cex    string
	Reason string
}

func (f *Failure) String() string {
	return fmt.Sprintf("%s; chain: %s; counterexample: %s", f.Reason, strings.Join(f.Chain, " <- "), f.Cex)
}

type Demand struct {
	A     *Analysis
	Roots map[*FuncInfo]bool // API entries: residual must be valid there
	// Stable: locations whose kills are ignored for this rule (e.g. admission rules)
	IgnoreKill map[string]bool
	memo       map[string]*Failure
	inprog     map[string]bool
	Steps      int
	MaxDepth   int
	// ExemptCall may replace the requirement at a caller's call site (table exceptions, each with its own obligation)
	ExemptCall func(cs *Site, g *Formula) *Formula
	// UseSticky: admission facts established earlier on the path count even if later invalidated
	UseSticky bool
	// assumeSenderNotOwn: set while relating an own-slot atom that splitOwnSlot has guarded with "or the sender is me"
	assumeSenderNotOwn bool
}

func (a *Analysis) newDemand(roots []*FuncInfo) *Demand {
	d := &Demand{A: a, Roots: map[*FuncInfo]bool{}, memo: map[string]*Failure{}, inprog: map[string]bool{}, IgnoreKill: map[string]bool{}, MaxDepth: 12}
	for _, r := range roots {
		if r != nil {
			d.Roots[r] = true
		}
	}
	return d
}

func hasLocalTerm(t *Term) bool {
	if t == nil {
		return false
	}
	switch t.K {
	case KLocal, KElem, KOpaque:
		return true
	}
	for _, a := range t.Args {
		if hasLocalTerm(a) {
			return true
		}
	}
	return false
}

func (d *Demand) modeFor(killed map[string]int, facts *Facts) func(a *Atom) int {
	return func(a *Atom) int {
		if hasLocalTerm(a.A) || hasLocalTerm(a.B) {
			return ModeNone
		}
		mode := ModeEqual
		for _, loc := range a.Reads {
			k := killed[loc]
			if k == 0 || d.IgnoreKill[loc] {
				continue
			}
			isSlot := a.Op == "nn" && a.A.K == KIndex && a.A.Args[0].K == KField && a.A.Args[0].Name == loc && !a.A.Args[1].readsLoc(loc)
			if !isSlot {
				return ModeNone
			}
			rem := k
			if rem&KillNilResp != 0 {
				rem &^= KillNilResp
				if idxClass(a.A.Args[1], nil) != "primary" {
					rem |= KillNil
				}
			}
			switch idxClass(a.A.Args[1], nil) {
			case "own":
				// a store into a sender's slot leaves the own slot alone only if the sender is not this node. It can be:
				// a node that lost its state is handed its own payloads back by a recovery message. The path must know
				// better — every sender index it equates with something is known to differ from MyIndex
				if senderIsNotOwn(facts) || d.assumeSenderNotOwn {
					rem &^= KillNNSender
				}
			case "sender":
				rem &^= KillNNOwn
			}
			if rem == 0 {
				continue
			}
			if rem&KillAny != 0 {
				return ModeNone
			}
			var m int
			if rem == KillNil {
				m = ModeImpliesEntry
			} else if rem&KillNil == 0 {
				m = ModeImpliedByEntry
			} else {
				return ModeNone
			}
			if mode == ModeEqual {
				mode = m
			} else if mode != m {
				return ModeNone
			}
		}
		return mode
	}
}

func cexString(cex map[string]bool) string {
	var ks []string
	for k, v := range cex {
		if v {
			ks = append(ks, k)
		} else {
			ks = append(ks, "!("+k+")")
		}
	}
	sort.Strings(ks)
	return strings.Join(ks, ", ")
}

func (d *Demand) siteLabel(s *Site) string {
	what := s.Callee
	if s.Kind == "write" {
		what = "write " + s.Loc
	} else if s.Kind == "index" {
		what = "index " + s.Loc
	}
	return fmt.Sprintf("%s@%s[%s]", s.Fn.Name, d.A.Prog.Pos(s.Node), what)
}

// ProveAt proves G (built per snapshot) at the site. Returns nil when proven.
func (d *Demand) ProveAt(site *Site, gOf func(sn *Snap) *Formula) *Failure {
	for _, sn := range site.Snaps {
		g := gOf(sn)
		if g == nil {
			continue
		}
		if f := d.proveSnap(site, sn, g, 0); f != nil {
			return f
		}
	}
	return nil
}

// demandBudget bounds the work of one demand (one rule at one site): a call cycle that re-writes the requirement at
// every round (a payload parameter replaced by a fresh loop element each time) is not closed by the coinductive memo and
// would otherwise be explored to the depth limit with the full fan-out; exhausting the budget is a failure of the
// obligation ("cannot be decided"), never a pass.
const demandBudget = 20000

var maxDemandSteps int

func (d *Demand) proveSnap(site *Site, sn *Snap, g *Formula, depth int) *Failure {
	d.Steps++
	if d.Steps > maxDemandSteps {
		maxDemandSteps = d.Steps
	}
	if d.Steps > demandBudget {
		return &Failure{Chain: []string{d.siteLabel(site)}, Reason: "demand budget exhausted (requirement keeps changing along a call cycle): cannot decide " + g.String()}
	}
	facts := sn.F
	if d.UseSticky && len(sn.Sticky) > 0 {
		facts = sn.F.clone()
		for k, l := range sn.Sticky {
			if _, known := facts.m[k]; !known {
				facts.add(l)
			}
		}
	}
	// the own slot across a store into a sender's slot: T[me] keeps its value unless the sender is this node — and if it
	// is, the slot is non-nil afterwards. When the path does not know which, say so in the requirement itself:
	// nn(T[me]) becomes nn(T[me]) ∨ me == sender, and the atom is then related to the entry as in the "not me" case
	g, notOwn := d.splitOwnSlot(g, sn.Killed, facts)
	mode := d.modeFor(sn.Killed, facts)
	if notOwn {
		inner := mode
		d.assumeSenderNotOwn = true
		mode = func(a *Atom) int {
			d.assumeSenderNotOwn = true
			defer func() { d.assumeSenderNotOwn = false }()
			return inner(a)
		}
		d.assumeSenderNotOwn = false
	}
	r, cex := residual(g, facts, mode)
	lab := d.siteLabel(site)
	if os.Getenv("DBFTLINT_DEBUG_DEMAND") != "" && strings.Contains(lab, os.Getenv("DBFTLINT_DEBUG_DEMAND")) {
		fmt.Printf("DEMAND %s depth=%d\n   g=%s\n   r=%s\n   killed=%v notOwn=%v\n", lab, depth, g.String(), r.String(), sn.Killed, senderIsNotOwn(facts))
	}
	if r.K == FFalse {
		// the path itself may be one the callers rule out: a branch decision of this function about a piece of state that
		// has not been written since the entry (`if !complete { … }` in a helper that is only called when complete). The
		// requirement handed to the callers is then that the decision cannot come out this way.
		if len(d.Roots) > 0 && !d.Roots[site.Fn] {
			var alts []*Formula
			for _, l := range sn.TrailL {
				if l.A == nil || mode(l.A) != ModeEqual {
					continue
				}
				neg := fAtom(l.A)
				if l.Pos {
					neg = fNot(neg)
				}
				alts = append(alts, neg)
			}
			if len(alts) > 0 && len(alts) <= 6 {
				infeasible := alts[0]
				for _, a := range alts[1:] {
					infeasible = fOr(infeasible, a)
				}
				if f := d.proveEntry(site.Fn, infeasible, depth+1); f == nil {
					return nil
				}
			}
		}
		return &Failure{Chain: []string{lab}, Cex: cexString(cex), Reason: "cannot establish " + g.String() + " on path {" + sn.Trail + "}"}
	}
	if r.K == FTrue {
		return nil
	}
	if len(d.Roots) == 0 {
		// local rule: the requirement must be established inside the function
		return &Failure{Chain: []string{lab}, Cex: cexString(cex), Reason: "not established locally: needs " + r.String() + " from the callers"}
	}
	if f := d.proveEntry(site.Fn, r, depth+1); f != nil {
		return &Failure{Chain: append([]string{lab}, f.Chain...), Cex: f.Cex, Reason: f.Reason}
	}
	return nil
}

// proveEntry proves R at every entry of fn. The failure chain lists the call
// sites from fn's caller up to the API entry.
func (d *Demand) proveEntry(fn *FuncInfo, r *Formula, depth int) *Failure {
	key := fn.Pkg.PkgPath + "." + fn.Name + "|" + r.String()
	if f, ok := d.memo[key]; ok {
		return f
	}
	if d.inprog[key] {
		return nil // coinductive: the same demand on a call cycle
	}
	if depth > d.MaxDepth {
		return &Failure{Chain: []string{"..."}, Reason: "demand depth exceeded for " + r.String()}
	}
	d.inprog[key] = true
	defer delete(d.inprog, key)
	var fail *Failure
	if d.Roots[fn] {
		// API entry: nothing is known
		rr, cex := residual(r, newFacts(), func(*Atom) int { return ModeNone })
		if rr.K != FTrue {
			fail = &Failure{Chain: []string{"API:" + fn.Name}, Cex: cexString(cex), Reason: "not established at API entry " + fn.Name + ": " + r.String()}
		}
	}
	if fail == nil {
		for _, cs := range d.A.callers[fn] {
			for _, sn := range cs.Snaps {
				g := mapToCaller(r, fn, sn)
				if d.ExemptCall != nil {
					if g2 := d.ExemptCall(cs, g); g2 != nil {
						g = g2
					}
				}
				if f := d.proveSnap(cs, sn, g, depth); f != nil {
					fail = f
					break
				}
			}
			if fail != nil {
				break
			}
		}
	}
	d.memo[key] = fail
	return fail
}

// mapToCaller rewrites a formula over the callee's entry state into the caller's
// state at the call: parameters are replaced by the argument terms.
func mapToCaller(r *Formula, fn *FuncInfo, sn *Snap) *Formula {
	sub := map[string]*Term{}
	for i, p := range fn.Params {
		if i < len(sn.Args) {
			sub["p:"+p.Name()] = sn.Args[i]
		}
	}
	return r.mapAtoms(func(a *Atom) *Formula {
		na := substAtom(a, sub)
		if v, ok := triv(na); ok {
			if v {
				return fTrue
			}
			return fFalse
		}
		return fAtom(na)
	})
}

func substAtom(a *Atom, sub map[string]*Term) *Atom {
	if len(sub) == 0 {
		return a
	}
	na := substTerm(a.A, sub)
	var nb *Term
	if a.B != nil {
		nb = substTerm(a.B, sub)
	}
	if na == a.A && nb == a.B {
		return a
	}
	if a.Op == "lt" && (na.K == KCount || (nb != nil && nb.K == KCount)) {
		return a
	}
	return mkAtom(a.Op, na, nb)
}

func substTerm(t *Term, sub map[string]*Term) *Term {
	if t == nil {
		return nil
	}
	if t.K == KParam {
		if r, ok := sub[t.S]; ok {
			return r
		}
		return t
	}
	if len(t.Args) == 0 {
		return t
	}
	changed := false
	nargs := make([]*Term, len(t.Args))
	for i, a := range t.Args {
		nargs[i] = substTerm(a, sub)
		if nargs[i] != a {
			changed = true
		}
	}
	if !changed {
		return t
	}
	nt := mkTerm(t.K, t.Name, nargs...)
	nt.Unsigned = t.Unsigned
	nt.NonNil = t.NonNil
	if t.K == KCall {
		// keep extra reads (pure function read sets)
		nt.Reads = uniq(append(nt.Reads, t.Reads...))
		// reads contributed by replaced params are gone; recompute from args + non-arg reads is not possible,
		// so keep the union (sound: more reads ⇒ more kills)
	}
	// canonical identification of the primary index
	if nt.K == KCall && nt.Name == "fn:Context.GetPrimaryIndex" && len(nt.Args) == 1 && nt.Args[0].S == "ctx.ViewNumber" {
		pt := mkTerm(KField, "ctx.PrimaryIndex")
		pt.Unsigned = true
		return pt
	}
	return nt
}

// senderIsNotOwn: the facts tie the index of the received payload(s) to a term that is known to differ from MyIndex
// (e.g. sender == PrimaryIndex and MyIndex != PrimaryIndex), or say directly that it differs.
func senderIsNotOwn(f *Facts) bool {
	if f == nil {
		return false
	}
	found := false
	for k, v := range f.m {
		a := f.atoms[k]
		if a == nil || a.Op != "eq" || a.A == nil || a.B == nil {
			continue
		}
		var other *Term
		switch {
		case idxClass(a.A, nil) == "sender":
			other = a.B
		case idxClass(a.B, nil) == "sender":
			other = a.A
		default:
			continue
		}
		if other.S == tMyIndex.S {
			if !v {
				found = true
				continue
			}
			return false // the sender IS this node
		}
		if !v {
			continue
		}
		if ne, ok := f.value(mkAtom("eq", tMyIndex, other)); ok && !ne {
			found = true
		} else {
			return false
		}
	}
	return found
}

// splitOwnSlot rewrites own-slot atoms of g whose table was stored into at a sender's index on the way (see proveSnap).
// The sender is named by what the path equates it with (the primary index, say), so that the new atom can meet the
// requirement's own literals about this node's role.
func (d *Demand) splitOwnSlot(g *Formula, killed map[string]int, facts *Facts) (*Formula, bool) {
	if senderIsNotOwn(facts) {
		return g, false
	}
	// who sent it: a unique sender-class term of the path, and what the path says it equals
	var sender, same *Term
	for k, v := range facts.m {
		a := facts.atoms[k]
		if a == nil || a.Op != "eq" || a.A == nil || a.B == nil {
			continue
		}
		var s, o *Term
		switch {
		case idxClass(a.A, nil) == "sender":
			s, o = a.A, a.B
		case idxClass(a.B, nil) == "sender":
			s, o = a.B, a.A
		default:
			continue
		}
		if sender != nil && sender.S != s.S {
			return g, false
		}
		sender = s
		if o.S == tMyIndex.S {
			return g, false // the path already knows
		}
		if v && !o.isConst() && !hasLocalTerm(o) && (same == nil || o.S < same.S) {
			same = o
		}
	}
	if sender == nil {
		return g, false
	}
	who := sender
	if same != nil {
		who = same
	}
	isMe := mkAtom("eq", tMyIndex, who)
	if _, known := facts.value(isMe); known {
		return g, false
	}
	changed := false
	out := g.mapAtomsPol(true, func(a *Atom, pos bool) *Formula {
		if a.Op != "nn" || a.A.K != KIndex || len(a.A.Args) != 2 || a.A.Args[0].K != KField || idxClass(a.A.Args[1], nil) != "own" {
			return fAtom(a)
		}
		k := killed[a.A.Args[0].Name]
		if k&KillNNSender == 0 || k&(KillAny|KillNNOther) != 0 {
			return fAtom(a)
		}
		// "the slot is non-nil if the sender is me" holds only if nothing may have emptied a slot on the way (the
		// kill set is unordered); asked for the slot to be empty, "and the sender is not me" only strengthens
		if pos && k&^(KillNNSender|KillNNOwn|KillStable) != 0 {
			return fAtom(a)
		}
		changed = true
		return fOr(fAtom(a), fAtom(isMe))
	})
	if !changed {
		return g, false
	}
	return out, true
}
