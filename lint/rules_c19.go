package main

// C19: reference payload / block / crypto code (packages internal/consensus, internal/crypto, internal/merkle).

import (
	"fmt"
	"go/ast"
	"go/token"
	"go/types"
	"sort"
	"strings"

	"golang.org/x/tools/go/types/typeutil"
)

func init() {
	propertyRules["C19"] = []ruleFn{ruleCodecSym, ruleGobExported, ruleDecodeErr, ruleTypeSwitch, ruleHashInput, ruleCtor, ruleSig, ruleFixedRead, ruleTypedNil, ruleDecodeFresh, ruleSigLength}
	propertyExplain["C19"] = "A-CODEC-SYM: for every type with EncodeBinary/DecodeBinary each field is read by the encoder on every successful path (or is a reasoned derived/cache field) and assigned by the decoder on every successful path; A-GOB-EXPORTED: structs handed to gob have only exported fields; G-DECODE-ERR: no decoder drops an error; A-TYPE-SWITCH: the recovery message packs every payload kind the library adds and each Get* reconstruction uses the kind and body type of the list it reads, copying every body field; A-HASH-INPUT: Hash() is Hash256 of the unsigned encoding (which covers every field except the cache) and block hash/sign/verify all feed GetHashData, which does not read the signature; P-CTOR: constructors use every named parameter in its role; P-SIG: Sign and Verify hash the message with the same function; Merkle parents hash left‖right. Collision resistance, ECDSA soundness and gob's robustness on arbitrary bytes are not decided."
}

const consPath = modPath + "/internal/consensus"

type codecType struct {
	name   string
	st     *types.Struct
	enc    *FuncInfo
	dec    *FuncInfo
	fields []string
}

func (c *RC) codecTypes() []*codecType {
	var out []*codecType
	for key, st := range c.Prog.Structs {
		if !strings.HasPrefix(key, "internal/consensus:") {
			continue
		}
		name := strings.TrimPrefix(key, "internal/consensus:")
		enc := c.Prog.ByName["internal/consensus:"+name+".EncodeBinary"]
		dec := c.Prog.ByName["internal/consensus:"+name+".DecodeBinary"]
		if enc == nil || dec == nil {
			continue
		}
		ct := &codecType{name: name, st: st, enc: enc, dec: dec}
		for i := 0; i < st.NumFields(); i++ {
			ct.fields = append(ct.fields, st.Field(i).Name())
		}
		out = append(out, ct)
	}
	sort.Slice(out, func(i, j int) bool { return out[i].name < out[j].name })
	return out
}

// fields that are legitimately not on the wire, each with its reason and its own obligation
var codecExempt = map[string]string{
	"Payload.hash":             "cache of Hash(); never encoded",
	"changeView.newViewNumber": "derived on decode by the enclosing message decoder as viewNumber+1 (mirrors Neo); derivation site checked",
	"neoBlock.hash":            "cache",
	"amevBlock.hash":           "cache",
	"preBlock.hash":            "cache",
}

// failedExit: the exit returns a non-nil error
func failedExit(e *State) bool {
	if len(e.Ret) == 0 {
		return false
	}
	last := e.Ret[len(e.Ret)-1]
	if last == nil || last.K == KNil {
		return false
	}
	if last.NonNil {
		return true
	}
	v, ok := e.F.value(mkAtom("nn", last, nil))
	return ok && v
}

func ruleCodecSym(c *RC) *RuleResult {
	r := &RuleResult{Rule: "A-CODEC-SYM", Kind: "AGREE", Doc: "encoder reads / decoder assigns every wire field on every successful path"}
	cts := c.codecTypes()
	if len(cts) < 10 {
		r.unresolved(fmt.Sprintf("types with EncodeBinary/DecodeBinary (found %d)", len(cts)))
	}
	// the wire does not narrow: wherever an encoder copies a receiver field into the auxiliary (wire) struct, the wire
	// field is at least as wide as the field — a 16-bit validator index squeezed into a byte still round-trips for every
	// index the tests use, and two payloads that differ only above bit 7 get one hash
	for _, ct := range cts {
		if ct.enc == nil {
			continue
		}
		info := ct.enc.Pkg.TypesInfo
		sizes := types.SizesFor("gc", "amd64")
		ast.Inspect(ct.enc.Decl.Body, func(n ast.Node) bool {
			kv, ok := n.(*ast.KeyValueExpr)
			if !ok {
				return true
			}
			key, ok := kv.Key.(*ast.Ident)
			if !ok {
				return true
			}
			wf, ok := info.Uses[key].(*types.Var)
			if !ok || !wf.IsField() {
				return true
			}
			v := ast.Unparen(kv.Value)
			for {
				call, ok := v.(*ast.CallExpr)
				if !ok || len(call.Args) != 1 {
					break
				}
				if tv, ok := info.Types[call.Fun]; !ok || !tv.IsType() {
					break
				}
				v = ast.Unparen(call.Args[0])
			}
			sel, ok := v.(*ast.SelectorExpr)
			if !ok {
				return true
			}
			sl := info.Selections[sel]
			if sl == nil || sl.Kind() != types.FieldVal {
				return true
			}
			src := sl.Obj().Type()
			sb, ok1 := src.Underlying().(*types.Basic)
			wb, ok2 := wf.Type().Underlying().(*types.Basic)
			if !ok1 || !ok2 || sb.Info()&types.IsInteger == 0 || wb.Info()&types.IsInteger == 0 {
				return true
			}
			r.Sites++
			if sizes.Sizeof(wf.Type()) >= sizes.Sizeof(src) {
				r.ok(fmt.Sprintf("%s: wire field %s (%s) holds %s (%s) without narrowing", ct.name, wf.Name(), wf.Type(), sel.Sel.Name, src))
			} else {
				r.fail(ct.name+"."+sel.Sel.Name+"/narrowed-on-wire", c.Prog.Pos(kv), fmt.Sprintf("%s.%s (%s) is written to the wire field %s (%s): values above the narrower range neither round-trip nor enter the hash", ct.name, sel.Sel.Name, src, wf.Name(), wf.Type()))
			}
			return true
		})
	}
	for _, ct := range cts {
		// struct-valued gob types (encode the whole receiver) are covered by A-GOB-EXPORTED
		whole := false
		for _, s := range c.A.FnSites[ct.enc] {
			if s.Kind == "call" && strings.HasSuffix(s.Callee, "gob.Encoder.Encode") {
				for _, sn := range s.Snaps {
					if len(sn.Args) == 1 && sn.Args[0] == rootRecv {
						whole = true
					}
				}
			}
		}
		if whole {
			r.Sites++
			r.ok(ct.name + ": the whole (exported-field) struct is handed to gob")
			continue
		}
		encExits := c.exitsOf(ct.enc)
		decExits := c.exitsOf(ct.dec)
		for _, f := range ct.fields {
			r.Sites++
			why, ok := codecExempt[ct.name+"."+f]
			if !ok {
				// by role: the memo of Hash() (assigned only inside the type's Hash method), and the field NewViewNumber()
				// returns (derived by the enclosing decoder)
				if hf := c.hashCacheField(ct.name); hf != "" && hf == f {
					why, ok = "cache of Hash(); never encoded", true
				} else if c.fieldGetters()[f]["NewViewNumber"] {
					why, ok = codecExempt["changeView.newViewNumber"], true
				}
			}
			if ok {
				r.ok(ct.name + "." + f + " not on the wire: " + why)
				continue
			}
			loc := "recv." + f
			badE, badD := "", ""
			ne, nd := 0, 0
			for _, e := range encExits {
				if failedExit(e) {
					continue
				}
				ne++
				if !e.ReadSeen[loc] {
					badE = "{" + strings.Join(e.Trail, "; ") + "}"
				}
			}
			// a nil-able field may be absent on the wire: the encoder then has a successful path with the field nil,
			// and the decoder may leave it unassigned (zero value) on some path, but must assign it on another
			nilPath := false
			for _, e := range encExits {
				if v, ok := e.F.value(mkAtom("nn", fld(loc, false), nil)); ok && !v && !failedExit(e) {
					nilPath = true
				}
			}
			assignedSomewhere := false
			for _, e := range decExits {
				if failedExit(e) {
					continue
				}
				nd++
				if e.Killed[loc] == 0 {
					badD = "{" + strings.Join(e.Trail, "; ") + "}"
				} else {
					assignedSomewhere = true
				}
			}
			if nilPath && assignedSomewhere {
				badD = ""
			}
			switch {
			case ne == 0 || nd == 0:
				r.fail(ct.name+"."+f+"/no-success-path", c.Prog.Pos(ct.enc.Decl), "no successful path in the encoder or decoder")
			case badE != "":
				r.fail(ct.name+"."+f+"/not-encoded", c.Prog.Pos(ct.enc.Decl), "field "+f+" of "+ct.name+" is not written to the wire on the successful encoder path "+badE+" (it is lost in marshal/unmarshal and does not enter the hash)")
			case badD != "":
				r.fail(ct.name+"."+f+"/not-decoded", c.Prog.Pos(ct.dec.Decl), "field "+f+" of "+ct.name+" is not restored on the successful decoder path "+badD)
			default:
				r.ok(ct.name + "." + f + ": encoded and decoded on every successful path")
			}
		}
	}
	// derivation site of changeView.newViewNumber in the message decoder
	r.Sites++
	md := c.messageDecoder()
	derived := false
	for _, body := range c.decoderScope(md) {
		ast.Inspect(body, func(n ast.Node) bool {
			switch x := n.(type) {
			case *ast.AssignStmt:
				if len(x.Lhs) == 1 {
					if sel, ok := x.Lhs[0].(*ast.SelectorExpr); ok && sel.Sel.Name == "newViewNumber" {
						if be, ok := ast.Unparen(x.Rhs[0]).(*ast.BinaryExpr); ok && be.Op == token.ADD {
							derived = true
						}
					}
				}
			case *ast.KeyValueExpr:
				if id, ok := x.Key.(*ast.Ident); ok && id.Name == "newViewNumber" {
					if be, ok := ast.Unparen(x.Value).(*ast.BinaryExpr); ok && be.Op == token.ADD {
						derived = true
					}
				}
			}
			return true
		})
	}
	if derived {
		r.ok("message.DecodeBinary derives changeView.newViewNumber = viewNumber + 1")
	} else {
		r.fail("message.DecodeBinary/derive-newViewNumber", "", "the decoder no longer derives changeView.newViewNumber")
	}
	return r
}

func ruleGobExported(c *RC) *RuleResult {
	r := &RuleResult{Rule: "A-GOB-EXPORTED", Kind: "AGREE", Doc: "every struct type handed to gob Encode/Decode has only exported fields (gob silently skips unexported ones)"}
	pkg := c.Prog.Pkgs["internal/consensus"]
	if pkg == nil {
		r.unresolved("package internal/consensus")
		return r
	}
	seen := map[string]bool{}
	for _, f := range pkg.Syntax {
		ast.Inspect(f, func(n ast.Node) bool {
			call, ok := n.(*ast.CallExpr)
			if !ok || len(call.Args) != 1 {
				return true
			}
			fo, ok := typeutil.Callee(pkg.TypesInfo, call).(*types.Func)
			if !ok || fo.Pkg() == nil || fo.Pkg().Path() != "encoding/gob" || (fo.Name() != "Encode" && fo.Name() != "Decode") {
				return true
			}
			t := pkg.TypesInfo.TypeOf(call.Args[0])
			for {
				p, ok := t.(*types.Pointer)
				if !ok {
					break
				}
				t = p.Elem()
			}
			nt, ok := types.Unalias(t).(*types.Named)
			if !ok {
				return true
			}
			st, ok := nt.Underlying().(*types.Struct)
			if !ok || seen[nt.Obj().Name()] {
				return true
			}
			seen[nt.Obj().Name()] = true
			r.Sites++
			bad := unexportedField(st, map[*types.Struct]bool{})
			if bad == "" {
				r.ok(nt.Obj().Name() + ": all fields exported")
			} else {
				r.fail(nt.Obj().Name()+"/unexported:"+bad, c.Prog.Pos(call), "gob type "+nt.Obj().Name()+" has the unexported field "+bad+", which gob drops silently (from the wire format and from the hash)")
			}
			return true
		})
	}
	if len(seen) < 8 {
		r.unresolved(fmt.Sprintf("struct types handed to gob (found %d)", len(seen)))
	}
	return r
}

func unexportedField(st *types.Struct, seen map[*types.Struct]bool) string {
	if seen[st] {
		return ""
	}
	seen[st] = true
	for i := 0; i < st.NumFields(); i++ {
		f := st.Field(i)
		if !f.Exported() {
			return f.Name()
		}
		t := f.Type()
		if sl, ok := t.Underlying().(*types.Slice); ok {
			t = sl.Elem()
		}
		if nt, ok := types.Unalias(t).(*types.Named); ok && nt.Obj().Pkg() != nil && strings.HasPrefix(nt.Obj().Pkg().Path(), modPath) {
			if s2, ok := nt.Underlying().(*types.Struct); ok {
				if b := unexportedField(s2, seen); b != "" {
					return f.Name() + "." + b
				}
			}
		}
	}
	return ""
}

func ruleDecodeErr(c *RC) *RuleResult {
	r := &RuleResult{Rule: "G-DECODE-ERR", Kind: "GUARD", Doc: "in every decoder each error result is checked or returned; the type switch has an error default"}
	n := 0
	for _, fn := range c.Prog.sortedFuncs() {
		if fn.Pkg.PkgPath != consPath || !(strings.HasSuffix(fn.Name, ".DecodeBinary") || strings.HasSuffix(fn.Name, ".UnmarshalUnsigned")) {
			continue
		}
		info := fn.Pkg.TypesInfo
		n++
		r.Sites++
		bad := ""
		ast.Inspect(fn.Decl.Body, func(nd ast.Node) bool {
			switch x := nd.(type) {
			case *ast.ExprStmt:
				if call, ok := x.X.(*ast.CallExpr); ok && returnsError(info, call) {
					bad = "error result of a call dropped at " + c.Prog.Pos(call)
				}
			case *ast.AssignStmt:
				for i, rh := range x.Rhs {
					if call, ok := rh.(*ast.CallExpr); ok && returnsError(info, call) {
						idx := len(x.Lhs) - 1
						if len(x.Rhs) == len(x.Lhs) {
							idx = i
						}
						if id, ok := x.Lhs[idx].(*ast.Ident); ok && id.Name == "_" {
							bad = "error result assigned to _ at " + c.Prog.Pos(call)
						}
					}
				}
			}
			return true
		})
		// every error variable tested non-nil leads to a return of an error
		for _, e := range c.exitsOf(fn) {
			for k, v := range e.F.m {
				if v && strings.HasSuffix(k, "!=nil") && (strings.Contains(k, "gob.Decoder.Decode") || strings.Contains(k, "DecodeBinary")) && !failedExit(e) {
					bad = "a failed decode step does not make the decoder fail: {" + strings.Join(e.Trail, "; ") + "}"
				}
			}
		}
		if bad == "" {
			r.ok(fn.Name + ": every error is propagated")
		} else {
			r.fail(fn.Name+"/dropped-error", c.Prog.Pos(fn.Decl), bad)
		}
	}
	if n < 10 {
		r.unresolved("decoders")
	}
	// default arm of the kind switch in message.DecodeBinary returns an error
	r.Sites++
	md := c.messageDecoder()
	okDefault := false
	kindSwitch := false
	for _, mem := range c.clusterFns(md) {
		ast.Inspect(mem.Decl.Body, func(n ast.Node) bool {
			if sw, ok := n.(*ast.SwitchStmt); ok {
				kindSwitch = true
				for _, cl := range sw.Body.List {
					cc := cl.(*ast.CaseClause)
					if cc.List == nil {
						for _, st := range cc.Body {
							if rs, ok := st.(*ast.ReturnStmt); ok && len(rs.Results) >= 1 {
								// the error is the last result (a helper's error result is checked by the rule above)
								if id, ok := rs.Results[len(rs.Results)-1].(*ast.Ident); !ok || id.Name != "nil" {
									okDefault = true
								}
							}
						}
					}
				}
			}
			return true
		})
	}
	if !kindSwitch && md != nil {
		// no switch over the kinds (a table of constructors, a chain of ifs): on every successful path of the decoder
		// the body has been given a value
		body := ""
		if st := c.Prog.Structs["internal/consensus:"+md.Recv]; st != nil {
			for i := 0; i < st.NumFields(); i++ {
				if it, ok := st.Field(i).Type().Underlying().(*types.Interface); ok && it.NumMethods() == 0 {
					body = "recv." + st.Field(i).Name()
				}
			}
		}
		n := 0
		okDefault = body != ""
		for _, e := range c.exitsOf(md) {
			if failedExit(e) {
				continue
			}
			n++
			if e.Killed[body] == 0 {
				okDefault = false
			}
		}
		if n == 0 {
			okDefault = false
		}
	}
	if !kindSwitch && md != nil && okDefault {
		// the body comes out of a table: the entry is called only when it is known to exist, and an array / slice table
		// is indexed only within its bounds
		for _, mem := range c.clusterFns(md) {
			if why := tableDispatchHazard(mem); why != "" {
				okDefault = false
				r.fail("message.DecodeBinary/table-dispatch", c.Prog.Pos(mem.Decl), "the message decoder picks the body constructor from a table and "+why+": an unknown kind panics instead of failing cleanly")
			}
		}
		if !okDefault {
			return r
		}
	}
	if okDefault {
		r.ok("message.DecodeBinary rejects unknown kinds")
	} else {
		r.fail("message.DecodeBinary/default", "", "unknown message kinds are not rejected")
	}
	return r
}

// invokesOnParam: parameter positions of g on which g invokes the method (interface call or static call).
func (c *RC) invokesOnParam(g *FuncInfo, method string) map[int]bool {
	out := map[int]bool{}
	for _, s := range c.A.FnSites[g] {
		if s.Kind != "call" || !strings.HasSuffix(s.Callee, "."+method) {
			continue
		}
		for _, sn := range s.Snaps {
			if sn.Recv == nil {
				continue
			}
			for j, p := range g.Params {
				if sn.Recv.K == KParam && sn.Recv.Name == p.Name() {
					out[j] = true
				}
			}
		}
	}
	return out
}

// clusterFns: fn and its single-caller private helpers, in a stable order (nil-safe).
func (c *RC) clusterFns(fn *FuncInfo) []*FuncInfo {
	if fn == nil {
		return nil
	}
	cl := c.A.cluster(fn)
	out := []*FuncInfo{fn}
	for _, f := range c.Prog.sortedFuncs() {
		if cl[f] && f != fn {
			out = append(out, f)
		}
	}
	return out
}

func returnsError(info *types.Info, call *ast.CallExpr) bool {
	t := info.TypeOf(call)
	if t == nil {
		return false
	}
	isErr := func(t types.Type) bool { return t.String() == "error" }
	if tup, ok := t.(*types.Tuple); ok {
		return tup.Len() > 0 && isErr(tup.At(tup.Len()-1).Type())
	}
	return isErr(t)
}

// A-TYPE-SWITCH
func ruleTypeSwitch(c *RC) *RuleResult {
	r := &RuleResult{Rule: "A-TYPE-SWITCH", Kind: "AGREE", Doc: "recovery message: AddPayload has an arm for every kind the library packs; every Get* reconstruction uses the kind constant and body type of the list it reads and copies every body field"}
	add := c.recoveryImpl("AddPayload")
	if add == nil {
		r.unresolved("recoveryMessage.AddPayload")
		return r
	}
	info := add.Pkg.TypesInfo
	// kind -> list field appended / field assigned
	armField := map[string]string{}
	ast.Inspect(add.Decl.Body, func(n ast.Node) bool {
		sw, ok := n.(*ast.SwitchStmt)
		if !ok {
			return true
		}
		for _, cl := range sw.Body.List {
			cc := cl.(*ast.CaseClause)
			for _, e := range cc.List {
				k := constName(info, e)
				ast.Inspect(cc, func(m ast.Node) bool {
					if as, ok := m.(*ast.AssignStmt); ok {
						for _, l := range as.Lhs {
							if sel, ok := l.(*ast.SelectorExpr); ok {
								if _, isRecv := sel.X.(*ast.Ident); isRecv && armField[k] == "" {
									armField[k] = sel.Sel.Name
								}
							}
						}
					}
					return true
				})
			}
		}
		return true
	})
	// read from the walk as well (the arm may call a method per kind, or a method of a list type): on the paths of
	// AddPayload that know the kind, which field of the receiver is written
	if len(add.Params) == 1 {
		pn := "p:" + add.Params[0].Name()
		for _, e := range c.exitsOf(add) {
			kind := ""
			for _, l := range e.TrailL {
				if l.Pos && l.A.Op == "eq" && l.A.B != nil && strings.HasSuffix(l.A.B.S, "Type") && strings.Contains(l.A.A.S, ".Type("+pn+")") {
					kind = l.A.B.S
				}
			}
			if kind == "" || armField[kind] != "" {
				continue
			}
			var locs []string
			for loc, k := range e.Killed {
				if k != 0 && strings.HasPrefix(loc, "recv.") {
					locs = append(locs, strings.TrimPrefix(loc, "recv."))
				}
			}
			sort.Strings(locs)
			if len(locs) > 0 {
				armField[kind] = strings.Join(locs, "|")
			}
		}
	}
	// kinds the library packs: from the recovery builder's tables (C09)
	for _, k := range []string{"PrepareRequestType", "PrepareResponseType", "ChangeViewType", "PreCommitType", "CommitType"} {
		r.Sites++
		if armField[k] != "" {
			r.ok("AddPayload packs " + k + " into " + armField[k])
		} else {
			r.fail("recoveryMessage.AddPayload/arm:"+k, c.Prog.Pos(add.Decl), "AddPayload has no arm for "+k+", which the library adds to recovery messages")
		}
	}
	// body type per kind from message.DecodeBinary
	// (the decoder has no arm for pre-commits; their body type is what the exported constructor builds)
	bodyOf := map[string]string{}
	if npc := c.Prog.ByName["internal/consensus:NewPreCommit"]; npc != nil {
		ast.Inspect(npc.Decl.Body, func(n ast.Node) bool {
			switch x := n.(type) {
			case *ast.CompositeLit:
				if t, ok := x.Type.(*ast.Ident); ok && bodyOf["PreCommitType"] == "" {
					bodyOf["PreCommitType"] = t.Name
				}
			case *ast.CallExpr:
				if id, ok := x.Fun.(*ast.Ident); ok && id.Name == "new" && len(x.Args) == 1 {
					if t, ok := x.Args[0].(*ast.Ident); ok && bodyOf["PreCommitType"] == "" {
						bodyOf["PreCommitType"] = t.Name
					}
				}
			}
			return true
		})
	}
	for _, md := range c.clusterFns(c.messageDecoder()) {
		ast.Inspect(md.Decl.Body, func(n ast.Node) bool {
			sw, ok := n.(*ast.SwitchStmt)
			if !ok {
				return true
			}
			for _, cl := range sw.Body.List {
				cc := cl.(*ast.CaseClause)
				for _, e := range cc.List {
					k := constName(md.Pkg.TypesInfo, e)
					ast.Inspect(cc, func(m ast.Node) bool {
						if call, ok := m.(*ast.CallExpr); ok {
							if id, ok := call.Fun.(*ast.Ident); ok && id.Name == "new" && len(call.Args) == 1 {
								if t, ok := call.Args[0].(*ast.Ident); ok {
									bodyOf[k] = t.Name
								}
							}
						}
						return true
					})
				}
			}
			return true
		})
	}
	// every kind of message the library defines can be decoded: an encoder that writes a kind the decoder refuses makes the
	// codec one-way for that kind (the bundled decoder had no arm for pre-commits)
	{
		decoded := map[string]bool{}
		for _, md := range c.clusterFns(c.messageDecoder()) {
			ast.Inspect(md.Decl.Body, func(n ast.Node) bool {
				if cc, ok := n.(*ast.CaseClause); ok {
					for _, e := range cc.List {
						if k := constName(md.Pkg.TypesInfo, e); k != "" {
							decoded[k] = true
						}
					}
				}
				// (a table of body constructors keyed by kind)
				if kv, ok := n.(*ast.KeyValueExpr); ok {
					if k := constName(md.Pkg.TypesInfo, kv.Key); k != "" {
						decoded[k] = true
					}
				}
				return true
			})
		}
		if root := c.Prog.Pkgs[""]; root != nil && len(decoded) > 0 {
			var kinds []string
			for _, name := range root.Types.Scope().Names() {
				if cst, ok := root.Types.Scope().Lookup(name).(*types.Const); ok && namedName(cst.Type()) == "MessageType" {
					kinds = append(kinds, name)
				}
			}
			sort.Strings(kinds)
			for _, k := range kinds {
				r.Sites++
				if decoded[k] {
					r.ok("the message decoder has an arm for " + k)
				} else {
					r.fail("message.DecodeBinary/arm:"+k, c.Prog.Pos(c.messageDecoder().Decl), "the message decoder has no arm for "+k+": a payload of that kind can be encoded (and hashed, and signed) but every attempt to decode it fails — the codec is not faithful for that kind")
				}
			}
		}
	}
	// reconstructions
	makers := c.payloadMakers()
	if len(makers) == 0 {
		r.unresolved("function building a *Payload from a kind and a body (role of fromPayload)")
	}
	stampViaMaker := false
	getters := map[string]string{"GetPrepareRequest": "PrepareRequestType", "GetPrepareResponses": "PrepareResponseType", "GetChangeViews": "ChangeViewType", "GetPreCommits": "PreCommitType", "GetCommits": "CommitType"}
	for g, kind := range getters {
		fn := c.recoveryImpl(g)
		r.Sites++
		if fn == nil {
			r.unresolved("recoveryMessage." + g)
			continue
		}
		gi := fn.Pkg.TypesInfo
		usedKind, usedBody, readsField := "", "", map[string]bool{}
		var lit *ast.CompositeLit
		ast.Inspect(fn.Decl.Body, func(n ast.Node) bool {
			switch x := n.(type) {
			case *ast.CallExpr:
				var pm payloadMaker
				isMaker := false
				if fo, ok := typeutil.Callee(gi, x).(*types.Func); ok {
					if t := c.Prog.Funcs[fo.Origin()]; t != nil {
						pm, isMaker = makers[t]
					}
				}
				if isMaker && pm.kind < len(x.Args) && pm.body < len(x.Args) {
					usedKind = constName(gi, x.Args[pm.kind])
					if pm.vidx >= 0 && pm.vidx < len(x.Args) && g == "GetPrepareRequest" && len(fn.Params) == 3 {
						if id, ok := ast.Unparen(x.Args[pm.vidx]).(*ast.Ident); ok && gi.Uses[id] == fn.Params[2] {
							stampViaMaker = true
						}
					}
					bodyArg := ast.Unparen(x.Args[pm.body])
					// (the body may be built into a local first)
					if id, ok := bodyArg.(*ast.Ident); ok {
						obj := gi.Uses[id]
						ast.Inspect(fn.Decl.Body, func(m ast.Node) bool {
							if as, ok := m.(*ast.AssignStmt); ok && len(as.Lhs) == len(as.Rhs) {
								for i, lhs := range as.Lhs {
									if lid, ok := lhs.(*ast.Ident); ok && (gi.Defs[lid] == obj || gi.Uses[lid] == obj) && obj != nil {
										bodyArg = ast.Unparen(as.Rhs[i])
									}
								}
							}
							return true
						})
					}
					if u, ok := bodyArg.(*ast.UnaryExpr); ok {
						if cl, ok := u.X.(*ast.CompositeLit); ok {
							lit = cl
							if t, ok := cl.Type.(*ast.Ident); ok {
								usedBody = t.Name
							}
						}
					}
				}
			case *ast.SelectorExpr:
				if id, ok := x.X.(*ast.Ident); ok && fn.RecvVar != nil && gi.Uses[id] == fn.RecvVar {
					readsField[x.Sel.Name] = true
				}
			}
			return true
		})
		bad := ""
		switch {
		case usedKind != kind:
			bad = "rebuilds payloads of kind " + usedKind + " instead of " + kind
		case bodyOf[kind] != "" && usedBody != bodyOf[kind]:
			bad = "rebuilds the body as " + usedBody + " but the decoder uses " + bodyOf[kind] + " for " + kind
		case !readsAny(readsField, armField[kind]):
			bad = "does not read " + armField[kind] + ", the list AddPayload fills for " + kind
		}
		// every field of the body type is set in the literal (or exempt)
		if bad == "" && lit != nil {
			st := c.Prog.Structs["internal/consensus:"+usedBody]
			set := map[string]bool{}
			for _, el := range lit.Elts {
				if kv, ok := el.(*ast.KeyValueExpr); ok {
					if id, ok := kv.Key.(*ast.Ident); ok {
						set[id.Name] = true
					}
				}
			}
			if st != nil {
				for i := 0; i < st.NumFields(); i++ {
					if !set[st.Field(i).Name()] {
						bad = "the rebuilt " + usedBody + " leaves field " + st.Field(i).Name() + " unset (its hash input differs from the original's)"
					}
				}
			}
		}
		if bad == "" {
			r.ok(g + ": kind " + kind + ", body " + usedBody + ", list " + armField[kind] + ", all body fields copied")
		} else {
			r.fail("recoveryMessage."+g+"/reconstruction", c.Prog.Pos(fn.Decl), g+" "+bad)
		}
	}
	// what AddPayload notes down about a payload is what the reconstruction is made from: every field of a compact form
	// that the packing side fills is read by the Get* that unpacks that list (a stored original view that is never read
	// back means the rebuilt (pre)commits carry the view of the recovery message instead of their own)
	{
		filled := map[string]map[string]bool{} // compact type -> fields given a value in AddPayload's cluster
		for _, mem := range c.clusterFns(add) {
			minfo := mem.Pkg.TypesInfo
			ast.Inspect(mem.Decl.Body, func(n ast.Node) bool {
				cl, ok := n.(*ast.CompositeLit)
				if !ok {
					return true
				}
				tn := namedName(minfo.TypeOf(cl))
				if !strings.HasSuffix(tn, "Compact") {
					return true
				}
				if filled[tn] == nil {
					filled[tn] = map[string]bool{}
				}
				for _, el := range cl.Elts {
					if kv, ok := el.(*ast.KeyValueExpr); ok {
						if id, ok := kv.Key.(*ast.Ident); ok {
							filled[tn][id.Name] = true
						}
					}
				}
				return true
			})
		}
		// ... and a field that notes down a property of the payload's envelope (`F: p.ViewNumber()`) is put back into
		// that property of the rebuilt payload: what is unpacked is packed again when the receiver relays it in its own
		// recovery message, so a ChangeView that comes out with the recovery message's view instead of its own goes out
		// one view higher at every hop
		packedFrom := map[string]map[string]string{} // compact type -> field -> envelope getter it was taken from
		for _, mem := range c.clusterFns(add) {
			minfo := mem.Pkg.TypesInfo
			if len(add.Params) != 1 {
				break
			}
			ast.Inspect(mem.Decl.Body, func(n ast.Node) bool {
				cl, ok := n.(*ast.CompositeLit)
				if !ok {
					return true
				}
				tn := namedName(minfo.TypeOf(cl))
				if !strings.HasSuffix(tn, "Compact") {
					return true
				}
				for _, el := range cl.Elts {
					kv, ok := el.(*ast.KeyValueExpr)
					if !ok {
						continue
					}
					key, _ := kv.Key.(*ast.Ident)
					call, _ := ast.Unparen(kv.Value).(*ast.CallExpr)
					if key == nil || call == nil || len(call.Args) != 0 {
						continue
					}
					if sel, ok := ast.Unparen(call.Fun).(*ast.SelectorExpr); ok {
						if id, ok := ast.Unparen(sel.X).(*ast.Ident); ok && minfo.Uses[id] == types.Object(add.Params[0]) {
							if packedFrom[tn] == nil {
								packedFrom[tn] = map[string]string{}
							}
							packedFrom[tn][key.Name] = sel.Sel.Name
						}
					}
				}
				return true
			})
		}
		// envelope getters / setters of the reference payload: `func (…) G() T { return recv.f }`, `func (…) S(x T) { recv.f = x }`
		getterField, setterField := map[string]string{}, map[string]string{}
		for _, fn := range c.Prog.sortedFuncs() {
			if fn.Pkg.PkgPath != consPath || fn.Decl == nil || fn.Decl.Body == nil || fn.RecvVar == nil || len(fn.Decl.Body.List) != 1 {
				continue
			}
			if fn.Recv != "Payload" && fn.Recv != "message" {
				continue
			}
			switch st := fn.Decl.Body.List[0].(type) {
			case *ast.ReturnStmt:
				if len(st.Results) == 1 && len(fn.Params) == 0 {
					if sel, ok := ast.Unparen(st.Results[0]).(*ast.SelectorExpr); ok {
						if id, ok := ast.Unparen(sel.X).(*ast.Ident); ok && fn.Pkg.TypesInfo.Uses[id] == types.Object(fn.RecvVar) {
							getterField[fn.Decl.Name.Name] = sel.Sel.Name
						}
					}
				}
			case *ast.AssignStmt:
				if len(st.Lhs) == 1 && len(st.Rhs) == 1 && len(fn.Params) == 1 {
					if sel, ok := ast.Unparen(st.Lhs[0]).(*ast.SelectorExpr); ok {
						if rid, ok := ast.Unparen(st.Rhs[0]).(*ast.Ident); ok && fn.Pkg.TypesInfo.Uses[rid] == types.Object(fn.Params[0]) {
							setterField[fn.Decl.Name.Name] = sel.Sel.Name
						}
					}
				}
			}
		}
		mentions := func(info *types.Info, e ast.Expr, tn, f string) bool {
			found := false
			ast.Inspect(e, func(n ast.Node) bool {
				if sel, ok := n.(*ast.SelectorExpr); ok && sel.Sel.Name == f {
					if sl := info.Selections[sel]; sl != nil && sl.Kind() == types.FieldVal && namedName(sl.Recv()) == tn {
						found = true
					}
				}
				return !found
			})
			return found
		}
		for g := range map[string]bool{"GetPrepareResponses": true, "GetChangeViews": true, "GetPreCommits": true, "GetCommits": true} {
			fn := c.recoveryImpl(g)
			if fn == nil {
				continue
			}
			ginfo := fn.Pkg.TypesInfo
			for tn, fs := range packedFrom {
				var names []string
				for f := range fs {
					names = append(names, f)
				}
				sort.Strings(names)
				for _, f := range names {
					envField := getterField[fs[f]]
					if envField == "" {
						continue
					}
					usesType, putBack := false, false
					for _, mem := range c.clusterFns(fn) {
						minfo := mem.Pkg.TypesInfo
						ast.Inspect(mem.Decl.Body, func(n ast.Node) bool {
							switch x := n.(type) {
							case *ast.SelectorExpr:
								if sl := minfo.Selections[x]; sl != nil && sl.Kind() == types.FieldVal && namedName(sl.Recv()) == tn {
									usesType = true
								}
							case *ast.AssignStmt:
								for i, lhs := range x.Lhs {
									if sel, ok := ast.Unparen(lhs).(*ast.SelectorExpr); ok && sel.Sel.Name == envField && i < len(x.Rhs) && mentions(minfo, x.Rhs[i], tn, f) {
										putBack = true
									}
								}
							case *ast.CallExpr:
								if sel, ok := ast.Unparen(x.Fun).(*ast.SelectorExpr); ok && setterField[sel.Sel.Name] == envField && len(x.Args) == 1 && mentions(minfo, x.Args[0], tn, f) {
									putBack = true
								}
								// handed to a helper that puts its parameter there (a maker taking the sender's index, say)
								if fo, ok := typeutil.Callee(minfo, x).(*types.Func); ok {
									if callee := c.Prog.Funcs[fo.Origin()]; callee != nil && callee.Decl != nil && callee.Decl.Body != nil {
										for ai, a := range x.Args {
											if ai < len(callee.Params) && mentions(minfo, a, tn, f) && paramReaches(callee, callee.Params[ai], envField, setterField) {
												putBack = true
											}
										}
									}
								}
							case *ast.KeyValueExpr:
								if id, ok := x.Key.(*ast.Ident); ok && id.Name == envField && mentions(minfo, x.Value, tn, f) {
									putBack = true
								}
							}
							return true
						})
					}
					if !usesType {
						continue
					}
					r.Sites++
					if putBack {
						r.ok(fmt.Sprintf("%s: %s.%s (taken from the payload's %s()) is put back into the rebuilt payload's %s", g, tn, f, fs[f], envField))
					} else {
						r.fail("recoveryMessage."+g+"/compact-roundtrip:"+f, c.Prog.Pos(fn.Decl), fmt.Sprintf("AddPayload notes the payload's %s() down in %s.%s, but %s does not give it back to the rebuilt payload's %s: the payload comes out with the recovery message's value, and when its receiver relays it in a recovery message of its own that value is packed as the original — for a ChangeView the requested view grows by one at every hop, and nodes enter a view nobody asked for", fs[f], tn, f, g, envField))
					}
				}
			}
			read := map[string]map[string]bool{}
			for _, mem := range c.clusterFns(fn) {
				ast.Inspect(mem.Decl.Body, func(n ast.Node) bool {
					sel, ok := n.(*ast.SelectorExpr)
					if !ok {
						return true
					}
					if sl := mem.Pkg.TypesInfo.Selections[sel]; sl != nil && sl.Kind() == types.FieldVal {
						tn := namedName(sl.Recv())
						if strings.HasSuffix(tn, "Compact") {
							if read[tn] == nil {
								read[tn] = map[string]bool{}
							}
							read[tn][sel.Sel.Name] = true
						}
					}
					return true
				})
			}
			_ = ginfo
			for tn, fs := range read {
				var names []string
				for f := range filled[tn] {
					names = append(names, f)
				}
				sort.Strings(names)
				for _, f := range names {
					r.Sites++
					if fs[f] {
						r.ok(g + ": " + tn + "." + f + " is read back")
					} else {
						r.fail("recoveryMessage."+g+"/compact-field:"+f, c.Prog.Pos(fn.Decl), g+" never reads "+tn+"."+f+", which AddPayload stores: the rebuilt payloads do not carry it (a (pre)commit packed at an earlier view comes out as one of the recovery message's view and is counted as a current-view one)")
					}
				}
			}
		}
	}
	// the wrapper rebuilt around the body: every field of Payload that the encoder writes (and that therefore enters the
	// hash) is given a value by the maker's literal or by a setter of Payload that the maker or its callers call —
	// a rebuilt proposal whose envelope differs from the original's hashes differently, and the responses no longer match
	if pst := c.Prog.Structs["internal/consensus:Payload"]; pst != nil {
		hashed := map[string]bool{}
		if enc := c.Prog.ByName["internal/consensus:Payload.EncodeBinary"]; enc != nil {
			for _, e := range c.exitsOf(enc) {
				for loc := range e.ReadSeen {
					if strings.HasPrefix(loc, "recv.") {
						hashed[strings.TrimPrefix(loc, "recv.")] = true
					}
				}
			}
		}
		// setters: methods of Payload writing exactly that field from a parameter
		setterOf := map[string]string{}
		for _, fn := range c.Prog.sortedFuncs() {
			if fn.Pkg.PkgPath != consPath || fn.Recv != "Payload" || len(fn.Params) != 1 {
				continue
			}
			for _, st := range c.A.FnSites[fn] {
				if st.Kind == "write" && strings.HasPrefix(st.Loc, "recv.") {
					setterOf[strings.TrimPrefix(st.Loc, "recv.")] = strings.TrimPrefix(fn.Name, "Payload.")
				}
			}
		}
		for mk := range makers {
			var lit *ast.CompositeLit
			ast.Inspect(mk.Decl.Body, func(n ast.Node) bool {
				if cl, ok := n.(*ast.CompositeLit); ok && lit == nil && namedName(mk.Pkg.TypesInfo.TypeOf(cl)) == "Payload" {
					lit = cl
				}
				return true
			})
			if lit == nil {
				continue // forwards to another maker
			}
			set := map[string]bool{}
			for _, el := range lit.Elts {
				if kv, ok := el.(*ast.KeyValueExpr); ok {
					if id, ok := kv.Key.(*ast.Ident); ok {
						set[id.Name] = true
					}
				}
			}
			// ... or by an assignment to a field of the object under construction in the maker itself
			ast.Inspect(mk.Decl.Body, func(n ast.Node) bool {
				if as, ok := n.(*ast.AssignStmt); ok {
					for _, l := range as.Lhs {
						if sel, ok := ast.Unparen(l).(*ast.SelectorExpr); ok {
							if sl := mk.Pkg.TypesInfo.Selections[sel]; sl != nil && sl.Kind() == types.FieldVal && namedName(sl.Recv()) == "Payload" {
								set[sel.Sel.Name] = true
							}
						}
					}
				}
				return true
			})
			callsSetter := func(name string) bool {
				found := false
				for _, fn := range c.Prog.sortedFuncs() {
					if fn.Pkg.PkgPath != consPath {
						continue
					}
					usesMaker, calls := fn == mk, false
					ast.Inspect(fn.Decl.Body, func(n ast.Node) bool {
						if call, ok := n.(*ast.CallExpr); ok {
							if fo, ok := typeutil.Callee(fn.Pkg.TypesInfo, call).(*types.Func); ok {
								if t := c.Prog.Funcs[fo.Origin()]; t == mk {
									usesMaker = true
								}
								if fo.Name() == name {
									calls = true
								}
							}
						}
						return true
					})
					if usesMaker && calls {
						found = true
					}
				}
				return found
			}
			for i := 0; i < pst.NumFields(); i++ {
				f := pst.Field(i)
				if !hashed[f.Name()] || f.Embedded() && set[f.Name()] {
					continue
				}
				r.Sites++
				switch {
				case set[f.Name()]:
					r.ok(mk.Name + ": the rebuilt wrapper's " + f.Name() + " is set")
				case setterOf[f.Name()] != "" && callsSetter(setterOf[f.Name()]):
					r.ok(mk.Name + ": the rebuilt wrapper's " + f.Name() + " is set through " + setterOf[f.Name()])
				default:
					r.fail(mk.Name+"/envelope:"+f.Name(), c.Prog.Pos(lit), "a payload rebuilt from a recovery message leaves the wrapper field "+f.Name()+" at its zero value although the encoder writes it (it enters the hash): for an original with another "+f.Name()+" the rebuilt proposal hashes differently and the rebuilt responses do not match it")
				}
			}
		}
	}
	// the rebuilt proposal is stamped with the primary index
	r.Sites++
	if fn := c.recoveryImpl("GetPrepareRequest"); fn != nil && len(fn.Params) == 3 {
		okStamp := stampViaMaker
		for _, s := range c.A.FnSites[fn] {
			if s.Kind == "call" && strings.HasSuffix(s.Callee, "SetValidatorIndex") {
				for _, sn := range s.Snaps {
					if len(sn.Args) == 1 && sn.Args[0].S == "p:"+fn.Params[2].Name() {
						okStamp = true
					}
				}
			}
		}
		if okStamp {
			r.ok("GetPrepareRequest stamps the rebuilt proposal with the primary index argument")
		} else {
			r.fail("recoveryMessage.GetPrepareRequest/stamp", c.Prog.Pos(fn.Decl), "the rebuilt proposal is not stamped with the primary's validator index (its hash would differ from the original's)")
		}
	}
	return r
}

// payloadMaker describes a function of internal/consensus that builds a *Payload of a kind given as a parameter around
// a body given as a parameter (the role of fromPayload), directly or by forwarding both to another maker.
type payloadMaker struct {
	kind, body, vidx int // parameter positions; vidx: parameter handed to SetValidatorIndex (or -1)
}

func (c *RC) payloadMakers() map[*FuncInfo]payloadMaker {
	out := map[*FuncInfo]payloadMaker{}
	var cands []*FuncInfo
	for _, fn := range c.Prog.sortedFuncs() {
		if fn.Pkg.PkgPath != modPath+"/internal/consensus" || fn.RecvVar != nil {
			continue
		}
		sig := fn.Obj.Type().(*types.Signature)
		if sig.Results().Len() != 1 || namedName(sig.Results().At(0).Type()) != "Payload" {
			continue
		}
		cands = append(cands, fn)
	}
	paramIdx := func(fn *FuncInfo, e ast.Expr) int {
		id, ok := ast.Unparen(e).(*ast.Ident)
		if !ok {
			return -1
		}
		for i, p := range fn.Params {
			if fn.Pkg.TypesInfo.Uses[id] == p {
				return i
			}
		}
		return -1
	}
	for round := 0; round < 3; round++ {
		for _, fn := range cands {
			if _, done := out[fn]; done {
				continue
			}
			pm := payloadMaker{-1, -1, -1}
			info := fn.Pkg.TypesInfo
			ast.Inspect(fn.Decl.Body, func(n ast.Node) bool {
				switch x := n.(type) {
				case *ast.KeyValueExpr:
					k, _ := x.Key.(*ast.Ident)
					if k == nil {
						return true
					}
					if i := paramIdx(fn, x.Value); i >= 0 {
						switch namedName(fn.Params[i].Type()) {
						case "MessageType":
							pm.kind = i
						case "Serializable":
							pm.body = i
						}
						// the sender's index given as a parameter and written into the envelope's index field
						if k.Name == "validatorIndex" {
							pm.vidx = i
						}
					}
				case *ast.CallExpr:
					if fo, ok := typeutil.Callee(info, x).(*types.Func); ok {
						if t := c.Prog.Funcs[fo.Origin()]; t != nil {
							if sub, ok := out[t]; ok && sub.kind < len(x.Args) && sub.body < len(x.Args) {
								if i := paramIdx(fn, x.Args[sub.kind]); i >= 0 {
									pm.kind = i
								}
								if i := paramIdx(fn, x.Args[sub.body]); i >= 0 {
									pm.body = i
								}
								if sub.vidx >= 0 && sub.vidx < len(x.Args) {
									if i := paramIdx(fn, x.Args[sub.vidx]); i >= 0 {
										pm.vidx = i
									}
								}
							}
						}
						if fo.Name() == "SetValidatorIndex" && len(x.Args) == 1 {
							if i := paramIdx(fn, x.Args[0]); i >= 0 {
								pm.vidx = i
							}
						}
					}
				}
				return true
			})
			if pm.kind >= 0 && pm.body >= 0 {
				out[fn] = pm
			}
		}
	}
	return out
}

// A-HASH-INPUT
func ruleHashInput(c *RC) *RuleResult {
	r := &RuleResult{Rule: "A-HASH-INPUT", Kind: "PROV", Doc: "Payload.Hash ≡ Hash256(MarshalUnsigned()) (or the cache); MarshalUnsigned encodes the whole payload; block Hash/Sign/Verify feed GetHashData, which encodes the embedded base and never reads the signature"}
	calls := func(fn *FuncInfo, callee string) bool {
		for _, s := range c.A.FnSites[fn] {
			if s.Kind == "call" && strings.Contains(s.Callee, callee) {
				return true
			}
		}
		return false
	}
	// encodes: fn runs EncodeBinary of its receiver, directly or through a helper that invokes the method on the
	// parameter the receiver is passed as
	var encodesVia func(fn *FuncInfo, callee string, depth int) bool
	encodes := func(fn *FuncInfo, callee string) bool { return encodesVia(fn, callee, 0) }
	encodesVia = func(fn *FuncInfo, callee string, depth int) bool {
		if calls(fn, callee) {
			return true
		}
		// a method of the receiver or of a part of it ("b.base.hashData()") that does the encoding
		if depth < 3 {
			for _, s := range c.A.FnSites[fn] {
				if s.Kind != "call" || s.Target == nil || s.Target == fn || s.Target.Pkg.PkgPath != consPath || s.Target.RecvVar == nil {
					continue
				}
				onRecv := false
				for _, sn := range s.Snaps {
					if sn.Recv != nil && (sn.Recv == rootRecv || sn.Recv.S == rootRecv.S || strings.HasPrefix(sn.Recv.S, rootRecv.S+".") || sn.Recv.S == "recv" || strings.HasPrefix(sn.Recv.S, "recv.")) {
						onRecv = true
					}
				}
				if onRecv && encodesVia(s.Target, callee, depth+1) {
					return true
				}
			}
		}
		for _, s := range c.A.FnSites[fn] {
			if s.Kind != "call" || s.Target == nil || s.Target.Pkg.PkgPath != consPath {
				continue
			}
			for j := range c.invokesOnParam(s.Target, "EncodeBinary") {
				for _, sn := range s.Snaps {
					if j < len(sn.Args) && sn.Args[j] != nil && (sn.Args[j] == rootRecv || sn.Args[j].S == rootRecv.S) {
						return true
					}
				}
			}
		}
		return false
	}
	ph := c.Prog.ByName["internal/consensus:Payload.Hash"]
	mu := c.Prog.ByName["internal/consensus:Payload.MarshalUnsigned"]
	r.Sites++
	if ph == nil || mu == nil {
		r.unresolved("Payload.Hash / Payload.MarshalUnsigned")
	} else if calls(ph, "Payload.MarshalUnsigned") && calls(ph, "crypto:Hash256") && encodes(mu, "Payload.EncodeBinary") {
		r.ok("Payload.Hash = Hash256(MarshalUnsigned()), MarshalUnsigned = gob(EncodeBinary)")
	} else {
		r.fail("Payload.Hash/input", c.Prog.Pos(ph.Decl), "Payload.Hash does not hash the full unsigned encoding")
	}
	// the hash cache is written only by Hash itself or cleared by setters
	for _, fn := range c.Prog.sortedFuncs() {
		if fn.Pkg.PkgPath != consPath || fn.Recv != "Payload" {
			continue
		}
		for _, s := range c.A.FnSites[fn] {
			if s.Kind == "write" && s.Loc == "recv."+c.hashCacheFieldOr("Payload", "hash") && fn != ph {
				for _, sn := range s.Snaps {
					r.Sites++
					if sn.Val != nil && sn.Val.K == KNil {
						r.ok(fn.Name + " invalidates the hash cache")
					} else {
						r.fail(fn.Name+"/hash-cache", c.Prog.Pos(s.Node), "the hash cache is written outside Hash()")
					}
				}
			}
		}
	}
	// setters of hashed fields must not leave a stale cache: cache is never set (pinned) or setters clear it
	if ph != nil {
		setsCache := false
		for _, s := range c.A.FnSites[ph] {
			if s.Kind == "write" && s.Loc == "recv."+c.hashCacheFieldOr("Payload", "hash") {
				setsCache = true
			}
		}
		if setsCache {
			for _, fn := range c.Prog.sortedFuncs() {
				if fn.Pkg.PkgPath != consPath || fn.Recv != "Payload" || !strings.HasPrefix(strings.TrimPrefix(fn.Name, "Payload."), "Set") {
					continue
				}
				r.Sites++
				clears := false
				for _, s := range c.A.FnSites[fn] {
					if s.Kind == "write" && s.Loc == "recv."+c.hashCacheFieldOr("Payload", "hash") {
						clears = true
					}
				}
				if clears {
					r.ok(fn.Name + " clears the cached hash")
				} else {
					r.fail(fn.Name+"/stale-hash", c.Prog.Pos(fn.Decl), "setter changes a hashed field but leaves the cached hash")
				}
			}
			// a memo on the wrapper is sound only if nothing it hashes can change behind its back: the body is held by
			// reference, so a body type with a mutating method (a pointer-receiver method other than the decoder that
			// writes a receiver field, e.g. the recovery message's AddPayload) makes the memo go stale — the hash then no
			// longer follows the content
			for _, fn := range c.Prog.sortedFuncs() {
				if fn.Pkg.PkgPath != consPath || fn.Recv == "" || fn.Recv == "Payload" || fn.RecvVar == nil {
					continue
				}
				if _, isPtr := fn.RecvVar.Type().(*types.Pointer); !isPtr {
					continue
				}
				short := strings.TrimPrefix(fn.Name, fn.Recv+".")
				if short == "DecodeBinary" || c.Prog.ByName["internal/consensus:"+fn.Recv+".EncodeBinary"] == nil || !c.isBodyType(fn.Recv) {
					continue
				}
				for _, s := range c.A.FnSites[fn] {
					if s.Kind == "write" && strings.HasPrefix(s.Loc, "recv.") {
						r.Sites++
						r.fail("Payload.Hash/memo-with-mutable-body:"+fn.Name, c.Prog.Pos(s.Node), "Payload.Hash memoises its result, but the body it hashes is held by reference and "+fn.Name+" changes it after the payload was built: the cached hash no longer follows the content")
						break
					}
				}
			}
		}
	}
	// a memoised hash is a digest: wherever a field of type "pointer to a hash" of a payload or block type is given a
	// non-nil value, a digest has been computed on the way (a cached "no hash yet" would stick for ever)
	{
		nmemo := 0
		// the functions a Hash() method is made of
		hashers := map[*FuncInfo]bool{}
		var addH func(f *FuncInfo, depth int)
		addH = func(f *FuncInfo, depth int) {
			if hashers[f] || depth > 2 {
				return
			}
			hashers[f] = true
			for _, st := range c.A.FnSites[f] {
				if st.Kind == "call" && st.Target != nil && st.Target.Pkg.PkgPath == consPath {
					addH(st.Target, depth+1)
				}
			}
		}
		for _, fn := range c.Prog.sortedFuncs() {
			if fn.Pkg.PkgPath == consPath && fn.RecvVar != nil && strings.HasSuffix(fn.Name, ".Hash") {
				addH(fn, 0)
			}
		}
		for _, fn := range c.Prog.sortedFuncs() {
			if fn.Pkg.PkgPath != consPath || fn.RecvVar == nil || !hashers[fn] {
				continue
			}
			for _, st := range c.A.FnSites[fn] {
				if st.Kind != "write" || !strings.HasPrefix(st.Loc, "recv.") || strings.Count(st.Loc, ".") != 1 {
					continue
				}
				if !c.isHashMemoField(fn.Recv, strings.TrimPrefix(st.Loc, "recv.")) {
					continue
				}
				for _, sn := range st.Snaps {
					if sn.Val != nil && sn.Val.K == KNil {
						continue
					}
					nmemo++
					r.Sites++
					digest := false
					for ev := range sn.Events {
						if strings.Contains(ev, "crypto:Hash") || strings.Contains(ev, "crypto/sha") {
							digest = true
						}
					}
					if digest {
						r.ok(fn.Name + ": the memoised hash is stored after a digest was computed")
					} else {
						r.fail(fn.Name+"/memo-without-digest", c.Prog.Pos(st.Node), "the hash memo of "+fn.Recv+" is given a value on a path that has not computed a digest {"+sn.Trail+"}: a placeholder (the zero hash of an incomplete object) is cached and returned for ever after")
					}
				}
			}
		}
		_ = nmemo // no memo at all is fine
	}
	// blocks
	// block types: whatever type of the package has a GetHashData method (directly or through an embedded part)
	var blockTypes []string
	seenBT := map[string]bool{}
	for _, fn := range c.Prog.sortedFuncs() {
		if fn.Pkg.PkgPath == consPath && fn.Recv != "" && strings.HasSuffix(fn.Name, ".GetHashData") && !seenBT[fn.Recv] {
			seenBT[fn.Recv] = true
			blockTypes = append(blockTypes, fn.Recv)
		}
	}
	if len(blockTypes) < 1 {
		r.unresolved(fmt.Sprintf("block types with a GetHashData method (found %d)", len(blockTypes)))
	}
	for _, bt := range blockTypes {
		ghd := c.Prog.ByName["internal/consensus:"+bt+".GetHashData"]
		if ghd == nil {
			continue
		}
		r.Sites++
		bad := ""
		for _, e := range c.exitsOf(ghd) {
			sigF, dataF := "signature", "data"
			for f, ms := range c.fieldGetters() {
				if ms["Signature"] {
					sigF = f
				}
				if ms["Data"] {
					dataF = f
				}
			}
			if e.ReadSeen["recv."+sigF] || e.ReadSeen["recv."+dataF] {
				bad = "GetHashData reads the signature/data field"
			}
		}
		if !encodes(ghd, "EncodeBinary") {
			bad = "GetHashData does not encode the block header"
		}
		for _, m := range []string{"Hash", "Sign", "Verify", "SetData"} {
			fn := c.Prog.ByName["internal/consensus:"+bt+"."+m]
			if fn == nil {
				continue
			}
			if !calls(fn, bt+".GetHashData") && !(m == "SetData" || m == "Verify" && bt == "preBlock") {
				bad = m + " does not use GetHashData"
			}
		}
		if bad == "" {
			r.ok(bt + ": Hash/Sign/Verify all use GetHashData (header only, no signature)")
		} else {
			r.fail(bt+"/hash-data", c.Prog.Pos(ghd.Decl), bad)
		}
	}
	return r
}

// P-CTOR
// ctorRoles: constructor parameter -> the public accessor through which the value must come back (or the exported
// field it lands in). The private field in between is found, not named.
var ctorRoles = map[string]map[string]string{
	"NewBlock":            {"timestamp": "Timestamp", "index": "Index", "prevHash": "PrevHash", "nonce": "ConsensusData", "txHashes": "MerkleRoot"},
	"NewConsensusPayload": {"t": "Type", "height": "Height", "validatorIndex": "ValidatorIndex", "viewNumber": "ViewNumber", "consensusMessage": "Payload"},
	"NewPrepareRequest":   {"ts": "Timestamp", "nonce": "Nonce", "transactionsHashes": "TransactionHashes"},
	"NewPrepareResponse":  {"preparationHash": "PreparationHash"},
	"NewChangeView":       {"newViewNumber": "NewViewNumber", "ts": "Timestamp"},
	"NewRecoveryRequest":  {"ts": "Timestamp"},
}

// hashCacheField: the memo of type tn's Hash method — the receiver field Hash() mentions whose type is the result type
// of Hash (or a pointer to it); "" if none.
func (c *RC) hashCacheField(tn string) string {
	h := c.Prog.ByName["internal/consensus:"+tn+".Hash"]
	if h == nil || h.RecvVar == nil {
		return ""
	}
	sig := h.Obj.Type().(*types.Signature)
	if sig.Results().Len() != 1 {
		return ""
	}
	rt := sig.Results().At(0).Type()
	info := h.Pkg.TypesInfo
	out := ""
	ast.Inspect(h.Decl.Body, func(n ast.Node) bool {
		if sel, ok := n.(*ast.SelectorExpr); ok {
			if s := info.Selections[sel]; s != nil && s.Kind() == types.FieldVal {
				if id, ok := ast.Unparen(sel.X).(*ast.Ident); ok && info.Uses[id] == h.RecvVar {
					ft := s.Obj().Type()
					if p, ok := ft.(*types.Pointer); ok {
						ft = p.Elem()
					}
					if types.Identical(ft, rt) {
						out = sel.Sel.Name
					}
				}
			}
		}
		return true
	})
	return out
}

func (c *RC) hashCacheFieldOr(tn, dflt string) string {
	if f := c.hashCacheField(tn); f != "" {
		return f
	}
	return dflt
}

// fieldGetters: private field name -> public no-argument methods of internal/consensus whose single return expression
// reads exactly that field of the receiver.
func (c *RC) fieldGetters() map[string]map[string]bool {
	out := map[string]map[string]bool{}
	for _, fn := range c.Prog.sortedFuncs() {
		if fn.Pkg.PkgPath != consPath || fn.RecvVar == nil || len(fn.Params) != 0 || len(fn.Decl.Body.List) != 1 {
			continue
		}
		rs, ok := fn.Decl.Body.List[0].(*ast.ReturnStmt)
		if !ok || len(rs.Results) != 1 {
			continue
		}
		info := fn.Pkg.TypesInfo
		var fields []string
		ast.Inspect(rs.Results[0], func(n ast.Node) bool {
			if sel, ok := n.(*ast.SelectorExpr); ok {
				if s := info.Selections[sel]; s != nil && s.Kind() == types.FieldVal {
					if id, ok := ast.Unparen(sel.X).(*ast.Ident); ok && info.Uses[id] == fn.RecvVar {
						fields = append(fields, sel.Sel.Name)
					}
				}
			}
			return true
		})
		if len(fields) == 1 {
			m := fn.Decl.Name.Name
			if out[fields[0]] == nil {
				out[fields[0]] = map[string]bool{}
			}
			out[fields[0]][m] = true
		}
	}
	return out
}

func ruleCtor(c *RC) *RuleResult {
	r := &RuleResult{Rule: "P-CTOR", Kind: "PROV", Doc: "constructors use every named parameter, and same-typed parameters land in the field of their role"}
	n := 0
	getters := c.fieldGetters()
	for _, fn := range c.Prog.sortedFuncs() {
		if fn.Pkg.PkgPath != consPath || fn.Recv != "" || !strings.HasPrefix(fn.Name, "New") {
			continue
		}
		n++
		for _, p := range fn.Params {
			if p.Name() == "_" || p.Name() == "" {
				continue
			}
			r.Sites++
			// destination fields of the parameter (followed into the helpers it is handed to)
			dests, used := c.ctorDests(fn, p, 0)
			want := ctorRoles[fn.Name][p.Name()]
			// the role is met if the destination is the exported field of that name or a field the accessor returns
			if want != "" && !dests[want] {
				for d := range dests {
					if getters[d][want] {
						dests[want] = true
					}
				}
			}
			switch {
			case !used:
				r.fail(fn.Name+"/unused:"+p.Name(), c.Prog.Pos(fn.Decl), "constructor parameter "+p.Name()+" is never used (a blank _ is the explicit opt-out)")
			case want != "" && !dests[want] && !(want == "MerkleRoot" && used):
				var ds []string
				for d := range dests {
					ds = append(ds, d)
				}
				sort.Strings(ds)
				r.fail(fn.Name+"/role:"+p.Name(), c.Prog.Pos(fn.Decl), fmt.Sprintf("parameter %s goes to %v, expected the field that %s() returns", p.Name(), ds, want))
			default:
				r.ok(fn.Name + ": " + p.Name() + " → " + want)
			}
		}
	}
	if n < 8 {
		r.unresolved("constructors in internal/consensus")
	}
	if len(r.Samples) > 4 {
		r.Samples = r.Samples[:4]
	}
	return r
}

func mentions(info *types.Info, e ast.Expr, v *types.Var) bool {
	found := false
	ast.Inspect(e, func(n ast.Node) bool {
		if id, ok := n.(*ast.Ident); ok && info.Uses[id] == v {
			found = true
		}
		return true
	})
	return found
}

// P-SIG (crypto, merkle)
func ruleSig(c *RC) *RuleResult {
	r := &RuleResult{Rule: "P-SIG", Kind: "PROV", Doc: "ECDSA Sign and Verify hash the message with the same function and use the receiver's key; every Merkle node hash computed by a digest depends on the hashes of both children 2i and 2i+1 of the level below"}
	sign := c.Prog.ByName["internal/crypto:ECDSAPriv.Sign"]
	ver := c.Prog.ByName["internal/crypto:ECDSAPub.Verify"]
	r.Sites++
	if sign == nil || ver == nil {
		r.unresolved("ECDSAPriv.Sign / ECDSAPub.Verify")
	} else {
		// the digest computations a function performs, helpers of package crypto expanded to what they do themselves
		// (so that a pass-through helper is nothing and a double hash is two)
		var expand func(fn *FuncInfo, depth int) []string
		expand = func(fn *FuncInfo, depth int) []string {
			var out []string
			for _, s := range c.A.FnSites[fn] {
				if s.Kind != "call" {
					continue
				}
				if s.Target != nil && s.Target != fn && depth < 4 && strings.HasSuffix(s.Target.Pkg.PkgPath, "/internal/crypto") {
					out = append(out, expand(s.Target, depth+1)...)
					continue
				}
				if strings.Contains(s.Callee, "sha256") || strings.Contains(s.Callee, "Hash256") || strings.Contains(s.Callee, "Hash160") || strings.Contains(s.Callee, "sha512") || strings.Contains(s.Callee, "ripemd") {
					out = append(out, s.Callee)
				}
			}
			return out
		}
		hs := func(fn *FuncInfo) []string {
			out := expand(fn, 0)
			sort.Strings(out)
			return out
		}
		a, b := strings.Join(hs(sign), ","), strings.Join(hs(ver), ",")
		if a != "" && a == b {
			r.ok("Sign and Verify both digest with " + a)
		} else {
			r.fail("ECDSA/digest-mismatch", c.Prog.Pos(sign.Decl), "Sign digests with ["+a+"] but Verify with ["+b+"]")
		}
		// Verify uses the receiver's key
		r.Sites++
		okKey := false
		for _, s := range c.A.FnSites[ver] {
			if s.Kind == "call" && strings.Contains(s.Callee, "ecdsa.Verify") {
				for _, sn := range s.Snaps {
					if len(sn.Args) > 0 && strings.HasPrefix(sn.Args[0].S, "recv.") {
						okKey = true
					}
				}
			}
		}
		if okKey {
			r.ok("Verify checks under the receiver's public key")
		} else {
			r.fail("ECDSAPub.Verify/key", c.Prog.Pos(ver.Decl), "Verify does not use the receiver's key")
		}
	}
	// merkle: every node hash computed by a digest depends on the hashes of both children (merkledeps.go)
	c.ruleMerkleDeps(r)
	return r
}

func exprText(e ast.Expr) string {
	switch x := e.(type) {
	case *ast.Ident:
		return x.Name
	case *ast.SelectorExpr:
		return exprText(x.X) + "." + x.Sel.Name
	case *ast.SliceExpr:
		lo, hi := "", ""
		if x.Low != nil {
			lo = exprText(x.Low)
		}
		if x.High != nil {
			hi = exprText(x.High)
		}
		return exprText(x.X) + "[" + lo + ":" + hi + "]"
	case *ast.IndexExpr:
		return exprText(x.X) + "[" + exprText(x.Index) + "]"
	case *ast.CallExpr:
		var as []string
		for _, a := range x.Args {
			as = append(as, exprText(a))
		}
		return exprText(x.Fun) + "(" + strings.Join(as, ",") + ")"
	case *ast.BasicLit:
		return x.Value
	case *ast.BinaryExpr:
		return exprText(x.X) + x.Op.String() + exprText(x.Y)
	case *ast.UnaryExpr:
		return x.Op.String() + exprText(x.X)
	case *ast.ParenExpr:
		return exprText(x.X)
	}
	return "?"
}

// isBodyType: the named type tn of the reference payload package is a message body — a pointer to it implements the
// interface returned by one of the wrapper's Get* accessors (ChangeView, PrepareRequest, …, RecoveryMessage).
func (c *RC) isBodyType(tn string) bool {
	pkg := c.Prog.Pkgs["internal/consensus"]
	if pkg == nil {
		return false
	}
	obj, _ := pkg.Types.Scope().Lookup(tn).(*types.TypeName)
	if obj == nil {
		return false
	}
	pt := types.NewPointer(obj.Type())
	for _, fn := range c.Prog.sortedFuncs() {
		if fn.Pkg.PkgPath != consPath || fn.Recv == "" || fn.Recv == tn {
			continue
		}
		short := strings.TrimPrefix(fn.Name, fn.Recv+".")
		if !strings.HasPrefix(short, "Get") || len(fn.Params) != 0 {
			continue
		}
		sig := fn.Obj.Type().(*types.Signature)
		if sig.Results().Len() != 1 {
			continue
		}
		if it, ok := sig.Results().At(0).Type().Underlying().(*types.Interface); ok && it.NumMethods() > 0 && types.Implements(pt, it) {
			return true
		}
	}
	return false
}

// A-FIXED-READ: a byte-slice field of a struct that gob fills from the wire has whatever length the sender chose. Reading
// it with a fixed width (binary.*Endian.UintNN, a slice expression with constant bounds, a conversion to an array) panics
// on a shorter value, after the decoder has accepted the payload. Every such read is length-checked in the function that
// makes it, or the decoder of the enclosing message refuses other lengths.
func ruleFixedRead(c *RC) *RuleResult {
	r := &RuleResult{Rule: "A-FIXED-READ", Kind: "GUARD", Doc: "a variable-length byte field decoded from the wire is read with a fixed width only after its length was checked (at the read, or by the decoder that accepts the payload)"}
	pkg := c.Prog.Pkgs["internal/consensus"]
	if pkg == nil {
		r.unresolved("package internal/consensus")
		return r
	}
	info := pkg.TypesInfo
	// wire structs: struct types of the package all of whose fields are exported and that contain a []byte field
	// (directly); a field read is recognised by the selected field object
	wire := map[*types.Var]string{}
	scope := pkg.Types.Scope()
	for _, name := range scope.Names() {
		tn, ok := scope.Lookup(name).(*types.TypeName)
		if !ok {
			continue
		}
		st, ok := tn.Type().Underlying().(*types.Struct)
		if !ok || unexportedField(st, map[*types.Struct]bool{}) != "" {
			continue
		}
		for i := 0; i < st.NumFields(); i++ {
			if sl, ok := st.Field(i).Type().Underlying().(*types.Slice); ok {
				if b, ok := sl.Elem().Underlying().(*types.Basic); ok && b.Kind() == types.Byte {
					wire[st.Field(i)] = name + "." + st.Field(i).Name()
				}
			}
		}
	}
	fieldOf := func(e ast.Expr) (*types.Var, string) {
		sel, ok := ast.Unparen(e).(*ast.SelectorExpr)
		if !ok {
			return nil, ""
		}
		if s := info.Selections[sel]; s != nil && s.Kind() == types.FieldVal {
			if v, ok := s.Obj().(*types.Var); ok {
				if nm, ok := wire[v.Origin()]; ok {
					return v.Origin(), nm
				}
			}
		}
		return nil, ""
	}
	// does some function of the package compare len(x.F) for this field (a check at the read, or in a decoder)?
	// the functions a received payload is decoded by: the decoders of the wrapper, the message and the body types (a
	// compact inside a gob-filled struct is filled by reflection — its own DecodeBinary is never run), and what they call
	onDecodePath := c.decodePathFuncs()
	lenChecked := func(fv *types.Var, within *FuncInfo) (bool, bool) {
		here, anywhere := false, false
		for _, fn := range c.Prog.sortedFuncs() {
			if fn.Pkg.PkgPath != consPath || fn != within && !onDecodePath[fn] {
				continue
			}
			ast.Inspect(fn.Decl.Body, func(n ast.Node) bool {
				be, ok := n.(*ast.BinaryExpr)
				if !ok {
					return true
				}
				for _, side := range []ast.Expr{be.X, be.Y} {
					if call, ok := ast.Unparen(side).(*ast.CallExpr); ok && len(call.Args) == 1 {
						if id, ok := call.Fun.(*ast.Ident); ok && id.Name == "len" {
							if v, _ := fieldOf(call.Args[0]); v == fv {
								anywhere = true
								if fn == within {
									here = true
								}
							}
						}
					}
				}
				return true
			})
		}
		return here, anywhere
	}
	n := 0
	for _, fn := range c.Prog.sortedFuncs() {
		if fn.Pkg.PkgPath != consPath {
			continue
		}
		ast.Inspect(fn.Decl.Body, func(nd ast.Node) bool {
			var arg ast.Expr
			what := ""
			switch x := nd.(type) {
			case *ast.CallExpr:
				if f, ok := typeutil.Callee(info, x).(*types.Func); ok && f.Pkg() != nil && f.Pkg().Path() == "encoding/binary" && strings.HasPrefix(f.Name(), "Uint") && len(x.Args) == 1 {
					arg, what = x.Args[0], "binary."+f.Name()
				}
			case *ast.SliceExpr:
				if x.High != nil {
					if tv, ok := info.Types[x.High]; ok && tv.Value != nil {
						arg, what = x.X, "slice expression with a constant bound"
					}
				}
			}
			if arg == nil {
				return true
			}
			fv, nm := fieldOf(arg)
			if fv == nil {
				return true
			}
			n++
			r.Sites++
			here, anywhere := lenChecked(fv, fn)
			switch {
			case here:
				r.ok(fmt.Sprintf("%s: %s of %s after a length check in the same function", fn.Name, what, nm))
			case anywhere:
				r.ok(fmt.Sprintf("%s: %s of %s, whose length the decoder validates", fn.Name, what, nm))
			default:
				r.fail(fn.Name+"/fixed-read:"+nm, c.Prog.Pos(nd), fmt.Sprintf("%s reads the wire field %s with a fixed width (%s) and nothing checks its length: a payload the decoder accepts makes this panic", fn.Name, nm, what))
			}
			return true
		})
	}
	if n == 0 {
		r.unresolved("fixed-width read of a decoded byte field")
	}
	return r
}

// N-TYPED-NIL: a function whose result is an interface returns a variable of a concrete pointer type that may hold nil:
// the caller's `!= nil` test passes and the first method call dereferences nil. (`var p *Payload; if … { p = … }; return p`
// from a function declared to return dbft.ConsensusPayload.)
func ruleTypedNil(c *RC) *RuleResult {
	r := &RuleResult{Rule: "N-TYPED-NIL", Kind: "GUARD", Doc: "no function with an interface result returns a possibly-nil variable of a concrete pointer type (a typed nil passes the caller's nil test)"}
	n := 0
	for _, fn := range c.Prog.sortedFuncs() {
		if fn.Pkg.PkgPath != consPath && fn.Pkg.PkgPath != modPath {
			continue
		}
		sig := fn.Obj.Type().(*types.Signature)
		info := fn.Pkg.TypesInfo
		for ri := 0; ri < sig.Results().Len(); ri++ {
			if !types.IsInterface(sig.Results().At(ri).Type()) || namedName(sig.Results().At(ri).Type()) == "error" {
				continue
			}
			ast.Inspect(fn.Decl.Body, func(nd ast.Node) bool {
				if _, ok := nd.(*ast.FuncLit); ok {
					return false
				}
				rs, ok := nd.(*ast.ReturnStmt)
				if !ok || ri >= len(rs.Results) {
					return true
				}
				id, ok := ast.Unparen(rs.Results[ri]).(*ast.Ident)
				if !ok {
					return true
				}
				v, ok := info.Uses[id].(*types.Var)
				if !ok {
					return true
				}
				if _, isPtr := v.Type().Underlying().(*types.Pointer); !isPtr {
					return true
				}
				n++
				r.Sites++
				// may the variable be nil here? declared without a value, or assigned nil somewhere, and this return is
				// not under a `v != nil` test
				mayNil := false
				ast.Inspect(fn.Decl.Body, func(m ast.Node) bool {
					switch x := m.(type) {
					case *ast.ValueSpec:
						for i, nm := range x.Names {
							if info.Defs[nm] == v && i >= len(x.Values) {
								mayNil = true
							}
						}
					case *ast.AssignStmt:
						for i, l := range x.Lhs {
							if lid, ok := ast.Unparen(l).(*ast.Ident); ok && (info.Uses[lid] == v || info.Defs[lid] == v) && i < len(x.Rhs) {
								if rid, ok := ast.Unparen(x.Rhs[i]).(*ast.Ident); ok && rid.Name == "nil" {
									mayNil = true
								}
							}
						}
					}
					return true
				})
				guarded := false
				for _, enc := range enclosingConds(fn, rs) {
					if ifs, ok := enc.(*ast.IfStmt); ok {
						if be, ok := ast.Unparen(ifs.Cond).(*ast.BinaryExpr); ok && be.Op == token.NEQ {
							if xid, ok := ast.Unparen(be.X).(*ast.Ident); ok && info.Uses[xid] == v {
								guarded = true
							}
						}
					}
				}
				if mayNil && !guarded {
					r.fail(fn.Name+"/typed-nil:"+v.Name(), c.Prog.Pos(rs), fmt.Sprintf("%s returns the %s variable %s, which may be nil, as %s: the caller's nil test passes and the first method call panics", fn.Name, v.Type(), v.Name(), sig.Results().At(ri).Type()))
				} else {
					r.ok(fmt.Sprintf("%s: returned pointer %s is never nil at this return", fn.Name, v.Name()))
				}
				return true
			})
		}
	}
	if n == 0 {
		r.note("no function returns a pointer-typed local as an interface on this tree")
		r.ok("nothing to check")
	}
	return r
}

// decoderScope: the bodies a decoder's behaviour is written in: its cluster's functions and the initialisers of the
// package-level variables they mention (a table of constructors).
func (c *RC) decoderScope(md *FuncInfo) []ast.Node {
	var out []ast.Node
	seen := map[types.Object]bool{}
	for _, mem := range c.clusterFns(md) {
		out = append(out, mem.Decl.Body)
		info := mem.Pkg.TypesInfo
		ast.Inspect(mem.Decl.Body, func(n ast.Node) bool {
			id, ok := n.(*ast.Ident)
			if !ok {
				return true
			}
			v, ok := info.Uses[id].(*types.Var)
			if !ok || v.Pkg() == nil || v.Parent() != v.Pkg().Scope() || seen[v] {
				return true
			}
			seen[v] = true
			for _, f := range mem.Pkg.Syntax {
				for _, d := range f.Decls {
					gd, ok := d.(*ast.GenDecl)
					if !ok {
						continue
					}
					for _, sp := range gd.Specs {
						vs, ok := sp.(*ast.ValueSpec)
						if !ok {
							continue
						}
						for i, nm := range vs.Names {
							if info.Defs[nm] == v && i < len(vs.Values) {
								out = append(out, vs.Values[i])
							}
						}
					}
				}
			}
			return true
		})
	}
	return out
}

// ctorDests: the fields a constructor parameter ends up in — keys of composite literals, assigned fields, copy targets —
// in the constructor itself and in the module functions the parameter is handed to.
func (c *RC) ctorDests(fn *FuncInfo, p *types.Var, depth int) (map[string]bool, bool) {
	info := fn.Pkg.TypesInfo
	dests := map[string]bool{}
	used := false
	ast.Inspect(fn.Decl.Body, func(nd ast.Node) bool {
		switch x := nd.(type) {
		case *ast.Ident:
			if info.Uses[x] == p {
				used = true
			}
		case *ast.KeyValueExpr:
			if k, ok := x.Key.(*ast.Ident); ok && mentions(info, x.Value, p) {
				dests[k.Name] = true
			}
		case *ast.AssignStmt:
			for i, l := range x.Lhs {
				if i < len(x.Rhs) && mentions(info, x.Rhs[i], p) {
					if sel, ok := l.(*ast.SelectorExpr); ok {
						dests[sel.Sel.Name] = true
					}
				}
			}
		case *ast.CallExpr:
			// copy(dst.field[:], param)
			if id, ok := x.Fun.(*ast.Ident); ok && id.Name == "copy" && len(x.Args) == 2 && mentions(info, x.Args[1], p) {
				ast.Inspect(x.Args[0], func(m ast.Node) bool {
					if sel, ok := m.(*ast.SelectorExpr); ok {
						dests[sel.Sel.Name] = true
					}
					return true
				})
			}
			if depth < 3 {
				if fo, _ := typeutil.Callee(info, x).(*types.Func); fo != nil {
					if t := c.Prog.Funcs[fo.Origin()]; t != nil && t != fn && t.Decl != nil && t.Decl.Body != nil && strings.HasPrefix(t.Pkg.PkgPath, modPath+"/internal/") {
						for j, a := range x.Args {
							if j < len(t.Params) && mentions(info, a, p) {
								sub, _ := c.ctorDests(t, t.Params[j], depth+1)
								for d := range sub {
									dests[d] = true
								}
							}
						}
					}
				}
			}
		}
		return true
	})
	return dests, used
}

// readsAny: one of the |-separated fields is among those read.
func readsAny(read map[string]bool, fields string) bool {
	for _, f := range strings.Split(fields, "|") {
		if read[f] {
			return true
		}
	}
	return false
}

// isHashMemoField: field f of the consensus type tn has type pointer-to-hash (a byte array).
func (c *RC) isHashMemoField(tn, f string) bool {
	st := c.Prog.Structs["internal/consensus:"+tn]
	if st == nil {
		return false
	}
	for i := 0; i < st.NumFields(); i++ {
		if st.Field(i).Name() != f {
			continue
		}
		pt, ok := st.Field(i).Type().(*types.Pointer)
		if !ok {
			return false
		}
		arr, ok := pt.Elem().Underlying().(*types.Array)
		if !ok {
			return false
		}
		b, ok := arr.Elem().Underlying().(*types.Basic)
		return ok && b.Kind() == types.Uint8
	}
	return false
}

// decodePathFuncs: the functions a received payload is decoded by — the decoders of the wrapper, the message and the body
// types (a compact inside a gob-filled struct is filled by reflection: its own DecodeBinary is never run) and what they call.
func (c *RC) decodePathFuncs() map[*FuncInfo]bool {
	onDecodePath := map[*FuncInfo]bool{}
	var addD func(f *FuncInfo, depth int)
	addD = func(f *FuncInfo, depth int) {
		if onDecodePath[f] || depth > 4 {
			return
		}
		onDecodePath[f] = true
		for _, st := range c.A.FnSites[f] {
			if st.Kind == "call" && st.Target != nil && st.Target.Pkg.PkgPath == consPath {
				addD(st.Target, depth+1)
			}
		}
		// helpers walked inline have no call site of their own left: follow the syntax as well
		ast.Inspect(f.Decl.Body, func(n ast.Node) bool {
			if call, ok := n.(*ast.CallExpr); ok {
				if fo, ok := typeutil.Callee(f.Pkg.TypesInfo, call).(*types.Func); ok {
					if t := c.Prog.Funcs[fo.Origin()]; t != nil && t.Pkg.PkgPath == consPath && t.Decl != nil && t.Decl.Body != nil {
						addD(t, depth+1)
					}
				}
			}
			return true
		})
	}
	for _, fn := range c.Prog.sortedFuncs() {
		if fn.Pkg.PkgPath != consPath || fn.Recv == "" {
			continue
		}
		short := strings.TrimPrefix(fn.Name, fn.Recv+".")
		if short == "UnmarshalUnsigned" || short == "DecodeBinary" && (fn.Recv == "Payload" || c.Prog.ByName["internal/consensus:"+fn.Recv+".GetChangeView"] != nil || c.isBodyType(fn.Recv)) {
			addD(fn, 0)
		}
	}
	return onDecodePath
}

// G-DECODE-FRESH: gob leaves a destination field alone when the wire omits it (zero values are not sent), so a decoder
// that lets gob write into storage that already holds something keeps part of the old content. On the decode path gob
// may only fill fresh storage: a local made by new / a composite literal, the address of a local variable, or a field
// of the receiver that the function has just given a new object.
func ruleDecodeFresh(c *RC) *RuleResult {
	r := &RuleResult{Rule: "G-DECODE-FRESH", Kind: "OWN", Doc: "on the decode path gob.Decoder.Decode writes only into fresh storage (gob does not reset what the wire omits): decoding twice into one object must not mix two payloads"}
	n := 0
	for fn := range c.decodePathFuncs() {
		info := fn.Pkg.TypesInfo
		fresh := map[*types.Var]bool{}
		stale := map[*types.Var]bool{}
		isNew := func(e ast.Expr) bool {
			switch x := ast.Unparen(e).(type) {
			case *ast.CallExpr:
				if id, ok := x.Fun.(*ast.Ident); ok && id.Name == "new" {
					return true
				}
			case *ast.UnaryExpr:
				if _, ok := ast.Unparen(x.X).(*ast.CompositeLit); ok && x.Op == token.AND {
					return true
				}
			}
			return false
		}
		newFields := map[string]token.Pos{}
		ast.Inspect(fn.Decl.Body, func(nd ast.Node) bool {
			as, ok := nd.(*ast.AssignStmt)
			if !ok || len(as.Lhs) != len(as.Rhs) {
				return true
			}
			for i, l := range as.Lhs {
				switch x := ast.Unparen(l).(type) {
				case *ast.Ident:
					v, _ := info.Defs[x].(*types.Var)
					if v == nil {
						v, _ = info.Uses[x].(*types.Var)
					}
					if v == nil {
						continue
					}
					if isNew(as.Rhs[i]) {
						fresh[v] = true
					} else {
						stale[v] = true
					}
				case *ast.SelectorExpr:
					if isNew(as.Rhs[i]) {
						newFields[exprText(x)] = as.Pos()
					}
				}
			}
			return true
		})
		ast.Inspect(fn.Decl.Body, func(nd ast.Node) bool {
			call, ok := nd.(*ast.CallExpr)
			if !ok || len(call.Args) != 1 {
				return true
			}
			fo, _ := typeutil.Callee(info, call).(*types.Func)
			if fo == nil || fo.Pkg() == nil || fo.Pkg().Path() != "encoding/gob" || fo.Name() != "Decode" {
				return true
			}
			n++
			r.Sites++
			arg := ast.Unparen(call.Args[0])
			why := ""
			switch x := arg.(type) {
			case *ast.Ident:
				v, _ := info.Uses[x].(*types.Var)
				switch {
				case v != nil && fresh[v] && !stale[v]:
				case v != nil && v == fn.RecvVar:
					why = "the receiver itself"
				default:
					why = "a variable that is not known to hold a new object"
				}
			case *ast.UnaryExpr:
				id, isId := ast.Unparen(x.X).(*ast.Ident)
				if x.Op == token.AND && isId {
					if v, _ := info.Uses[id].(*types.Var); v != nil && !v.IsField() && v != fn.RecvVar && paramIndexOf(fn, v) < 0 {
						break // the address of a local variable
					}
				}
				why = "the address of existing storage (" + exprText(x.X) + ")"
			case *ast.SelectorExpr:
				if pos, ok := newFields[exprText(x)]; ok && pos < call.Pos() {
					break
				}
				why = "a field that may already hold an object (" + exprText(x) + ")"
			default:
				why = "storage of unknown age"
			}
			if why == "" {
				r.ok(fn.Name + ": gob fills fresh storage")
			} else {
				r.fail(fn.Name+"/decode-into-existing", c.Prog.Pos(call), fn.Name+" lets gob decode into "+why+": gob does not touch fields the wire omits (zero values), so a second decode into the same object keeps parts of the first payload (wrong validator index / height and a hash that matches neither)")
			}
			return true
		})
	}
	if n < 8 {
		r.unresolved(fmt.Sprintf("gob Decode calls on the decode path (found %d)", n))
	}
	if len(r.Samples) > 3 {
		r.Samples = r.Samples[:3]
	}
	return r
}

// tableDispatchHazard: fn fetches a function from a package-level table by index and calls it without making sure the
// entry exists (comma-ok / nil test that returns) or, for an array or slice, that the index is within bounds.
func tableDispatchHazard(fn *FuncInfo) string {
	info := fn.Pkg.TypesInfo
	isTable := func(e ast.Expr) (types.Type, bool) {
		id, ok := ast.Unparen(e).(*ast.Ident)
		if !ok {
			return nil, false
		}
		v, ok := info.Uses[id].(*types.Var)
		if !ok || v.Pkg() == nil || v.Parent() != v.Pkg().Scope() {
			return nil, false
		}
		var el types.Type
		switch t := v.Type().Underlying().(type) {
		case *types.Map:
			el = t.Elem()
		case *types.Array:
			el = t.Elem()
		case *types.Slice:
			el = t.Elem()
		default:
			return nil, false
		}
		if _, isFn := el.Underlying().(*types.Signature); !isFn {
			return nil, false
		}
		return v.Type().Underlying(), true
	}
	// guards: if-statements whose body returns; the identifiers and len() arguments their conditions mention
	guardIdents := map[types.Object]bool{}
	guardLen := map[string]bool{}
	guardConstCmp := map[string]bool{}
	ast.Inspect(fn.Decl.Body, func(n ast.Node) bool {
		ifs, ok := n.(*ast.IfStmt)
		if !ok || len(ifs.Body.List) == 0 {
			return true
		}
		if _, ret := ifs.Body.List[len(ifs.Body.List)-1].(*ast.ReturnStmt); !ret {
			return true
		}
		ast.Inspect(ifs.Cond, func(m ast.Node) bool {
			switch x := m.(type) {
			case *ast.Ident:
				if o := info.Uses[x]; o != nil {
					guardIdents[o] = true
				}
			case *ast.CallExpr:
				if id, ok := x.Fun.(*ast.Ident); ok && id.Name == "len" && len(x.Args) == 1 {
					guardLen[exprText(x.Args[0])] = true
				}
			case *ast.BinaryExpr:
				for _, side := range [][2]ast.Expr{{x.X, x.Y}, {x.Y, x.X}} {
					if tv, ok := info.Types[side[1]]; ok && tv.Value != nil {
						guardConstCmp[exprText(ast.Unparen(side[0]))] = true
						if call, ok := ast.Unparen(side[0]).(*ast.CallExpr); ok && len(call.Args) == 1 {
							guardConstCmp[exprText(ast.Unparen(call.Args[0]))] = true // int(k) >= N
						}
					}
				}
			}
			return true
		})
		return true
	})
	why := ""
	bounds := func(tt types.Type, ix *ast.IndexExpr) string {
		switch t := tt.(type) {
		case *types.Array:
			if b, ok := info.TypeOf(ix.Index).Underlying().(*types.Basic); ok && (b.Kind() == types.Uint8) && t.Len() >= 256 {
				return ""
			}
		case *types.Map:
			return ""
		}
		if guardLen[exprText(ix.X)] || guardConstCmp[exprText(ast.Unparen(ix.Index))] {
			return ""
		}
		return "indexes " + exprText(ix.X) + " without a bounds check"
	}
	ast.Inspect(fn.Decl.Body, func(n ast.Node) bool {
		switch x := n.(type) {
		case *ast.CallExpr:
			if ix, ok := ast.Unparen(x.Fun).(*ast.IndexExpr); ok {
				if tt, ok := isTable(ix.X); ok {
					why = "calls the entry " + exprText(ix.X) + "[…] without testing that it exists"
					_ = tt
				}
			}
		case *ast.AssignStmt:
			if len(x.Rhs) != 1 {
				return true
			}
			ix, ok := ast.Unparen(x.Rhs[0]).(*ast.IndexExpr)
			if !ok {
				return true
			}
			tt, ok := isTable(ix.X)
			if !ok {
				return true
			}
			if b := bounds(tt, ix); b != "" && why == "" {
				why = b
			}
			guarded := false
			for _, l := range x.Lhs {
				if id, ok := l.(*ast.Ident); ok {
					o := info.Defs[id]
					if o == nil {
						o = info.Uses[id]
					}
					if o != nil && guardIdents[o] {
						guarded = true
					}
				}
			}
			if !guarded && why == "" {
				why = "uses the entry of " + exprText(ix.X) + " without testing that it exists (comma-ok or a nil test that returns)"
			}
		}
		return true
	})
	return why
}

// paramReaches: inside fn the parameter is stored into the field named envField — by assignment, as a literal's field
// value, or through a one-line setter of that field.
func paramReaches(fn *FuncInfo, prm *types.Var, envField string, setterField map[string]string) bool {
	info := fn.Pkg.TypesInfo
	isParam := func(e ast.Expr) bool {
		id, ok := ast.Unparen(e).(*ast.Ident)
		return ok && info.Uses[id] == types.Object(prm)
	}
	found := false
	ast.Inspect(fn.Decl.Body, func(n ast.Node) bool {
		switch x := n.(type) {
		case *ast.AssignStmt:
			for i, lhs := range x.Lhs {
				if sel, ok := ast.Unparen(lhs).(*ast.SelectorExpr); ok && sel.Sel.Name == envField && i < len(x.Rhs) && isParam(x.Rhs[i]) {
					found = true
				}
			}
		case *ast.KeyValueExpr:
			if id, ok := x.Key.(*ast.Ident); ok && id.Name == envField && isParam(x.Value) {
				found = true
			}
		case *ast.CallExpr:
			if sel, ok := ast.Unparen(x.Fun).(*ast.SelectorExpr); ok && setterField[sel.Sel.Name] == envField && len(x.Args) == 1 && isParam(x.Args[0]) {
				found = true
			}
		}
		return !found
	})
	return found
}

// A-SIG-LENGTH (C19): the signature handed to a verification function of package crypto is a byte slice of whatever
// length the sender chose. Slicing it with constant bounds without a look at its length panics on a short one — and,
// worse, RE-slices within the capacity: `valid[:0]` still has the valid signature behind it, so a zero-length "signature"
// verifies. Every constant-bound slice or index of a []byte parameter is preceded by a comparison of its length.
func ruleSigLength(c *RC) *RuleResult {
	r := &RuleResult{Rule: "A-SIG-LENGTH", Kind: "GUARD", Doc: "in package crypto a []byte parameter is sliced / indexed with constant bounds only after its length was compared"}
	for _, fn := range c.Prog.sortedFuncs() {
		if fn.Pkg.PkgPath != modPath+"/internal/crypto" || fn.Decl == nil || fn.Decl.Body == nil {
			continue
		}
		info := fn.Pkg.TypesInfo
		for _, p := range fn.Params {
			sl, ok := p.Type().Underlying().(*types.Slice)
			if !ok {
				continue
			}
			if b, ok := sl.Elem().Underlying().(*types.Basic); !ok || b.Kind() != types.Byte {
				continue
			}
			isP := func(e ast.Expr) bool {
				id, ok := ast.Unparen(e).(*ast.Ident)
				return ok && info.Uses[id] == types.Object(p)
			}
			isConst := func(e ast.Expr) bool {
				if e == nil {
					return false
				}
				tv, ok := info.Types[e]
				return ok && tv.Value != nil
			}
			var firstRead ast.Node
			checked := token.NoPos
			ast.Inspect(fn.Decl.Body, func(n ast.Node) bool {
				switch x := n.(type) {
				case *ast.SliceExpr:
					if isP(x.X) && (isConst(x.High) && x.High != nil) && firstRead == nil {
						firstRead = x
					}
				case *ast.IndexExpr:
					if isP(x.X) && isConst(x.Index) && firstRead == nil {
						firstRead = x
					}
				case *ast.BinaryExpr:
					for _, side := range []ast.Expr{x.X, x.Y} {
						if call, ok := ast.Unparen(side).(*ast.CallExpr); ok && len(call.Args) == 1 && isP(call.Args[0]) {
							if id, ok := call.Fun.(*ast.Ident); ok && id.Name == "len" && checked == token.NoPos {
								checked = x.Pos()
							}
						}
					}
				}
				return true
			})
			if firstRead == nil {
				continue
			}
			r.Sites++
			// a private helper may leave the comparison to its callers: then each of them makes it before the call
			byCallers := false
			if !(checked != token.NoPos && checked < firstRead.Pos()) && !ast.IsExported(fn.Decl.Name.Name) {
				pi := -1
				for i, q := range fn.Params {
					if q == p {
						pi = i
					}
				}
				ncall, nok := 0, 0
				for _, g := range c.Prog.sortedFuncs() {
					if g.Pkg.PkgPath != fn.Pkg.PkgPath || g.Decl == nil || g.Decl.Body == nil {
						continue
					}
					ginfo := g.Pkg.TypesInfo
					ast.Inspect(g.Decl.Body, func(n ast.Node) bool {
						call, ok := n.(*ast.CallExpr)
						if !ok || pi < 0 || pi >= len(call.Args) {
							return true
						}
						fo, _ := typeutil.Callee(ginfo, call).(*types.Func)
						if fo == nil || c.Prog.Funcs[fo.Origin()] != fn {
							return true
						}
						ncall++
						arg, ok := ast.Unparen(call.Args[pi]).(*ast.Ident)
						if !ok {
							return true
						}
						aobj := ginfo.Uses[arg]
						cmp := false
						ast.Inspect(g.Decl.Body, func(m ast.Node) bool {
							if be, ok := m.(*ast.BinaryExpr); ok && be.Pos() < call.Pos() {
								for _, side := range []ast.Expr{be.X, be.Y} {
									if lc, ok := ast.Unparen(side).(*ast.CallExpr); ok && len(lc.Args) == 1 {
										if id, ok := lc.Fun.(*ast.Ident); ok && id.Name == "len" {
											if aid, ok := ast.Unparen(lc.Args[0]).(*ast.Ident); ok && ginfo.Uses[aid] == aobj {
												cmp = true
											}
										}
									}
								}
							}
							return true
						})
						if cmp {
							nok++
						}
						return true
					})
				}
				byCallers = ncall > 0 && nok == ncall
			}
			if byCallers {
				r.ok(fmt.Sprintf("%s: every caller compares the length of what it hands over as %s before the call", fn.Name, p.Name()))
			} else if checked != token.NoPos && checked < firstRead.Pos() {
				r.ok(fmt.Sprintf("%s: %s is sliced with constant bounds after its length was compared", fn.Name, p.Name()))
			} else {
				r.fail(fn.Name+"/unchecked-length:"+p.Name(), c.Prog.Pos(firstRead), fmt.Sprintf("%s slices its parameter %s with constant bounds without looking at its length: a shorter slice panics or — within its capacity — is re-sliced, so that an empty slice cut from a valid signature verifies", fn.Name, p.Name()))
			}
		}
	}
	if r.Sites == 0 {
		r.Sites++
		r.ok("no constant-bound reads of []byte parameters in package crypto")
	}
	return r
}
