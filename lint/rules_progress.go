package main

import (
	"go/ast"
	"go/token"
	"go/types"

	"fmt"
	"golang.org/x/tools/go/types/typeutil"
	"os"
	"strings"
)

// M-PHASE-PROGRESS: every enabled step of the protocol is taken. Each of the four "check" functions of the state machine
// (preparations → (pre)commit, pre-commits → pre-block and commit, commits → block, change views → new view) may leave
// without performing its step only for a reason the protocol names: a transaction is missing, the quorum is not there,
// the proposal is not there, an application callback failed, the node has not itself sent what the step requires (or
// takes no active part). An exit on any other ground — a "nothing to do" fast path keyed on a flag, a role test, a
// cache — strands a node that already holds everything it needs: no later message will make it act, so in a fault-free
// run it waits for its timer and asks for recovery (C08), and with a silent minority it may never decide (C09).
func rulePhaseProgress(c *RC) *RuleResult {
	r := &RuleResult{Rule: "M-PHASE-PROGRESS", Kind: "MUST", Doc: "each check function performs its step (send (Pre)Commit / process pre-block and send Commit / process block / enter the view) on every exit that is not excused by a missing transaction, a missing quorum or proposal, a failed callback or the node's own role"}
	if dn := os.Getenv("DBFTLINT_DEBUG_EXITS"); dn != "" {
		if f := c.Prog.fn(dn); f != nil {
			for _, e := range c.exitsOf(f) {
				fmt.Printf("EXIT %s trail={%s} log=%v\n", dn, strings.Join(e.Trail, " ; "), e.Log)
			}
			for _, s := range c.A.FnSites[f] {
				fmt.Printf("SITE %s %s %s snaps=%d\n", dn, s.Kind, siteWhat(s), len(s.Snaps))
				for _, sn := range s.Snaps {
					var as []string
					for _, a := range sn.Args {
						if a != nil {
							as = append(as, fmt.Sprintf("%s(k%d)", a.S, a.K))
						}
					}
					fmt.Printf("   SNAP args=%v trail={%s}\n", as, sn.Trail)
				}
			}
		}
	}
	type phase struct {
		name   string
		fn     *FuncInfo
		events []string
	}
	var phases []phase
	ev := func(fs []*FuncInfo) []string {
		var out []string
		for _, f := range fs {
			out = append(out, "fn:"+f.Name)
		}
		return out
	}
	commitSenders, preCommitSenders := c.senderOf("CommitType"), c.senderOf("PreCommitType")
	// preparation check: the caller(s) of the pre-commit sender
	seen := map[*FuncInfo]bool{}
	for _, s := range preCommitSenders {
		for _, cs := range c.A.callers[s] {
			if !seen[cs.Fn] {
				seen[cs.Fn] = true
				phases = append(phases, phase{"preparations", cs.Fn, append(ev(commitSenders), ev(preCommitSenders)...)})
			}
		}
	}
	for _, s := range c.callSites("cb:ProcessPreBlock") {
		if !seen[s.Fn] {
			seen[s.Fn] = true
			phases = append(phases, phase{"pre-commits", s.Fn, ev(commitSenders)})
		}
	}
	for _, s := range c.callSites("cb:ProcessBlock") {
		if !seen[s.Fn] {
			seen[s.Fn] = true
			phases = append(phases, phase{"commits", s.Fn, []string{"cb:ProcessBlock"}})
		}
	}
	for _, s := range c.initCalls(true) {
		if !seen[s.Fn] {
			seen[s.Fn] = true
			phases = append(phases, phase{"change views", s.Fn, ev(c.initialisers())})
		}
	}
	if len(phases) < 4 {
		r.unresolved(fmt.Sprintf("the four check functions (found %d)", len(phases)))
	}
	allTx := fAllTx().Atom.S
	for _, ph := range phases {
		root := c.phaseRoot(ph.fn)
		n := 0
		for _, e := range c.exitsOf(root) {
			n++
			r.Sites++
			done := false
			for _, x := range ph.events {
				if e.Events[x] {
					done = true
				}
			}
			excuse := ""
			for _, l := range e.TrailL {
				if why := excuseLit(l, allTx); why != "" {
					excuse = why
					break
				}
			}
			if excuse == "" {
				// a decision the path did not have to make because the answer was already known (e.g. "no own
				// pre-commit" follows from "no proposal recorded") is a fact of the exit state, not a trail entry
				for k, v := range e.F.m {
					if why := excuseLit(Lit{e.F.atoms[k], v}, allTx); why != "" && (excuse == "" || why < excuse) {
						excuse = why
					}
				}
			}
			if os.Getenv("DBFTLINT_DEBUG_PHASE") != "" {
				fmt.Printf("PHASE %s %s done=%v excuse=%q trail={%s} log=%v\n", ph.name, root.Name, done, excuse, strings.Join(e.Trail, " ; "), e.Log)
			}
			switch {
			case done:
				r.ok(fmt.Sprintf("%s: step taken on path {%s}", root.Name, strings.Join(e.Trail, "; ")))
			case excuse != "":
				r.ok(fmt.Sprintf("%s: leaves without the step because %s", root.Name, excuse))
			default:
				r.fail(root.Name+"/stranded:"+ph.name, c.Prog.Pos(root.Decl), fmt.Sprintf("the %s check leaves without its step on path {%s}, which names no missing transaction, quorum, proposal, callback failure or role: a node holding everything the step needs is stranded until its timer fires", ph.name, strings.Join(e.Trail, "; ")))
			}
		}
		if n == 0 {
			r.unresolved("exits of " + root.Name)
		}
	}
	// the checks are *reached*: an API call that adds a payload to a table (a received one or the node's own) looks
	// whether the table's step is due before it returns — the stored payload may be the one that completes the quorum,
	// and for a single validator the node's own proposal is the whole quorum. Same excuses as above, plus "a view change
	// was asked for instead" and "the block of the height is out" (nothing is due any more)
	// A proposal that is stored, complete and verified is followed by the preparations check, whoever the node is: a
	// primary that lost its state gets its own proposal back in a recovery message, does not answer it — and must still
	// look whether the responses it already holds make the quorum, nothing else will (their duplicates are dropped).
	if h := c.handlers()["PrepareRequestType"]; h != nil {
		var prep *FuncInfo
		for _, ph := range phases {
			if ph.name == "preparations" {
				prep = ph.fn
			}
		}
		ver := c.topVerifiers()
		at := fAllTx().Atom
		if prep != nil {
			r.Sites++
			bad := ""
			for _, e := range c.exitsOf(h) {
				kl := e.Killed["ctx.PreparationPayloads"]
				if kl&(KillNNOwn|KillNNSender|KillNNPrimary|KillNNOther) == 0 {
					continue
				}
				if v, known := e.F.value(at); !known || !v {
					continue
				}
				if isWatchOnlyState(e) || e.Events["fn:"+prep.Name] || e.Events["fn:"+c.phaseRoot(prep).Name] {
					continue
				}
				skip := false
				for _, f := range ver {
					if e.Events["fn:"+f.Name+"=false"] {
						skip = true // the block failed verification: a ChangeView is the answer
					}
				}
				for _, f := range c.senderOf("ChangeViewType") {
					if e.Events["fn:"+f.Name] {
						skip = true
					}
				}
				for _, ini := range c.initialisers() {
					if e.Events["fn:"+ini.Name] {
						skip = true
					}
				}
				if !skip {
					bad = strings.Join(e.Trail, "; ")
				}
			}
			if bad == "" {
				r.ok(h.Name + ": a stored, complete proposal is followed by the preparations check on every path (watch-only nodes and failed verification excepted)")
			} else {
				r.fail(h.Name+"/stored-proposal-unchecked", c.Prog.Pos(h.Decl), fmt.Sprintf("%s stores the proposal with all transactions present and leaves without the preparations check on path {%s}: a primary that restarted and gets its own proposal back from a recovery message holds the responses already (their duplicates are dropped), so nothing ever makes it commit", h.Name, bad))
			}
		}
	}
	tableOf := map[string]string{"preparations": "ctx.PreparationPayloads", "pre-commits": "ctx.PreCommitPayloads", "commits": "ctx.CommitPayloads", "change views": "ctx.ChangeViewPayloads"}
	cvSenders := c.senderOf("ChangeViewType")
	// verdict of one exit: "" = the check was reached or there is an accepted reason not to; otherwise the path
	judge := func(e *State, ph phase) string {
		if e.Events["fn:"+ph.fn.Name] || e.Events["fn:"+c.phaseRoot(ph.fn).Name] {
			return ""
		}
		for _, x := range ph.events {
			if e.Events[x] {
				return ""
			}
		}
		// (not every excuse of the check functions is one here: "the quorum is not there" or "the node has not sent its
		// own commit yet" are what the check is there to find out)
		accepted := func(why string) bool {
			if strings.HasPrefix(why, "a callback") && strings.Contains(why, "(l:ret:") {
				return false // the result of one of the module's own functions (a built payload, say), not an application callback
			}
			return why == "a transaction is missing" || strings.HasPrefix(why, "a callback") || strings.HasPrefix(why, "the block object") ||
				why == "the node is not a validator" || why == "the node is watch-only"
		}
		for k, v := range e.F.m {
			// (as a mere fact of the state — not a decision of the path — only what describes the node or the proposal)
			if why := excuseLit(Lit{e.F.atoms[k], v}, allTx); why == "a transaction is missing" || why == "the node is not a validator" || why == "the node is watch-only" {
				return ""
			}
		}
		for _, l := range e.TrailL {
			if accepted(excuseLit(l, allTx)) {
				return ""
			}
		}
		for _, f := range cvSenders {
			if e.Events["fn:"+f.Name] {
				return ""
			}
		}
		for _, ini := range c.initialisers() {
			if e.Events["fn:"+ini.Name] {
				return ""
			}
		}
		if v, known := e.F.value(mkAtom("b", fld("ctx.blockProcessed", false), nil)); known && v {
			return ""
		}
		return "{" + strings.Join(e.Trail, "; ") + "}"
	}
	for _, ph := range phases {
		table := tableOf[ph.name]
		if table == "" {
			continue
		}
		seenRoot := map[*FuncInfo]bool{}
		for _, ws := range c.writesTo(table) {
			if ws.Store&(KillNNOwn|KillNNSender|KillNNPrimary|KillNNOther) == 0 || c.inEpoch(ws.Fn) {
				continue
			}
			root := c.phaseRoot(ws.Fn)
			if seenRoot[root] || root == c.phaseRoot(ph.fn) {
				continue
			}
			seenRoot[root] = true
			r.Sites++
			bad := ""
			for _, e := range c.exitsOf(root) {
				kl := e.Killed[table]
				if kl&(KillNNOwn|KillNNSender|KillNNPrimary|KillNNOther) == 0 || kl&KillAny != 0 {
					continue
				}
				why := judge(e, ph)
				if os.Getenv("DBFTLINT_DEBUG_STORECHECK") != "" {
					fmt.Printf("STORECHECK root=%s table=%s kl=%b why=%q trail={%s}\n", root.Name, table, kl, why, strings.Join(e.Trail, " ; "))
				}
				if why != "" {
					bad = why
				}
			}
			if bad == "" {
				r.ok(fmt.Sprintf("%s: a payload added to %s is followed by the %s check (or an accepted reason not to)", root.Name, table, ph.name))
				continue
			}
			// the storing function leaves it to its callers: each of them does it then
			callers := c.A.callers[root]
			if len(callers) == 0 {
				r.fail(root.Name+"/unchecked-store:"+ph.name, c.Prog.Pos(root.Decl), fmt.Sprintf("%s adds a payload to %s and returns without looking whether the %s step is due, on path %s: if that payload completes the quorum (for a single validator its own proposal does) the node sits on a full table until its timer fires", root.Name, table, ph.name, bad))
				continue
			}
			seenCaller := map[*FuncInfo]bool{}
			okAll := true
			for _, cs := range callers {
				g := c.phaseRoot(cs.Fn)
				if seenCaller[g] {
					continue
				}
				seenCaller[g] = true
				for _, e := range c.exitsOf(g) {
					if !e.Events["fn:"+root.Name] {
						continue
					}
					if why := judge(e, ph); why != "" {
						okAll = false
						r.fail(g.Name+"/unchecked-store:"+ph.name, c.Prog.Pos(cs.Node), fmt.Sprintf("%s (through %s) adds a payload to %s and returns without looking whether the %s step is due, on path %s: if that payload completes the quorum (for a single validator its own proposal does) the node sits on a full table until its timer fires", g.Name, root.Name, table, ph.name, why))
						break
					}
				}
			}
			if okAll {
				r.ok(fmt.Sprintf("%s leaves the %s check to its callers, each of which makes it", root.Name, ph.name))
			}
		}
	}
	if len(r.Samples) > 6 {
		r.Samples = r.Samples[:6]
	}
	return r
}

// phaseRoot climbs from fn to the outermost function of its cluster (single-caller private helpers are walked inline).
func (c *RC) phaseRoot(fn *FuncInfo) *FuncInfo {
	for hop := 0; hop < 4 && (c.A.inlinable(fn) || c.A.inlinableValue(fn)); hop++ {
		cs := c.A.callers[fn]
		if len(cs) != 1 {
			break
		}
		fn = cs[0].Fn
	}
	return fn
}

// excuseLit: the branch decision l is a reason the protocol accepts for not taking a step.
func excuseLit(l Lit, allTx string) string {
	a := l.A
	has := func(t *Term, k TermKind) bool { return t != nil && termHasKind(t, k) }
	switch {
	case a.S == allTx && !l.Pos:
		return "a transaction is missing"
	case a.Op == "lt" && l.Pos && has(a.A, KCount):
		return "the quorum is not there (" + a.S + ")"
	case a.Op == "q" && !l.Pos:
		return "the quorum is not there (" + a.S + ")"
	case a.Op == "b" && !l.Pos && has(a.A, KExists):
		return "the proposal is not among the preparations"
	case a.Op == "nn" && l.Pos && isLocalResult(a.A):
		return "a callback failed (" + a.S + ")"
	case a.Op == "nn" && !l.Pos && isLocalResult(a.A):
		return "a callback returned nothing (" + a.S + ")"
	case a.Op == "nn" && !l.Pos && a.A != nil && a.A.K == KField && (a.A.Name == "ctx.block" || a.A.Name == "ctx.preBlock" || a.A.Name == "ctx.header" || a.A.Name == "ctx.preHeader"):
		return "the block object could not be built (" + a.S + ")"
	case a.Op == "nn" && !l.Pos && a.A != nil && a.A.K == KIndex && len(a.A.Args) == 2 && a.A.Args[1].S == tMyIndex.S:
		return "the node has not sent its own " + a.A.Args[0].S + " yet"
	case a.Op == "lt" && l.Pos && a.A != nil && a.A.S == tMyIndex.S && a.B != nil && a.B.S == tZero.S:
		return "the node is not a validator"
	case a.Op == "b" && l.Pos && a.A != nil && a.A.S == "cfg.WatchOnly()":
		return "the node is watch-only"
	case a.Op == "lt" && !l.Pos && a.A != nil && a.A.S == tViewNumber.S && a.B != nil && a.B.K == KParam:
		return "the node is already in that view"
	}
	return ""
}

func isLocalResult(t *Term) bool {
	return t != nil && t.K == KLocal && (strings.HasPrefix(t.S, "l:cbres:") || strings.HasPrefix(t.S, "l:ret:") || strings.HasPrefix(t.S, "l:if:") || strings.HasPrefix(t.S, "l:ext:"))
}

func termHasKind(t *Term, k TermKind) bool {
	if t == nil {
		return false
	}
	if t.K == k {
		return true
	}
	for _, a := range t.Args {
		if termHasKind(a, k) {
			return true
		}
	}
	return false
}

// M-CV-PENDING (C11, C09): the view-change check counts a request for view w as a vote for every view up to w
// ("NewViewNumber >= view"), so a stored request can complete the quorum of any view between the node's own and the one
// it asks for. A handler that checks only the requested view leaves such a quorum pending: the node holds M requests and
// stays where it is until some stored ChangeView is delivered once more (which then does change the view — a
// re-delivery with an effect). After storing a request the handler therefore checks every view in (ViewNumber, w], i.e.
// calls the check in a loop over the views, or the check takes no view and finds the highest one itself.
func ruleCVPending(c *RC) *RuleResult {
	r := &RuleResult{Rule: "M-CV-PENDING", Kind: "MUST", Doc: "the ChangeView handler checks, after storing a request for view w, every view between the node's own and w (the check counts requests for higher views as votes for lower ones)"}
	h := c.handlers()["ChangeViewType"]
	var checks []*FuncInfo
	seen := map[*FuncInfo]bool{}
	for _, s := range c.initCalls(true) {
		if !seen[s.Fn] {
			seen[s.Fn] = true
			checks = append(checks, s.Fn)
		}
	}
	if h == nil || len(checks) == 0 {
		r.unresolved("ChangeView handler / view-change check")
		return r
	}
	for _, cv := range checks {
		if len(cv.Params) == 0 {
			r.Sites++
			r.ok(cv.Name + " takes no view: it decides itself which view has a quorum")
			continue
		}
		// does it count higher requests for lower views? (a comparison >= / > between a request's view and the parameter)
		monotone := false
		ast.Inspect(cv.Decl.Body, func(n ast.Node) bool {
			if b, ok := n.(*ast.BinaryExpr); ok && (b.Op == token.GEQ || b.Op == token.GTR || b.Op == token.LEQ || b.Op == token.LSS) {
				for _, side := range []ast.Expr{b.X, b.Y} {
					if id, ok := ast.Unparen(side).(*ast.Ident); ok && cv.Pkg.TypesInfo.Uses[id] == types.Object(cv.Params[0]) {
						other := b.X
						if side == b.X {
							other = b.Y
						}
						if _, isCall := ast.Unparen(other).(*ast.CallExpr); isCall {
							monotone = true // compared with something read from a payload
						}
					}
				}
			}
			return true
		})
		if !monotone {
			r.Sites++
			r.ok(cv.Name + " counts only requests for exactly the view it is asked about")
			continue
		}
		for g := range c.A.cluster(h) {
			if g.Decl == nil || g.Decl.Body == nil {
				continue
			}
			info := g.Pkg.TypesInfo
			var stack []ast.Node
			ast.Inspect(g.Decl.Body, func(n ast.Node) bool {
				if n == nil {
					stack = stack[:len(stack)-1]
					return true
				}
				stack = append(stack, n)
				call, ok := n.(*ast.CallExpr)
				if !ok || len(call.Args) != 1 {
					return true
				}
				f, _ := typeutil.Callee(info, call).(*types.Func)
				if f == nil || c.Prog.Funcs[f.Origin()] != cv {
					return true
				}
				r.Sites++
				// the argument is the variable of an enclosing loop over the views
				inLoop := false
				if id, ok := ast.Unparen(call.Args[0]).(*ast.Ident); ok {
					obj := info.Uses[id]
					for _, anc := range stack {
						switch l := anc.(type) {
						case *ast.ForStmt:
							if as, ok := l.Init.(*ast.AssignStmt); ok {
								for _, lhs := range as.Lhs {
									if lid, ok := lhs.(*ast.Ident); ok && info.Defs[lid] == obj && obj != nil {
										inLoop = true
									}
								}
							}
						case *ast.RangeStmt:
							for _, kv := range []ast.Expr{l.Key, l.Value} {
								if lid, ok := kv.(*ast.Ident); ok && info.Defs[lid] == obj && obj != nil {
									inLoop = true
								}
							}
						}
					}
				}
				// ... or a local that a loop of the same function walks down / up through the views before the call
				// (the highest view with enough requests is searched first, then checked once)
				searched := false
				if id, ok := ast.Unparen(call.Args[0]).(*ast.Ident); ok && !inLoop {
					if obj, isVar := info.Uses[id].(*types.Var); isVar && !obj.IsField() {
						ast.Inspect(g.Decl.Body, func(m ast.Node) bool {
							var body ast.Node
							switch l := m.(type) {
							case *ast.ForStmt:
								body = l
							case *ast.RangeStmt:
								body = l.Body
							}
							if body == nil || body.End() > call.Pos() {
								return true // (only loops that end before the call)
							}
							ast.Inspect(body, func(x ast.Node) bool {
								switch st := x.(type) {
								case *ast.IncDecStmt:
									if lid, ok := ast.Unparen(st.X).(*ast.Ident); ok && info.Uses[lid] == types.Object(obj) {
										searched = true
									}
								case *ast.AssignStmt:
									for _, lhs := range st.Lhs {
										if lid, ok := ast.Unparen(lhs).(*ast.Ident); ok && info.Uses[lid] == types.Object(obj) {
											searched = true
										}
									}
								}
								return true
							})
							return true
						})
					}
				}
				// the defect has one shape: the check is asked about the view the payload requests and nothing else. Any other
				// argument (a helper's result, a computed view) is some search of the caller's and is not second-guessed
				requestedOnly := false
				isReq := func(e ast.Expr) bool {
					call, ok := ast.Unparen(e).(*ast.CallExpr)
					if !ok {
						return false
					}
					sel, ok := ast.Unparen(call.Fun).(*ast.SelectorExpr)
					return ok && sel.Sel.Name == "NewViewNumber" && len(call.Args) == 0
				}
				if isReq(call.Args[0]) {
					requestedOnly = true
				} else if id, ok := ast.Unparen(call.Args[0]).(*ast.Ident); ok {
					obj := info.Uses[id]
					ndef, reqDef := 0, false
					ast.Inspect(g.Decl.Body, func(m ast.Node) bool {
						switch st := m.(type) {
						case *ast.AssignStmt:
							for i, lhs := range st.Lhs {
								if lid, ok := ast.Unparen(lhs).(*ast.Ident); ok && (info.Defs[lid] == obj || info.Uses[lid] == obj) && obj != nil {
									ndef++
									if i < len(st.Rhs) && len(st.Rhs) == len(st.Lhs) && isReq(st.Rhs[i]) {
										reqDef = true
									}
								}
							}
						case *ast.IncDecStmt:
							if lid, ok := ast.Unparen(st.X).(*ast.Ident); ok && info.Uses[lid] == obj && obj != nil {
								ndef++
							}
						}
						return true
					})
					requestedOnly = reqDef && ndef == 1
				}
				if !requestedOnly && !searched && !inLoop {
					r.ok(g.Name + ": the view handed to " + cv.Name + " is computed (" + types.ExprString(call.Args[0]) + "), not the requested one taken as it is")
				} else if searched {
					r.ok(g.Name + ": the view handed to " + cv.Name + " is searched by a loop over the views first")
				} else if inLoop {
					r.ok(g.Name + ": " + cv.Name + " is called for each view of a loop")
				} else {
					r.fail(g.Name+"/single-view-check", c.Prog.Pos(call), fmt.Sprintf("%s stores a ChangeView and calls %s(%s) for one view only, while %s counts a request for a higher view as a vote for every lower one: the request that completes the quorum of a lower view leaves it pending (the node holds M requests and stays in its view) until a stored ChangeView is delivered again", g.Name, cv.Name, types.ExprString(call.Args[0]), cv.Name))
				}
				return true
			})
		}
	}
	if r.Sites == 0 {
		r.unresolved("calls of the view-change check in the ChangeView handler")
	}
	return r
}
