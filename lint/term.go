package main

// Terms, atoms, literals and fact sets (conjunctions of literals with a small
// built-in theory: trichotomy, constants, unsigned values, lemma implications).

import (
	"go/types"
	"fmt"
	"sort"
	"strings"
)

type TermKind int

const (
	KField  TermKind = iota // state location read: Name = "ctx.X" / "cfg.X" / "dbft.X" (may have ".sub")
	KIndex                  // Args[0] = table term, Args[1] = index term
	KCall                   // Name = callee id; Args = receiver (optional, first) + args
	KParam                  // Name = param name
	KConst                  // Name = constant value / qualified const name
	KNil                    // nil
	KLocal                  // opaque local value, Name unique
	KElem                   // loop element of table Args[0]; Name = loop id
	KLen                    // len(Args[0])
	KBin                    // Name = op; Args = a, b
	KSel                    // Args[0].Name  (field of a non-state value)
	KCount                  // quorum counter: Name = canonical "T|phi"
	KExists                 // existence flag: Name = canonical "T|phi"
	KOpaque                 // anything else, Name unique
)

type Term struct {
	K        TermKind
	Name     string
	Args     []*Term
	S        string
	Reads    []string // state locations this term depends on
	Unsigned bool
	// NonNil is set for values known to be non-nil by construction (payload params, fresh objects).
	NonNil bool
	// Phi / ElemS: for KCount/KExists, the counted condition as literals over the loop element term ElemS.
	Phi   []Lit
	ElemS string
	Table string
	// Fields: for a struct literal value, the field names of Args (a value read back by selector)
	Fields []string
	// Fun: for a function value, what it denotes (funcval.go)
	Fun *FuncVal
	// Keys: for a map literal with constant keys, the key terms of Args (a switch written as data)
	Keys []*Term
	// BLit: for a boolean value written as a simple comparison inside a literal ("{cfg.X == nil, ...}"), the literal it
	// stands for; it is decided where the value is tested, not where it is written (a table of conditions is data)
	BLit *Lit
	// List: the term is a literal list (array / slice written out element by element, possibly extended by append)
	List bool
	// ST: for a struct literal value, its struct type (a struct-valued field assigned as a whole is written field-wise)
	ST *types.Struct
}

func uniq(ss []string) []string {
	if len(ss) < 2 {
		return ss
	}
	sort.Strings(ss)
	out := ss[:1]
	for _, s := range ss[1:] {
		if s != out[len(out)-1] {
			out = append(out, s)
		}
	}
	return out
}

func mkTerm(k TermKind, name string, args ...*Term) *Term {
	t := &Term{K: k, Name: name, Args: args}
	var reads []string
	for _, a := range args {
		if a != nil {
			reads = append(reads, a.Reads...)
		}
	}
	switch k {
	case KField:
		loc := name
		// location is the first two components: ctx.X
		parts := strings.SplitN(name, ".", 3)
		if len(parts) >= 2 {
			loc = parts[0] + "." + parts[1]
		}
		reads = append(reads, loc)
		t.S = name
	case KIndex:
		t.S = args[0].S + "[" + args[1].S + "]"
	case KCall:
		var as []string
		for _, a := range args {
			as = append(as, a.S)
		}
		t.S = name + "(" + strings.Join(as, ",") + ")"
	case KParam:
		t.S = "p:" + name
	case KConst:
		t.S = name
	case KNil:
		t.S = "nil"
	case KLocal:
		t.S = "l:" + name
	case KElem:
		t.S = "elem(" + args[0].S + ")#" + name
	case KLen:
		t.S = "len(" + args[0].S + ")"
	case KBin:
		t.S = "(" + args[0].S + name + args[1].S + ")"
	case KSel:
		t.S = args[0].S + "." + name
	case KCount:
		t.S = "count{" + name + "}"
	case KExists:
		t.S = "exists{" + name + "}"
	case KOpaque:
		t.S = "?" + name
	}
	t.Reads = uniq(reads)
	return t
}

func (t *Term) String() string { return t.S }

func (t *Term) readsLoc(loc string) bool {
	for _, r := range t.Reads {
		if r == loc {
			return true
		}
	}
	return false
}

func (t *Term) isConst() bool { return t.K == KConst }

// ---- atoms ----

type Atom struct {
	Op    string // "nn" non-nil, "lt", "eq", "b" (boolean term), "q" quorum (count >= K)
	A, B  *Term
	S     string
	Reads []string
}

func mkAtom(op string, a, b *Term) *Atom {
	at := &Atom{Op: op, A: a, B: b}
	switch op {
	case "eq":
		// canonical order: constants last, otherwise by string
		if a.isConst() && !b.isConst() || (!a.isConst() == !b.isConst() && b.S < a.S) {
			a, b = b, a
			at.A, at.B = a, b
		}
		at.S = a.S + "==" + b.S
	case "lt":
		at.S = a.S + "<" + b.S
	case "nn":
		at.S = a.S + "!=nil"
	case "b":
		at.S = a.S
	case "q":
		at.S = a.S + ">=" + b.S
	}
	at.Reads = append(at.Reads, a.Reads...)
	if b != nil {
		at.Reads = append(at.Reads, b.Reads...)
	}
	at.Reads = uniq(at.Reads)
	return at
}

func (a *Atom) readsLoc(loc string) bool {
	for _, r := range a.Reads {
		if r == loc {
			return true
		}
	}
	return false
}

type Lit struct {
	A   *Atom
	Pos bool
}

func (l Lit) String() string {
	if l.Pos {
		return l.A.S
	}
	return "!(" + l.A.S + ")"
}
func (l Lit) Neg() Lit { return Lit{l.A, !l.Pos} }

// ---- lemma implications ----

// An Implication is "premise ⇒ conclusions" where the premise is matched by pattern.
type Implication struct {
	Name  string
	Match func(l Lit) []Lit // returns consequences of l (nil if not applicable)
}

var globalImps []*Implication

// ---- facts ----

type Facts struct {
	m     map[string]bool
	atoms map[string]*Atom
	bad   bool
}

func newFacts() *Facts { return &Facts{m: map[string]bool{}, atoms: map[string]*Atom{}} }

func (f *Facts) clone() *Facts {
	g := &Facts{m: make(map[string]bool, len(f.m)+4), atoms: make(map[string]*Atom, len(f.atoms)+4), bad: f.bad}
	for k, v := range f.m {
		g.m[k] = v
	}
	for k, v := range f.atoms {
		g.atoms[k] = v
	}
	return g
}

func (f *Facts) key() string {
	ks := make([]string, 0, len(f.m))
	for k, v := range f.m {
		if v {
			ks = append(ks, k)
		} else {
			ks = append(ks, "!"+k)
		}
	}
	sort.Strings(ks)
	return strings.Join(ks, " & ")
}

func (f *Facts) String() string { return f.key() }

// known returns (value, true) if the atom's truth value is determined syntactically or by stored facts.
func (f *Facts) known(a *Atom) (bool, bool) {
	if v, ok := triv(a); ok {
		return v, true
	}
	v, ok := f.m[a.S]
	return v, ok
}

// triv decides atoms that are constant by construction.
func triv(a *Atom) (bool, bool) {
	switch a.Op {
	case "nn":
		if a.A.K == KNil {
			return false, true
		}
		if a.A.NonNil {
			return true, true
		}
	case "eq":
		if a.A.S == a.B.S {
			return true, true
		}
		if a.A.isConst() && a.B.isConst() && isNumeric(a.A.S) == isNumeric(a.B.S) {
			return a.A.S == a.B.S, true
		}
		if a.A.K == KNil && a.B.NonNil || a.B.K == KNil && a.A.NonNil {
			return false, true
		}
	case "lt":
		if a.A.S == a.B.S {
			return false, true
		}
		if a.A.Unsigned && a.B.isConst() && a.B.S == "0" {
			return false, true
		}
		if a.A.isConst() && a.B.isConst() {
			var x, y int64
			if _, e1 := fmt.Sscan(a.A.S, &x); e1 == nil {
				if _, e2 := fmt.Sscan(a.B.S, &y); e2 == nil {
					return x < y, true
				}
			}
		}
	case "b":
		if a.A.isConst() {
			if a.A.S == "true" {
				return true, true
			}
			if a.A.S == "false" {
				return false, true
			}
		}
	}
	return false, false
}

// add asserts a literal; returns false if the fact set became inconsistent.
func (f *Facts) add(l Lit) bool {
	if f.bad {
		return false
	}
	work := []Lit{l}
	for len(work) > 0 {
		l := work[0]
		work = work[1:]
		if v, ok := f.known(l.A); ok {
			if v != l.Pos {
				f.bad = true
				return false
			}
			continue
		}
		f.m[l.A.S] = l.Pos
		f.atoms[l.A.S] = l.A
		a := l.A
		switch a.Op {
		case "lt":
			if l.Pos {
				work = append(work, Lit{mkAtom("lt", a.B, a.A), false}, Lit{mkAtom("eq", a.A, a.B), false})
				// a < b with unsigned a ⇒ b != 0 ; (0 <= a < b)
				if a.A.Unsigned || (a.A.isConst() && !strings.HasPrefix(a.A.S, "-")) {
					work = append(work, Lit{mkAtom("eq", a.B, constTerm("0")), false})
					work = append(work, Lit{mkAtom("lt", a.B, constTerm("0")), false})
				}
			} else {
				// !(a<b): if also !(b<a) then a==b
				rev := mkAtom("lt", a.B, a.A)
				if v, ok := f.known(rev); ok && !v {
					work = append(work, Lit{mkAtom("eq", a.A, a.B), true})
				}
				// !(a<b) && a!=b ⇒ b<a
				eq := mkAtom("eq", a.A, a.B)
				if v, ok := f.known(eq); ok && !v {
					work = append(work, Lit{rev, true})
				}
			}
		case "eq":
			if l.Pos {
				work = append(work, Lit{mkAtom("lt", a.A, a.B), false}, Lit{mkAtom("lt", a.B, a.A), false})
				// distinct constants
				if a.B.isConst() {
					for k, v := range f.m {
						o := f.atoms[k]
						if v && o.Op == "eq" && o != a && o.A.S == a.A.S && o.B.isConst() && o.B.S != a.B.S {
							f.bad = true
							return false
						}
					}
				}
				// transitivity, one step: a == b with b == c known ⇒ a == c; with b != c known ⇒ a != c
				for k, v := range f.m {
					o := f.atoms[k]
					if o == nil || o.Op != "eq" || o == a || o.S == a.S {
						continue
					}
					for _, pr := range [][2]*Term{{a.A, a.B}, {a.B, a.A}} {
						x, y := pr[0], pr[1] // x == y
						var z *Term
						if o.A.S == y.S {
							z = o.B
						} else if o.B.S == y.S {
							z = o.A
						}
						if z == nil || z.S == x.S {
							continue
						}
						work = append(work, Lit{mkAtom("eq", x, z), v})
					}
				}
				// sign transfer: a == b, b unsigned ⇒ !(a<0)
				zero := constTerm("0")
				if a.B.Unsigned {
					work = append(work, Lit{mkAtom("lt", a.A, zero), false})
				}
				if a.A.Unsigned {
					work = append(work, Lit{mkAtom("lt", a.B, zero), false})
				}
				// nil transfer
				if a.B.K == KNil {
					work = append(work, Lit{mkAtom("nn", a.A, nil), false})
				}
				// substitution: facts about slot T[a] transfer to T[b] (one level)
				for k, v := range f.m {
					o := f.atoms[k]
					if o.Op == "nn" && o.A.K == KIndex {
						if o.A.Args[1].S == a.A.S {
							work = append(work, Lit{mkAtom("nn", mkTerm(KIndex, "", o.A.Args[0], a.B), nil), v})
						} else if o.A.Args[1].S == a.B.S {
							work = append(work, Lit{mkAtom("nn", mkTerm(KIndex, "", o.A.Args[0], a.A), nil), v})
						}
					}
				}
			} else {
				if a.B.K == KNil {
					work = append(work, Lit{mkAtom("nn", a.A, nil), true})
				}
				// a != b with a == c known ⇒ c != b (and symmetrically)
				for k, v := range f.m {
					o := f.atoms[k]
					if o == nil || o.Op != "eq" || !v || o.S == a.S {
						continue
					}
					for _, pr := range [][2]*Term{{a.A, a.B}, {a.B, a.A}} {
						x, y := pr[0], pr[1] // x != y
						var z *Term
						if o.A.S == x.S {
							z = o.B
						} else if o.B.S == x.S {
							z = o.A
						}
						if z == nil || z.S == y.S {
							continue
						}
						work = append(work, Lit{mkAtom("eq", z, y), false})
					}
				}
				// a!=b && !(a<b) ⇒ b<a
				l1 := mkAtom("lt", a.A, a.B)
				l2 := mkAtom("lt", a.B, a.A)
				if v, ok := f.known(l1); ok && !v {
					work = append(work, Lit{l2, true})
				}
				if v, ok := f.known(l2); ok && !v {
					work = append(work, Lit{l1, true})
				}
			}
		case "nn":
			// transfer along known index equalities
			if a.A.K == KIndex {
				for k, v := range f.m {
					o := f.atoms[k]
					if v && o.Op == "eq" {
						if o.A.S == a.A.Args[1].S {
							work = append(work, Lit{mkAtom("nn", mkTerm(KIndex, "", a.A.Args[0], o.B), nil), l.Pos})
						} else if o.B.S == a.A.Args[1].S {
							work = append(work, Lit{mkAtom("nn", mkTerm(KIndex, "", a.A.Args[0], o.A), nil), l.Pos})
						}
					}
				}
			}
		}
		for _, imp := range globalImps {
			if cs := imp.Match(l); cs != nil {
				work = append(work, cs...)
			}
		}
	}
	return true
}

// value determines an atom's value using stored facts and one-step refutation.
func (f *Facts) value(a *Atom) (bool, bool) {
	if v, ok := f.known(a); ok {
		return v, true
	}
	g := f.clone()
	if !g.add(Lit{a, true}) {
		return false, true
	}
	g = f.clone()
	if !g.add(Lit{a, false}) {
		return true, true
	}
	return false, false
}

// dropLoc removes every fact that reads the location (used for unknown writes).
func (f *Facts) dropLoc(loc string) {
	for k, a := range f.atoms {
		if a.readsLoc(loc) {
			delete(f.m, k)
			delete(f.atoms, k)
		}
	}
}

// dropIf removes facts selected by pred.
func (f *Facts) dropIf(pred func(a *Atom, val bool) bool) {
	for k, a := range f.atoms {
		if pred(a, f.m[k]) {
			delete(f.m, k)
			delete(f.atoms, k)
		}
	}
}

func isNumeric(s string) bool {
	if s == "" {
		return false
	}
	for i, c := range s {
		if !(c >= '0' && c <= '9') && !(i == 0 && c == '-') {
			return false
		}
	}
	return true
}

var constCache = map[string]*Term{}

func constTerm(v string) *Term {
	if t, ok := constCache[v]; ok {
		return t
	}
	t := mkTerm(KConst, v)
	constCache[v] = t
	return t
}

var nilTerm = mkTerm(KNil, "")
