package main

// State lemmas used as implications between atoms of the same state (DESIGN 3.2).
// Their structural obligations are checked by the rules L1-OBL / L2-OBL / L3-OBL.

func init() {
	prim := func() *Atom { return mkAtom("nn", slot("PreparationPayloads", tPrimaryIndex), nil) }
	own := func(t string) *Atom { return mkAtom("nn", slot(t, tMyIndex), nil) }
	cache := func(f string) *Atom { return mkAtom("nn", fld("ctx."+f, false), nil) }
	// premises whose truth implies "proposal recorded"
	prem := map[string]bool{}
	for _, a := range []*Atom{own("CommitPayloads"), own("PreCommitPayloads"), own("PreparationPayloads"), cache("header"), cache("preHeader"), cache("block"), cache("preBlock")} {
		prem[a.S] = true
	}
	premAtoms := []*Atom{own("CommitPayloads"), own("PreCommitPayloads"), own("PreparationPayloads"), cache("header"), cache("preHeader"), cache("block"), cache("preBlock")}
	globalImps = append(globalImps, &Implication{Name: "L1/L2 own (pre)commit, own preparation or cached header ⇒ proposal recorded", Match: func(l Lit) []Lit {
		if l.Pos && prem[l.A.S] {
			return []Lit{{prim(), true}}
		}
		if !l.Pos && l.A.S == prim().S {
			var out []Lit
			for _, a := range premAtoms {
				out = append(out, Lit{a, false})
			}
			return out
		}
		return nil
	}})
	// L4 (payload contract A9): the payload stored in the primary's preparation slot is a PrepareRequest
	globalImps = append(globalImps, &Implication{Name: "L4 stored proposal has a PrepareRequest body", Match: func(l Lit) []Lit {
		if l.Pos && l.A.S == prim().S {
			req := mkTerm(KCall, "ConsensusMessage.GetPrepareRequest", slot("PreparationPayloads", tPrimaryIndex))
			return []Lit{{mkAtom("nn", req, nil), true}}
		}
		return nil
	}})
	// L3: a stored pre-commit implies the anti-MEV extension is enabled at this height
	globalImps = append(globalImps, &Implication{Name: "L3 stored pre-commit ⇒ anti-MEV enabled", Match: func(l Lit) []Lit {
		if l.Pos && l.A.Op == "nn" && (l.A.A.K == KIndex || l.A.A.K == KElem) && l.A.A.Args[0].S == "ctx.PreCommitPayloads" {
			return []Lit{{mkAtom("lt", tAMEVHeight, tZero), false}, {mkAtom("lt", tBlockIndex, tAMEVHeight), false}}
		}
		return nil
	}})
}
