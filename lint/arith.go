package main

// Affine normal forms for integer terms (thresholds, C06 formulas, C15/C18 arithmetic).

import (
	"fmt"
	"sort"
	"strconv"
	"strings"
)

// Lin is const + Σ coeff·monomial ; monomials are canonical strings.
type Lin struct {
	C int64
	M map[string]int64
}

func linConst(c int64) *Lin { return &Lin{C: c, M: map[string]int64{}} }
func linMono(m string) *Lin { return &Lin{M: map[string]int64{m: 1}} }

func (a *Lin) add(b *Lin, sign int64) *Lin {
	r := &Lin{C: a.C + sign*b.C, M: map[string]int64{}}
	for k, v := range a.M {
		r.M[k] = v
	}
	for k, v := range b.M {
		r.M[k] += sign * v
		if r.M[k] == 0 {
			delete(r.M, k)
		}
	}
	return r
}

func (a *Lin) scale(c int64) *Lin {
	r := &Lin{C: a.C * c, M: map[string]int64{}}
	if c == 0 {
		return r
	}
	for k, v := range a.M {
		r.M[k] = v * c
	}
	return r
}

func (a *Lin) isConst() bool { return len(a.M) == 0 }

func (a *Lin) String() string {
	var ks []string
	for k := range a.M {
		ks = append(ks, k)
	}
	sort.Strings(ks)
	var sb strings.Builder
	for _, k := range ks {
		c := a.M[k]
		switch {
		case c == 1:
			sb.WriteString("+" + k)
		case c == -1:
			sb.WriteString("-" + k)
		case c > 0:
			sb.WriteString(fmt.Sprintf("+%d*%s", c, k))
		default:
			sb.WriteString(fmt.Sprintf("%d*%s", c, k))
		}
	}
	if a.C != 0 || len(ks) == 0 {
		if a.C >= 0 {
			sb.WriteString("+" + strconv.FormatInt(a.C, 10))
		} else {
			sb.WriteString(strconv.FormatInt(a.C, 10))
		}
	}
	return strings.TrimPrefix(sb.String(), "+")
}

// arithNF computes the normal form of an integer term.
func arithNF(t *Term) *Lin {
	switch t.K {
	case KConst:
		if v, err := strconv.ParseInt(t.Name, 0, 64); err == nil {
			return linConst(v)
		}
		return linMono(t.S)
	case KBin:
		a, b := arithNF(t.Args[0]), arithNF(t.Args[1])
		switch t.Name {
		case "+":
			return a.add(b, 1)
		case "-":
			return a.add(b, -1)
		case "*":
			if a.isConst() {
				return b.scale(a.C)
			}
			if b.isConst() {
				return a.scale(b.C)
			}
			x, y := a.String(), b.String()
			if y < x {
				x, y = y, x
			}
			return linMono("mul(" + x + "," + y + ")")
		case "/":
			if a.isConst() && b.isConst() && b.C != 0 {
				return linConst(a.C / b.C)
			}
			if b.isConst() && b.C == 1 {
				return a
			}
			return linMono("div(" + a.String() + "," + b.String() + ")")
		case "%":
			return linMono("mod(" + a.String() + "," + b.String() + ")")
		case "<<":
			if b.isConst() && b.C >= 0 && b.C < 62 {
				return a.scale(1 << uint(b.C))
			}
			return linMono("shl(" + a.String() + "," + b.String() + ")")
		}
		return linMono(t.S)
	}
	return linMono(t.S)
}

func nfString(t *Term) string { return arithNF(t).String() }
