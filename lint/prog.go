package main

// Program model: loads /repo with go/packages, indexes functions, struct fields
// and resolves the public roles the rules are keyed on.

import (
	"fmt"
	"go/ast"
	"go/token"
	"go/types"
	"os"
	"sort"
	"strings"

	"golang.org/x/tools/go/packages"
)

const modPath = "github.com/nspcc-dev/dbft"

// FuncInfo is one source function (declaration with a body).
type FuncInfo struct {
	Obj  *types.Func // origin object
	Decl *ast.FuncDecl
	Pkg  *packages.Package
	Name string // short name, e.g. "onCommit" or "Context.reset"
	Recv string // owner type name of the receiver ("DBFT","Context","cache","rtt",...) or ""
	// RecvVar is the receiver variable (may be nil).
	RecvVar *types.Var
	Params  []*types.Var
}

type Program struct {
	Fset  *token.FileSet
	Pkgs  map[string]*packages.Package // by path suffix: "", "timer", "internal/consensus", ...
	Funcs map[*types.Func]*FuncInfo
	// ByName: short name -> funcs (package dbft only for unqualified)
	ByName map[string]*FuncInfo

	// field owner index for package dbft structs
	FieldOwner map[*types.Var]string // field -> owner struct name
	Structs    map[string]*types.Struct
	FieldAlias map[*types.Var]string // private field -> role name (roles_fields.go)
	// holders (holders.go): a private struct grouping state fields of Context by value is transparent
	HolderSubs map[string][]*types.Var   // location of the holder field ("ctx.blocks") -> its sub-fields
	HolderOf   map[*types.Var]*types.Var // sub-field -> holder field
	HolderType map[string]string         // holder type name -> location of the holder field
	tentativeHolders, tentativeType []string
	TypeAlias  map[string]string         // private type name -> role name

	// callers: callee -> list of call sites (filled by callgraph.go)
	nFuncs int
}

func (p *Program) Pos(n ast.Node) string {
	if n == nil {
		return "?"
	}
	pos := p.Fset.Position(n.Pos())
	f := pos.Filename
	if i := strings.Index(f, "/repo/"); i >= 0 {
		f = f[i+len("/repo/"):]
	} else if repoDir != "" && strings.HasPrefix(f, repoDir) {
		f = strings.TrimPrefix(strings.TrimPrefix(f, repoDir), "/")
	}
	return fmt.Sprintf("%s:%d", f, pos.Line)
}

var repoDir string

func loadProgram(dir string, tags string, env []string) (*Program, error) {
	repoDir = dir
	cfg := &packages.Config{
		Mode:  packages.LoadAllSyntax,
		Dir:   dir,
		Tests: false,
		Env:   append(append(os.Environ(), "GOFLAGS=-mod=mod", "GOWORK=off", "GOPROXY=off"), env...),
	}
	if tags != "" {
		cfg.BuildFlags = []string{"-tags=" + tags}
	}
	pkgs, err := packages.Load(cfg, "./...")
	if err != nil {
		return nil, err
	}
	prog := &Program{
		Pkgs:       map[string]*packages.Package{},
		Funcs:      map[*types.Func]*FuncInfo{},
		ByName:     map[string]*FuncInfo{},
		FieldOwner: map[*types.Var]string{},
		Structs:    map[string]*types.Struct{},
	}
	var errs []string
	for _, p := range pkgs {
		for _, e := range p.Errors {
			errs = append(errs, e.Error())
		}
		if !strings.HasPrefix(p.PkgPath, modPath) {
			continue
		}
		prog.Fset = p.Fset
		suffix := strings.TrimPrefix(strings.TrimPrefix(p.PkgPath, modPath), "/")
		prog.Pkgs[suffix] = p
	}
	if len(errs) > 0 {
		return nil, fmt.Errorf("type-check/load errors: %s", strings.Join(errs, "; "))
	}
	if len(prog.Pkgs) == 0 {
		return nil, fmt.Errorf("no packages of %s loaded from %s", modPath, dir)
	}
	for suffix, p := range prog.Pkgs {
		for _, f := range p.Syntax {
			for _, d := range f.Decls {
				switch d := d.(type) {
				case *ast.FuncDecl:
					if d.Body == nil {
						continue
					}
					obj, _ := p.TypesInfo.Defs[d.Name].(*types.Func)
					if obj == nil {
						continue
					}
					fi := &FuncInfo{Obj: obj, Decl: d, Pkg: p, Name: d.Name.Name}
					sig := obj.Type().(*types.Signature)
					if r := sig.Recv(); r != nil {
						fi.RecvVar = r
						fi.Recv = namedName(r.Type())
						if fi.Recv != "DBFT" {
							fi.Name = fi.Recv + "." + d.Name.Name
						}
					}
					for i := 0; i < sig.Params().Len(); i++ {
						fi.Params = append(fi.Params, sig.Params().At(i))
					}
					prog.Funcs[obj] = fi
					key := fi.Name
					if suffix != "" {
						key = suffix + ":" + fi.Name
					}
					prog.ByName[key] = fi
				case *ast.GenDecl:
					if d.Tok != token.TYPE {
						continue
					}
					for _, s := range d.Specs {
						ts := s.(*ast.TypeSpec)
						tn, _ := p.TypesInfo.Defs[ts.Name].(*types.TypeName)
						if tn == nil {
							continue
						}
						if _, isIface := tn.Type().Underlying().(*types.Interface); isIface && suffix == "" {
							rootIfaces[tn.Name()] = true
						}
						st, ok := tn.Type().Underlying().(*types.Struct)
						if !ok {
							continue
						}
						name := tn.Name()
						if suffix != "" {
							name = suffix + ":" + name
						}
						prog.Structs[name] = st
						for i := 0; i < st.NumFields(); i++ {
							prog.FieldOwner[st.Field(i).Origin()] = name
						}
					}
				}
			}
		}
	}
	prog.nFuncs = len(prog.Funcs)
	prog.flattenHolders()
	prog.deriveAliases()
	if prog.settleHolders() {
		prog.deriveAliases()
	}
	return prog, nil
}

// namedName returns the name of the (pointer to) named type, without type args.
func namedName(t types.Type) string {
	if p, ok := t.(*types.Pointer); ok {
		t = p.Elem()
	}
	t = types.Unalias(t)
	if n, ok := t.(*types.Named); ok {
		return n.Obj().Name()
	}
	return ""
}

func namedPkgPath(t types.Type) string {
	if p, ok := t.(*types.Pointer); ok {
		t = p.Elem()
	}
	t = types.Unalias(t)
	if n, ok := t.(*types.Named); ok && n.Obj().Pkg() != nil {
		return n.Obj().Pkg().Path()
	}
	return ""
}

func (p *Program) sortedFuncs() []*FuncInfo {
	var out []*FuncInfo
	for _, f := range p.Funcs {
		out = append(out, f)
	}
	sort.Slice(out, func(i, j int) bool {
		if out[i].Pkg.PkgPath != out[j].Pkg.PkgPath {
			return out[i].Pkg.PkgPath < out[j].Pkg.PkgPath
		}
		return out[i].Name < out[j].Name
	})
	return out
}

func (p *Program) dbftFuncs() []*FuncInfo {
	var out []*FuncInfo
	for _, f := range p.sortedFuncs() {
		if f.Pkg.PkgPath == modPath {
			out = append(out, f)
		}
	}
	return out
}

// fn looks a dbft function up by short name; nil if absent.
func (p *Program) fn(name string) *FuncInfo { return p.ByName[name] }
