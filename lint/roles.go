package main

// Roles of private functions and types are derived from the public API they serve, not from their names.

import (
	"go/ast"
	"go/types"
	"strings"

	"golang.org/x/tools/go/types/typeutil"
)

// calleesOfCluster: module functions called (statically) from fn or its single-caller helpers.
func (c *RC) calleesOfCluster(fn *FuncInfo) []*FuncInfo {
	var out []*FuncInfo
	seen := map[*FuncInfo]bool{}
	for _, mem := range c.clusterFns(fn) {
		info := mem.Pkg.TypesInfo
		ast.Inspect(mem.Decl.Body, func(n ast.Node) bool {
			if call, ok := n.(*ast.CallExpr); ok {
				if fo, ok := typeutil.Callee(info, call).(*types.Func); ok {
					if t := c.Prog.Funcs[fo.Origin()]; t != nil && !seen[t] {
						seen[t] = true
						out = append(out, t)
					}
				}
			}
			return true
		})
	}
	return out
}

// configChecker: the validator New consults — a function func(*Config) error called from New (or its helpers).
func (c *RC) configChecker() *FuncInfo {
	if c.cfgChecker != nil {
		return c.cfgChecker
	}
	nw := c.Prog.fn("New")
	if nw == nil {
		return nil
	}
	var cands []*FuncInfo
	for _, t := range c.calleesOfCluster(nw) {
		sig := t.Obj.Type().(*types.Signature)
		if t.RecvVar == nil && sig.Params().Len() == 1 && namedName(sig.Params().At(0).Type()) == "Config" && errorOnly(t) {
			cands = append(cands, t)
		}
	}
	// the outermost one: not called from another candidate (a validator split into parts)
	for _, t := range cands {
		inner := false
		for _, u := range cands {
			if u == t {
				continue
			}
			for _, s := range c.A.FnSites[u] {
				if s.Kind == "call" && s.Target == t {
					inner = true
				}
			}
		}
		if !inner {
			c.cfgChecker = t
		}
	}
	return c.cfgChecker
}

// configDefaulter: the function New obtains the initial *Config from (no parameters, returns *Config).
func (c *RC) configDefaulter() *FuncInfo {
	nw := c.Prog.fn("New")
	if nw == nil {
		return nil
	}
	for _, t := range c.calleesOfCluster(nw) {
		sig := t.Obj.Type().(*types.Signature)
		if t.RecvVar == nil && sig.Params().Len() == 0 && sig.Results().Len() == 1 && namedName(sig.Results().At(0).Type()) == "Config" {
			return t
		}
	}
	return nil
}

// recoveryImpl: the method `name` of the reference type implementing the RecoveryMessage interface (the type that has
// AddPayload and GetPrepareRequest).
func (c *RC) recoveryImpl(name string) *FuncInfo {
	for key, fn := range c.Prog.ByName {
		if strings.HasPrefix(key, "internal/consensus:") && strings.HasSuffix(key, ".AddPayload") {
			tn := strings.TrimSuffix(strings.TrimPrefix(key, "internal/consensus:"), ".AddPayload")
			if c.Prog.ByName["internal/consensus:"+tn+".GetPrepareRequest"] != nil {
				_ = fn
				return c.Prog.ByName["internal/consensus:"+tn+"."+name]
			}
		}
	}
	return nil
}

// messageDecoder: the DecodeBinary of the reference consensus-message envelope: the decoder whose cluster switches over
// the MessageType constants to allocate the body.
func (c *RC) messageDecoder() *FuncInfo {
	var best *FuncInfo
	bestN := 0
	for _, ct := range c.codecTypes() {
		n := 0
		for _, mem := range c.clusterFns(ct.dec) {
			info := mem.Pkg.TypesInfo
			ast.Inspect(mem.Decl.Body, func(x ast.Node) bool {
				if cc, ok := x.(*ast.CaseClause); ok {
					for _, e := range cc.List {
						if strings.HasSuffix(constName(info, e), "Type") {
							n++
						}
					}
				}
				return true
			})
		}
		if n > bestN {
			best, bestN = ct.dec, n
		}
	}
	if bestN < 5 {
		// no switch over the kinds (a table of constructors, say): the codec type that carries its body as an interface
		for _, ct := range c.codecTypes() {
			for i := 0; i < ct.st.NumFields(); i++ {
				if it, ok := ct.st.Field(i).Type().Underlying().(*types.Interface); ok && it.NumMethods() == 0 {
					return ct.dec
				}
			}
		}
		return nil
	}
	return best
}

// merkleBuilder: the function of internal/merkle that computes parent hashes (calls Hash256, itself or through a
// single-caller helper) and is not such a helper.
func (c *RC) merkleBuilder() *FuncInfo {
	for _, fn := range c.Prog.sortedFuncs() {
		if fn.Pkg.PkgPath != modPath+"/internal/merkle" || c.A.inlinable(fn) {
			continue
		}
		if len(c.collectNorm(fn, "Hash256").calls["Hash256"]) > 0 {
			return fn
		}
	}
	return nil
}
