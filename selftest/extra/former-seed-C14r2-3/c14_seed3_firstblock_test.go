package dbft_test

// Demonstration for seeded change 3 (C14, clock-shift invariance).
// Copy into the repository root (package dbft_test, next to dbft_test.go, whose
// helpers it reuses) and run:
//
//	go test -count=1 -run TestC14Seed3 .

import (
	"fmt"
	"testing"
	"time"

	"github.com/nspcc-dev/dbft"
	"github.com/nspcc-dev/dbft/internal/consensus"
	"github.com/nspcc-dev/dbft/internal/crypto"
	"github.com/stretchr/testify/assert"
	"github.com/stretchr/testify/require"
)

// c14s3Clock is a fully scripted dbft.Timer: time only moves when the test
// moves it and every requested duration is written to the trace.
type c14s3Clock struct {
	now   time.Time
	h     uint32
	v     byte
	trace *[]string
}

func (c *c14s3Clock) Now() time.Time { return c.now }
func (c *c14s3Clock) Reset(h uint32, v byte, d time.Duration) {
	c.h, c.v = h, v
	*c.trace = append(*c.trace, fmt.Sprintf("timer.Reset h=%d v=%d d=%s", h, v, d))
}
func (c *c14s3Clock) Extend(d time.Duration) {
	*c.trace = append(*c.trace, fmt.Sprintf("timer.Extend d=%s", d))
}
func (c *c14s3Clock) Height() uint32          { return c.h }
func (c *c14s3Clock) View() byte              { return c.v }
func (c *c14s3Clock) C() <-chan time.Time     { return nil }
func (c *c14s3Clock) advance(d time.Duration) { c.now = c.now.Add(d) }

const c14s3TimePerBlock = 10 * time.Second // as set by testState.getOptions

// c14s3Run starts a fresh node on a chain that has the genesis block only
// (so the very first consensus instance is for height 1) against a clock
// starting at base+offset, lets the timer fire once and returns the trace with
// all absolute timestamps expressed relative to base+offset.
func c14s3Run(t *testing.T, myIndex int, base time.Time, offset time.Duration) []string {
	var trace []string

	s := newTestState(myIndex, 4)
	s.currHeight = 0 // height 1, primary is 1%4 == 1
	start := base.Add(offset)
	clk := &c14s3Clock{now: start, trace: &trace}
	rel := func(ts uint64) int64 { return int64(ts) - start.UnixNano() }

	opts := append(s.getOptions(),
		dbft.WithTimer[crypto.Uint256](clk),
		dbft.WithNewPrepareRequest[crypto.Uint256](func(ts uint64, nonce uint64, hashes []crypto.Uint256) dbft.PrepareRequest[crypto.Uint256] {
			trace = append(trace, fmt.Sprintf("PrepareRequest ts=start%+d", rel(ts)))
			return consensus.NewPrepareRequest(ts, nonce, hashes)
		}),
		dbft.WithNewChangeView[crypto.Uint256](func(v byte, r dbft.ChangeViewReason, ts uint64) dbft.ChangeView {
			trace = append(trace, fmt.Sprintf("ChangeView v=%d ts=start%+d", v, rel(ts)))
			return consensus.NewChangeView(v, r, ts)
		}),
		dbft.WithNewRecoveryRequest[crypto.Uint256](func(ts uint64) dbft.RecoveryRequest {
			trace = append(trace, fmt.Sprintf("RecoveryRequest ts=start%+d", rel(ts)))
			return consensus.NewRecoveryRequest(ts)
		}),
		dbft.WithBroadcast[crypto.Uint256](func(p Payload) {
			trace = append(trace, fmt.Sprintf("broadcast %s h=%d v=%d", p.Type(), p.Height(), p.ViewNumber()))
			s.ch = append(s.ch, p)
		}),
	)
	service, err := dbft.New[crypto.Uint256](opts...)
	require.NoError(t, err)

	// Genesis timestamp is one block interval behind the clock.
	service.Start(uint64(start.Add(-c14s3TimePerBlock).UnixNano()))
	require.Equal(t, myIndex == 1, service.IsPrimary())

	clk.advance(2 * c14s3TimePerBlock)
	trace = append(trace, "--- timeout")
	service.OnTimeout(clk.Height(), clk.View())

	return trace
}

func TestC14Seed3_FirstBlockTimerIsClockShiftInvariant(t *testing.T) {
	base := time.Date(2020, time.March, 1, 12, 0, 0, 0, time.UTC)
	year := 365 * 24 * time.Hour

	for _, myIndex := range []int{1, 2} { // primary and backup of height 1
		ref := c14s3Run(t, myIndex, base, 0)
		// Nothing is known about the previous block creation time on a fresh
		// node, so the first timer is always immediate.
		assert.Equal(t, "timer.Reset h=1 v=0 d=0s", ref[0], "trace of node %d:\n%v", myIndex, ref)

		for _, off := range []time.Duration{
			time.Millisecond, -time.Millisecond, time.Hour, -36 * time.Hour,
			-40 * year, -5 * year, 3 * year, 15 * year, 26 * year, 28 * year, 40 * year, 100 * year,
		} {
			got := c14s3Run(t, myIndex, base, off)
			assert.Equal(t, ref, got, "trace of node %d differs for clock offset %s", myIndex, off)
		}
	}
}
