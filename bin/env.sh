# Common environment for every check: offline Go, the toolchain /repo needs (go 1.24).
unset GOWORK GOSUMDB GONOSUMDB GOFLAGS
export GOPROXY=off GOFLAGS=-mod=mod GOWORK=off
T124=/root/go/pkg/mod/golang.org/toolchain@v0.0.1-go1.24.0.linux-amd64
if [ -x "$T124/bin/go" ]; then
  export PATH="$T124/bin:$PATH" GOTOOLCHAIN=local GOROOT="$T124"
else
  export GOTOOLCHAIN=auto
fi
VERIF=$(cd "$(dirname "$0")/.." && pwd)
REPO=${VERIF_REPO:-/repo}
