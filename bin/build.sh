#!/bin/sh
# Builds the checker from the vendored sources (offline).
set -e
. "$(dirname "$0")/env.sh"
cd "$VERIF/lint"
GOFLAGS=-mod=vendor go build -o "$VERIF/bin/dbftlint" .
echo "built $VERIF/bin/dbftlint"
