build:
	sh bin/build.sh
.PHONY: build
