#!/usr/bin/env python3
"""Generates /verif/MANIFEST.json from the table below (kept in one place so that it stays valid)."""
import json, os
HERE = os.path.dirname(os.path.dirname(os.path.abspath(__file__)))

A = "Assumptions A1-A8 of DESIGN.md 3.7 (callbacks pure w.r.t. the DBFT instance, single goroutine, Start first, 64-bit int, go/types faithful, no forged own-index payloads)."

CLAIMED = {
 "C13": dict(
   technique="all-paths guard analysis (path-condition algebra + backward demand over the resolved call graph)",
   text="Static all-paths rule G-SILENT: every call of Config.Broadcast, Block.Sign and PreBlock.SetData in package dbft is proven to be behind 'MyIndex>=0 and !Config.WatchOnly()' on every syntactic path from each of the six API entries; quantifies over every schedule/state because it quantifies over every path. This is the strongest decision a static argument gives for the silence clause.",
   note="Decides silence (first sentence). Does not decide that the other validators progress as with a silent validator (liveness, multi-node). " + A,
   ref="4/C13"),
 "C14": dict(
   technique="who-may-call (types.Func identity) + value provenance of time.Time",
   text="O-NO-WALLCLOCK: no function of package dbft references time.Now/Since/Until/After/AfterFunc/Tick/NewTimer/NewTicker/Sleep (calls or method values). P-INSTANT: every time.Time stored in state and every UnixNano() that becomes a timestamp originates in Config.Timer.Now(), and instants are combined only by shift-equivariant operations.",
   note="Decides that time enters only through the injected timer (the structural cause of clock-shift invariance). The equality of two whole shifted runs is a consequence and is not re-established by running anything; the random nonce is not time. " + A,
   ref="4/C14"),
}

PENDING_REASON = "check not built yet in this session (see DESIGN.md section 8 build order); claimed as soon as its rules are exact on the tree"
NOT_APPLICABLE = {}

def main():
    props = [json.loads(l) for l in open(os.path.join(HERE, "properties.jsonl"))]
    checks, na = [], []
    for p in props:
        pid = p["id"]
        if pid in CLAIMED:
            c = CLAIMED[pid]
            checks.append({
                "property_id": pid,
                "quick_cmd": "bin/check %s --tier quick" % pid,
                "thorough_cmd": "bin/check %s --tier thorough" % pid,
                "evidence_file": "/verif/evidence/%s.json" % pid,
                "replay_cmd_template": "bin/check %s --tier quick" % pid,
                "engine": "dbftlint" if pid != "C20" else "tlalint",
                "level_claimed": {"category": "other", "text": c["text"], "design_ref": "DESIGN.md " + c["ref"]},
                "level_note": c["note"],
                "technique": c["technique"],
            })
        else:
            na.append({"property_id": pid, "reason": NOT_APPLICABLE.get(pid, PENDING_REASON)})
    m = {
        "version": 1,
        "setup_cmd": "sh bin/build.sh",
        "hooks": {"guard": "verif", "enable": "none needed: static analysis reads the sources, nothing is instrumented",
                  "baseline_off_cmd": "cd /repo && go test -count=1 ./...", "source_commits": [], "add_only": True},
        "engines": [
            {"name": "dbftlint", "path": "/verif/lint", "serves_properties": sorted(k for k in CLAIMED if k != "C20"),
             "kind_free_text": "repository-specific static analyser over go/packages+go/types: path-condition (guard) algebra with backward demand over the call graph, ownership/provenance/agreement/arith rules"},
            {"name": "tlalint", "path": "/verif/tla", "serves_properties": ["C20"] if "C20" in CLAIMED else [],
             "kind_free_text": "syntactic typing/guard discipline over the SANY semantic tree of the TLA+ specs"},
        ],
        "checks": checks,
        "not_applicable": na,
        "notes": "Static analysis only: no check executes the library, its tests, the simulation or a model checker. Known findings: /verif/known_findings.json.",
    }
    json.dump(m, open(os.path.join(HERE, "MANIFEST.json"), "w"), indent=1)
    print("claimed:", [c["property_id"] for c in checks], "pending:", [n["property_id"] for n in na])

main()
