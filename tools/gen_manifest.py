#!/usr/bin/env python3
"""Generates /verif/MANIFEST.json from the table below (kept in one place so that it stays valid)."""
import json, os
HERE = os.path.dirname(os.path.dirname(os.path.abspath(__file__)))

A = "Assumptions A1-A6, A8 of DESIGN.md 3.7 (callbacks pure w.r.t. the DBFT instance and not re-entering it, single goroutine, Start first, 64-bit int, go/types faithful; A7 is withdrawn: a node may receive its own payloads back after a restart)."

CLAIMED = {

 "C01": dict(technique="composite of guard/quorum/arith rules (path-condition algebra, affine normal forms)",
   text="Decides that the four per-node mechanisms agreement rests on are intact on every path: acceptance behind an M-of-N current-view commit quorum, (pre)commit behind an M-of-N current-view preparation quorum containing the request, commit lock on ChangeView sends and view changes, view change behind an M-of-N ChangeView quorum, F=(N-1) div 3 and M=N-F; (pre)commits verified on store under the sender's key and re-validated when the proposal arrives — the latter is the known finding D6 on this tree (early commits are not re-validated; an equivocating primary can split two honest nodes), printed as KNOWN-FINDING. A structural necessary condition: breaking any of them breaks agreement.",
   note="Does NOT decide agreement itself (joint histories of several nodes under an adversarial scheduler, quorum intersection across nodes, amnesia restarts): no static argument in reach composes per-node path facts into that. " + A, ref="4/C01"),
 "C02": dict(technique="guard + quorum-atom analysis, ownership and provenance rules",
   text="ProcessBlock/ProcessPreBlock have one call site each, proven to be behind an M-of-N quorum counted over current-view entries of the per-validator table with all transactions present; stores into per-validator tables are keyed by the payload's own validator index; PrevHash/BlockIndex come from the ledger callbacks, Timestamp/Nonce/TransactionHashes only from the admitted proposal or the proposal builder; transactions filled in proposal order; every Verify call checks a payload's own signature under its sender's key; a stored current-view (pre)commit stays unverified only while the header/pre-block cannot be built (or a transaction is missing and completion re-validates), re-validation precedes every call that can count the entries, and re-validation builds the header rather than reading an empty cache (G-VERIFY-WINDOW).",
   note="Does not decide that Block.Verify is a sound signature check, nor callback contracts. The re-validation of early (pre)commits is decided by D-REVALIDATE, whose two reports on the pinned tree are the known finding D6 (known_findings.json). " + A, ref="4/C02"),
 "C03": dict(technique="typed send-site guard analysis (all paths), ownership",
   text="Every typed broadcast site is behind its 'not said yet' guard on every path from every API entry; own Commit/PreCommit constructed only with an empty own slot; commit tables cleared only by the height reset; ChangeView sends and view changes behind the commit lock; view monotone; epoch fields owned by the epoch writer; recovery builder re-sends stored payloads only; an own (pre)commit / preparation is stored only with the proposal recorded (L1-OBL); no persistent state outside Context other than call-scoped flags and the future-message cache (F-DBFT-STATE).",
   note="Not decided: identity of a commit after a peer's recovery compaction, uniqueness across process restarts, own-signature verification failure. " + A, ref="4/C03"),
 "C04": dict(technique="guard + quorum-atom + must-precede (event) analysis",
   text="Stores of received preparations are behind their admission condition; a PrepareResponse is built only with the proposal recorded, all transactions present, after the block verifier returned true, naming the stored proposal's hash; (pre)commit only behind an M-of-N current-view preparation quorum containing the request; mismatching responses are purged; view change only behind an M-of-N ChangeView quorum; the primary purges responses that arrived before its own proposal (defect D10, fixed); the designated primary is (h-v) mod N in normal form; transactions enter the context only behind the 'requested' admission, so that the length test of 'all transactions present' means what it says.",
   note="Not decided: that Hash() identifies the proposal, behaviour of VerifyBlock itself, honesty of the counted validators. " + A, ref="4/C04"),
 "C05": dict(technique="guard analysis with admission facts, field-coverage of the reset, sibling agreement of cache writer/replayer",
   text="ProcessBlock only while the block-sent flag is unset, flag set after every successful callback and cleared only by the height reset; every effect reachable from the event entries is behind the not-BlockSent admission; every Context field is re-initialised on every view-0 path of the epoch writer except a reasoned carry-over table; every cached payload kind has a bucket that is replayed on every initialisation; state kept next to the Context (fields of DBFT itself) is the config, the mutex, the cache or a call-scoped flag that is false again at every exit of the function that sets it.",
   note="Not decided: retention of inboxes of skipped heights (memory only), influence through the application's own callbacks. " + A, ref="4/C05"),
 "C06": dict(technique="affine/modular normal forms of pure integer functions",
   text="N, F, M and GetPrimaryIndex are proven to have the normal forms len(Validators), (N-1) div 3, N-F and ((h-v) mod N corrected into [0,N)) in signed arithmetic, for all N>=1, all heights and views on a 64-bit int; purity and single definition of PrimaryIndex. The quorum-intersection and rotation statements are arithmetic consequences of these forms. The uses are decided too: the acceptance, pre-acceptance, (pre)commit and view-change decisions compare their counts with M in normal form at every site, the recovery responder window is F+1, and the exported F-based predicates mean what they say.",
   note="32-bit builds are out of scope (int(uint32) is lossy there). " + A, ref="4/C06"),
 "C07": dict(technique="guard + quorum-atom analysis, flag typestate",
   text="Anti-MEV phase order at every site: pre-commit paths and the optional callbacks only with the extension enabled; Commit under anti-MEV only with own PreCommit, M-of-N PreCommit quorum and processed pre-block; ProcessPreBlock once per height (flag discipline); header only after the pre-block; enabling predicate has the stated form and compares the enabling height without narrowing it (defect D9, fixed); and each check function takes its step (pre-block processed and Commit sent once the node has its own PreCommit, M PreCommits and all transactions) on every exit not excused by a missing transaction/quorum/proposal, a failed callback or the node's role.",
   note="Not decided: behaviour with failing callbacks beyond 'flag not set', multi-node recovery interplay. " + A, ref="4/C07"),
 "C08": dict(technique="sibling agreement (cache writer / replayer)",
   text="Decides only structural necessary conditions named by the anchors: every kind of early payload is kept (whatever the node's own state) and replayed on every initialisation, the cache is created only by Start and the entered height is removed; the header is built only after the pre-block; early (pre)commits are re-verified under their sender's key; the cache is looked up after the epoch write; mismatching early responses are purged when the proposal is stored; every initialisation arms the timer; each of the four check functions takes its step whenever its preconditions hold, whatever the order in which they came to hold (no exit on a 'nothing to do' flag: M-PHASE-PROGRESS); no ChangeView for an idle backup on its first view-0 timeout and a forced timeout only while subscribed.",
   note="That all nodes decide in view 0 without timeouts depends on timer values and multi-node schedules: not applicable to static analysis and not claimed. " + A, ref="4/C08"),
 "C10": dict(technique="must-pass-through over enumerated paths with callee summaries, ownership/provenance of the timer epoch",
   text="Inductive argument with static obligations: epoch fields written only by the epoch writer; Timer.Reset only from one wrapper with the current (BlockIndex, ViewNumber); every initialiser path arms after the epoch write; every admitted timeout path re-arms; durations are non-negative by construction where measured quantities are subtracted and every duration handed to the timer is built from configured durations and the timer's own clock; left shifts of durations must be by a small constant or a capped amount - the three uncapped `timePerBlock << (view+1)` sites are the known finding D12 (negative duration from view 28 on with a 10 s block time), printed as KNOWN-FINDING.",
   note="Not decided: adequacy of durations, mis-configured max<min block time (A10), that the injected timer fires. " + A, ref="4/C10"),
 "C12": dict(technique="stale-derived-value analysis, must-pass-through, rejection-set check",
   text="An index derived from MissingTransactions is never used after a call that may rewrite the list; completing a proposal on a backup ends in a PrepareResponse or a ChangeView; OnTransaction rejects deliveries only for the allowed reasons; RequestTx receives the missing list.",
   note="Not decided: double deliveries, deliveries for a previous view's proposal beyond the rejection set, timing against the view timer. " + A, ref="4/C12"),

 "C09": dict(technique="sibling agreement (recovery builder/consumer), must-pass-through on enumerated paths",
   text="Structural necessary conditions of recovery: the recovery message carries every evidence table (commits once the node has its own), the handler consumes every payload getter of the RecoveryMessage interface through OnReceive, LastChangeViewPayloads is refreshed on a view change from the table as it was before the reset cleared it, a ChangeView for a view not above the receiver's reaches the recovery-request handler, the responder window is F+1 consecutive indices after the requester modulo N, every admitted timeout says something or is an extension deferral and re-arms, a node with an own (pre)commit always answers a recovery request, a restarted primary does not answer its own recovered proposal (defect D14, fixed), a payload rebuilt from a recovery message is not handed on after the epoch it was rebuilt for changed, per-view state is dropped on every view change, each check function takes its step whenever its preconditions hold (M-PHASE-PROGRESS).",
   note="Progress, bounds on the deciding view, partitions and restarts need multi-node timed executions: not applicable to static analysis and not claimed. " + A, ref="4/C09"),
 "C11": dict(technique="effect-free-prefix guard rule, index provenance with backward demand, optional-callback guards, stale-index analysis",
   text="In each handler every effect site is behind that handler's admission condition (so inadmissible and duplicate inputs reach no effect); every index into a per-validator table is a range key, an admitted sender index, MyIndex under MyIndex>=0 or the primary index; optional callbacks only under their enabling fact; stored slots and the lazily built block objects dereferenced only when non-nil (defect D11, fixed); the primary formula in normal form; no stale derived index; every integer division has a divisor that cannot be zero (constant, array length, validator count under the documented contract, or a Config field refused by checkConfig when zero) and New hands out an instance only after checkConfig returned nil.",
   note="Panic freedom is decided for table indexing, optional callbacks, stale indices and slot derefs only - not for nil results of application callbacks, type assertions in payload implementations, an empty validator list (documented panic), misuse before Start, Logger policies. Equality of the whole state on accepted-duplicate paths is not decided. " + A, ref="4/C11"),
 "C15": dict(technique="symbolic final-value + path-condition check of the max idiom, affine normal form of the truncation, provenance",
   text="On every non-declining path of the proposal builder Timestamp is the maximum of lastBlockTimestamp+TimestampIncrement and the truncated clock (decided from path conditions and the symbolic final value), the truncation has normal form (UnixNano(Timer.Now()) div I)*I, lastBlockTimestamp comes only from the initialiser's parameter, hashes/transactions are copied from the pool result index by index, NewPrepareRequest receives (Timestamp, Nonce, TransactionHashes), the own block is rebuilt from those fields after every epoch write, and the per-view proposal fields are dropped on every view change (closed-world table of Context fields).",
   note="Not decided: sanity of the clock reading, uniqueness of the nonce, uint64 overflow. " + A, ref="4/C15"),
 "C16": dict(technique="guard rules and flag typestate on the dynamic-block-time paths",
   text="Structural clauses only: subscription callback/MaxTimePerBlock only when configured; one subscription wrapper; flag cleared by request sends and epoch writes; declining builder is effect-free and declines only when configured, unforced and with an empty pool; no ChangeView for an idle backup on its first view-0 timeout; OnNewTransaction forces only while subscribed with the timer's epoch; the idle deadline is measured from the block-start reference the epoch writer stores.",
   note="Every timing clause (minimum spacing of proposals, 'only once the maximum elapsed', promptness) depends on numeric relations between durations, RTT and the clock: not applicable and not claimed. " + A, ref="4/C16"),

 "C17": dict(technique="client typestate / provenance rules on the example program",
   text="The simulation's event loop re-initialises the library after a processed block (from the loop, under a block-processed condition, not from inside the ProcessBlock callback); ledger callbacks return what ProcessBlock stores; OnTimeout gets the timer's own epoch; the timer channel is re-read each iteration; every required option is supplied; the reference block/payload constructors receive the context fields in their roles; plus the library/timer preconditions its liveness relies on (per-view state dropped on every view change, immediate-expiry channel drained before a send, timeouts and initialisations re-arm, every table index proven in range and nothing signed or broadcast on a watch-only node - the example runs watch-only nodes in the same process -, every check function takes its step when its preconditions hold).",
   note="Goroutine schedules, block interval and agreement between simulated nodes are run-time behaviour of a concurrent program: not applicable and not claimed. " + A, ref="4/C17"),
 "C18": dict(technique="path enumeration with symbolic field values on package timer (provenance, must-pass-through, affine form)",
   text="Structural clauses of the bundled timer (private field roles are derived from Reset/Height/View and the field types on every run): Height()/View() report what Reset stored from its parameters; Reset stores start, duration, height, view on every path; C() selects the channel by whether a runtime timer is armed; sends on the immediate channel are drained first and only for a zero duration; Extend accumulates unconditionally, re-arms for total-elapsed from the stored start under total>elapsed and never leaves a pending expiry disarmed; NewTimer only after stop.",
   note="'Never early', 'within tolerance' and 'stale expiry never delivered' are real-time properties of time.Timer and channel races: not applicable to static analysis and not claimed. " + A, ref="4/C18"),
 "C19": dict(technique="encoder/decoder field agreement on enumerated paths, gob exported-field rule, constructor role tables, reconstruction agreement",
   text="For every type with EncodeBinary/DecodeBinary each wire field is read by the encoder and assigned by the decoder on every successful path; gob structs have only exported fields; decoders propagate every error; the wire struct does not narrow a field; variable-length byte fields are read with a fixed width only after a length check (defect D13, fixed); no interface result is a typed nil; the recovery message packs every kind and each Get* reconstruction uses the kind, body type and list of its arm and copies every body field, stamping the rebuilt proposal with the primary index; Payload.Hash is Hash256 of the unsigned encoding (and does not memoise while a body type can still be mutated through its interface); block Hash/Sign/Verify feed GetHashData without the signature; constructors use every parameter in its role; ECDSA Sign/Verify digest alike; Merkle parents hash left||right.",
   note="Collision resistance, ECDSA soundness, gob's robustness on arbitrary bytes, the Merkle odd-level duplication ambiguity and value-dependent panics on short inputs are not decided. " + A, ref="4/C19"),
 "C20": dict(technique="syntactic type inference and guard discipline over the SANY semantic tree (no model checking)",
   text="TypeOK is shown inductive for every MaxView and fault set by typing Init and every primed assignment reachable from Next against the shapes TypeOK declares (130 assignments in the five specs); InvFaultNodesCount follows from the membership guards on bad/dead and the ASSUME; for the no-fork invariant only structural necessary conditions are checked: in every alternative of each guard (negation-normal form with helper operators, IF, bounded quantifiers over literal sets and action parameters expanded) a commit/accept transition rests on an M-quorum of the right message kinds of the node's current view and a view increase on an M-quorum of ChangeView-kind messages or the leader's message; per-spec locks are decided by evaluating the guard with the node in the locked state (including integer CASE tables); F/M definitions; every action is linked into Next and launch-file invariants exist.",
   note="InvTwoBlocksAccepted itself, InvDeadlock and liveness are reachability facts of the product state space and are NOT decided (they need a model checker, another technique family). Assumption T1: CHOOSE is applied where a witness exists.", ref="4/C20"),
 "C13": dict(
   technique="all-paths guard analysis (path-condition algebra + backward demand over the resolved call graph)",
   text="Static all-paths rule G-SILENT: every call of Config.Broadcast, Block.Sign and PreBlock.SetData in package dbft is proven to be behind 'MyIndex>=0 and !Config.WatchOnly()' on every syntactic path from each of the six API entries; quantifies over every schedule/state because it quantifies over every path. This is the strongest decision a static argument gives for the silence clause.",
   note="Decides silence (first sentence). Does not decide that the other validators progress as with a silent validator (liveness, multi-node). " + A,
   ref="4/C13"),
 "C14": dict(
   technique="who-may-call (types.Func identity) + value provenance of time.Time",
   text="O-NO-WALLCLOCK: no function of package dbft references time.Now/Since/Until/After/AfterFunc/Tick/NewTimer/NewTicker/Sleep (calls or method values). P-INSTANT: every time.Time stored in state and every UnixNano() that becomes a timestamp originates in Config.Timer.Now(), and instants are combined only by shift-equivariant operations; O-NO-WALLCLOCK is transitive over the module's own packages; P-INSTANT-SET: a stored instant is used only where it is known to have been recorded (the zero time.Time is an absolute date - defect D8, fixed). A-TIMESTAMP / O-NO-DURATION-SRC: the proposal timestamp and every duration given to the timer are built from the injected clock and configured durations only.",
   note="Decides that time enters only through the injected timer (the structural cause of clock-shift invariance). The equality of two whole shifted runs is a consequence and is not re-established by running anything; the random nonce is not time. " + A,
   ref="4/C14"),
}

PENDING_REASON = "check not built yet in this session (see DESIGN.md section 8 build order); claimed as soon as its rules are exact on the tree"
NOT_APPLICABLE = {}

def main():
    props = [json.loads(l) for l in open(os.path.join(HERE, "properties.jsonl"))]
    checks, na = [], []
    for p in props:
        pid = p["id"]
        if pid in CLAIMED:
            c = CLAIMED[pid]
            checks.append({
                "property_id": pid,
                "quick_cmd": "bin/check %s --tier quick" % pid,
                "thorough_cmd": "bin/check %s --tier thorough" % pid,
                "evidence_file": "/verif/evidence/%s.json" % pid,
                "replay_cmd_template": "bin/check %s --tier quick" % pid,
                "engine": "dbftlint" if pid != "C20" else "tlalint",
                "level_claimed": {"category": "other", "text": c["text"], "design_ref": "DESIGN.md " + c["ref"]},
                "level_note": c["note"],
                "technique": c["technique"],
            })
        else:
            na.append({"property_id": pid, "reason": NOT_APPLICABLE.get(pid, PENDING_REASON)})
    m = {
        "version": 1,
        "setup_cmd": "sh bin/build.sh",
        "hooks": {"guard": "verif", "enable": "none needed: static analysis reads the sources, nothing is instrumented",
                  "baseline_off_cmd": "cd /repo && go test -count=1 ./...", "source_commits": [], "add_only": True},
        "engines": [
            {"name": "dbftlint", "path": "/verif/lint", "serves_properties": sorted(k for k in CLAIMED if k != "C20"),
             "kind_free_text": "repository-specific static analyser over go/packages+go/types: path-condition (guard) algebra with backward demand over the call graph, ownership/provenance/agreement/arith rules"},
            {"name": "tlalint", "path": "/verif/tla", "serves_properties": ["C20"] if "C20" in CLAIMED else [],
             "kind_free_text": "syntactic typing/guard discipline over the SANY semantic tree of the TLA+ specs"},
        ],
        "checks": checks,
        "not_applicable": na,
        "notes": "Static analysis only: no check executes the library, its tests, the simulation or a model checker. Known findings: /verif/known_findings.json.",
    }
    json.dump(m, open(os.path.join(HERE, "MANIFEST.json"), "w"), indent=1)
    print("claimed:", [c["property_id"] for c in checks], "pending:", [n["property_id"] for n in na])

main()
