#!/bin/sh
# usage: tools/try.sh <patch.diff> <prop>...   -- apply a patch to a scratch worktree of /repo and show the findings (debug aid, not a check)
P=$(readlink -f "$1"); shift
D=/tmp/try.$$
git -C /repo worktree add -q --detach $D HEAD || exit 2
(cd $D && git apply "$P") || { git -C /repo worktree remove --force $D; exit 2; }
for p in "$@"; do
  ${BIN:-/verif/bin/dbftlint} -repo $D -prop $p -tier quick -evidence $D.json -known /verif/known_findings.json | grep -E "^FINDING|^VIOL|^OK|UNDECIDED" | sed "s#$D/##g" | cut -c1-${W:-700}
done
[ -n "$KEEP" ] && echo "kept $D" || { git -C /repo worktree remove --force $D; rm -f $D.json $D.violation.json; }
