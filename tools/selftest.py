#!/usr/bin/env python3
"""Self-test of the checker (not part of the registered checks): applies each mutation of
selftest/mutations.json to a scratch copy of /repo (under /tmp, removed afterwards), verifies that the
variant still builds (and with --tests that the suite still passes), and that the listed properties'
checks report a violation ("kill") or stay silent ("benign")."""
import json, os, subprocess, sys, shutil, tempfile, concurrent.futures, re
HERE = os.path.dirname(os.path.dirname(os.path.abspath(__file__)))
ENV = dict(os.environ, GOFLAGS="-mod=mod", GOPROXY="off")
ENV.pop("GOWORK", None)
BASE = "/repo"  # main() replaces it by a snapshot taken at start, so that /repo may change during a long run

def run(cmd, cwd=None, env=None):
    p = subprocess.run(cmd, shell=True, cwd=cwd, env=env or ENV, stdout=subprocess.PIPE, stderr=subprocess.STDOUT, text=True)
    return p.returncode, p.stdout

def one(m, with_tests):
    d = tempfile.mkdtemp(prefix="dbft-selftest-")
    try:
        run("rsync -a --exclude .git %s/ %s/" % (BASE, d))
        if "patch" in m:
            rc, out = run("patch -p1 --no-backup-if-mismatch < %s" % os.path.join(HERE, m["patch"]), cwd=d)
            if rc != 0:
                return m["name"], "BROKEN-MUTATION", out[-300:]
        for e in m.get("edits", []):
            p = os.path.join(d, e["file"])
            s = open(p).read()
            cnt = s.count(e["old"])
            if cnt != e.get("count", 1):
                return m["name"], "BROKEN-MUTATION", "old text found %d times in %s" % (cnt, e["file"])
            s = s.replace(e["old"], e["new"])
            open(p, "w").write(s)
        rc, out = run("go build ./... && go vet ./... >/dev/null 2>&1; go build ./...", cwd=d)
        if rc != 0:
            return m["name"], "NOBUILD", out[-400:]
        if with_tests:
            rc, out = run("go test -count=1 ./... 2>&1 | tail -15", cwd=d)
            if "FAIL" in out:
                return m["name"], "TESTS-FAIL", out[-600:]
        res = {}
        ev = tempfile.mkdtemp(prefix="dbft-selftest-ev-")
        goprops = [p for p in m["props"] if p != "C20"]
        shared = {}
        if len(goprops) > 1 and not os.environ.get("SELFTEST_SEPARATE"):
            # one process for all Go properties of this variant: the program is loaded and walked once (tooling only; the
            # registered checks run one property per process)
            cmd = "%s -repo %s -prop %s -tier quick -evidence %s -known %s/known_findings.json" % (os.environ.get("BIN", HERE + "/bin/dbftlint"), d, ",".join(goprops), ev, HERE)
            env = dict(ENV)
            t = "/root/go/pkg/mod/golang.org/toolchain@v0.0.1-go1.24.0.linux-amd64"
            if os.path.isdir(t):
                env.update(PATH=t + "/bin:" + env["PATH"], GOTOOLCHAIN="local", GOROOT=t)
            rc, out = run(cmd, env=env)
            for prop in goprops:
                viol = ("VIOLATION property=%s " % prop) in out
                okl = ("OK property=%s " % prop) in out
                rules = sorted(set(re.findall(r"FINDING property=%s rule=(\S+)" % prop, out)))
                if not viol and not okl:
                    shared[prop] = (2, ["NO-VERDICT"])
                else:
                    shared[prop] = (1 if viol else 0, rules)
        for prop in m["props"]:
            if prop in shared:
                res[prop] = shared[prop]
                continue
            if prop == "C20":
                cmd = "python3 %s/tla/tlalint.py --repo %s --tier quick --evidence %s/%s.json --known %s/known_findings.json" % (HERE, d, ev, prop, HERE)
            else:
                cmd = "%s -repo %s -prop %s -tier quick -evidence %s/%s.json -known %s/known_findings.json" % (os.environ.get("BIN", HERE + "/bin/dbftlint"), d, prop, ev, prop, HERE)
            env = dict(ENV)
            t = "/root/go/pkg/mod/golang.org/toolchain@v0.0.1-go1.24.0.linux-amd64"
            if os.path.isdir(t):
                env.update(PATH=t + "/bin:" + env["PATH"], GOTOOLCHAIN="local", GOROOT=t)
            rc, out = run(cmd, env=env)
            rules = sorted(set(re.findall(r"FINDING property=\S+ rule=(\S+)", out)))
            res[prop] = (rc, rules)
        shutil.rmtree(ev, ignore_errors=True)
        want = m.get("expect", "kill")
        if want == "documented-miss":
            # a confirmed breaking change that this technique family cannot see (reason in its meta.json / DESIGN.md):
            # reported as such, never counted as caught
            caught = any(rc == 1 for rc, _ in res.values())
            return m["name"], "ok", ("now caught: " + json.dumps({p: r for p, (rc, r) in res.items() if rc}) if caught else "DOCUMENTED MISS (see meta.json)")
        ok = all((rc == 1) == (want == "kill") for rc, _ in res.values())
        brief = {p: rules for p, (rc, rules) in res.items() if rc != 0}
        return m["name"], ("ok" if ok else "MISS" if want == "kill" else "FALSE-ALARM"), json.dumps(brief) if brief else "silent on " + ",".join(res)
    finally:
        shutil.rmtree(d, ignore_errors=True)

def main():
    with_tests = "--tests" in sys.argv
    pat = [a for a in sys.argv[1:] if not a.startswith("--")]
    ms = json.load(open(os.path.join(HERE, "selftest", "mutations.json")))
    import glob
    for mf in sorted(glob.glob(os.path.join(HERE, "seeded", "*", "meta.json"))):
        meta = json.load(open(mf))
        ent = {"name": "seeded-" + meta["name"], "props": meta.get("check_props", [meta["property"]]), "patch": os.path.relpath(os.path.join(os.path.dirname(mf), "patch.diff"), HERE)}
        if str(meta.get("expected_detection", "")).startswith("none"):
            ent["expect"] = "documented-miss"
        ms.append(ent)
    if pat:
        ms = [m for m in ms if any(p in m["name"] for p in pat)]
    global BASE
    snap = tempfile.mkdtemp(prefix="dbft-selftest-base-")
    run("rsync -a --exclude .git /repo/ %s/" % snap)
    BASE = snap
    bad = 0
    with concurrent.futures.ThreadPoolExecutor(max_workers=int(os.environ.get("JOBS","12"))) as ex:
        for name, status, detail in ex.map(lambda m: one(m, with_tests), ms):
            print("%-12s %-40s %s" % (status, name, detail[:300]))
            if status != "ok":
                bad += 1
    shutil.rmtree(snap, ignore_errors=True)
    print("selftest: %d mutations, %d not as expected" % (len(ms), bad))
    sys.exit(1 if bad else 0)

main()
