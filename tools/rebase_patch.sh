#!/bin/sh
# usage: rebase_patch.sh <dir-with-patch.diff> [base-commit]  -- re-bases a filed patch onto /repo's HEAD (after fix: commits)
# tries the fix commits in history order as base until the patch applies; then cherry-picks the later fixes.
P=$(readlink -f "$1")/patch.diff; B=$2
D=/tmp/rebase.$$
for base in $B $(git -C /repo log --format=%h --reverse e1c8436..HEAD) ; do
  git -C /repo worktree add -q --detach $D $base 2>/dev/null || continue
  if (cd $D && patch -p1 -s --no-backup-if-mismatch -F0 < "$P" >/dev/null 2>&1); then
    (cd $D && git add -A && git -c user.email=a@b -c user.name=x commit -qm tmp && git -c user.email=a@b -c user.name=x cherry-pick $base..$(git -C /repo rev-parse HEAD) >/dev/null 2>&1)
    if [ -n "$(cd $D && git status --short | grep '^UU')" ]; then echo "CONFLICT in $D (base $base):"; (cd $D && git status --short | grep '^UU'); exit 1; fi
    (cd $D && export GOFLAGS=-mod=mod GOPROXY=off && go build ./... && go test -count=1 ./... >/dev/null 2>&1) || { echo "suite fails after rebase in $D"; exit 1; }
    (cd $D && git diff $(git -C /repo rev-parse HEAD) -- . ) > "$P"
    git -C /repo worktree remove --force $D; echo "rebased $1 (base $base)"; exit 0
  fi
  git -C /repo worktree remove --force $D
done
echo "no base found for $1"; exit 1
