import json,sys
props={}
for l in open('/verif/properties.jsonl'):
    p=json.loads(l); props[p['id']]=p
FLAV={
'r5':"""a breaking change COMBINED WITH a restructuring, the way real regressions arrive: first restructure the relevant code the way a maintainer would (extract a helper shared by two callers, split a function into phases, move a guard across a call boundary, replace a switch by a table, group fields into a private struct, push a loop into an accessor) and, in the same patch, let one detail slip so that the property breaks — the slip must be the kind of thing the restructuring makes easy to miss (a guard that moved but not to every caller, a result of a two-result helper tested the wrong way round at one site, a table that lacks an entry, a field of the new struct not reset / not copied / not encoded, a helper's default differing from the inlined original at a boundary). The patch must not look like an attack; its description could honestly read 'refactor X'""",
'r3':"""structurally disguised changes: a refactoring that loses a condition at only one of several call sites; a new cache / memo / fast path that goes stale in a corner case; behaviour moved behind a table or a helper whose default differs; two cooperating edits in different functions/files that each look fine alone; a boundary or type-conversion slip that only shows at unusual values""",
'r4':"""changes of a kind a tired maintainer could plausibly merge: (a) a subtle semantic change inside a SHARED helper/predicate/accessor (its callers are untouched but one of them now misbehaves); (b) an ordering change between a state update and a callback / nested call, that only matters when the nested call re-enters or fails; (c) an error-/nil-/empty-handling path that now does the wrong thing (swallowed error, early return that skips a cleanup or a re-arm, a default value); (d) an off-by-one, signedness, overflow or truncation slip visible only at boundary values; (e) an 'optimisation' (skip work if it looks unnecessary, reuse an old object, short-circuit) that is wrong in one corner case. Mix the kinds; do not produce three of the same kind""",
}
def prompt(pid, tag, flav, wt, out):
    p=props[pid]
    tla = pid=='C20'
    s=f"""You are helping to evaluate a verification tool by mutation. You work ONLY inside the scratch git worktree {wt} (a checkout of the Go library nspcc-dev/dbft: dBFT 2.0 consensus state machine with anti-MEV extension, reference payloads under internal/, TLA+ models under formal-models/, an example simulation under internal/simulation). Never touch /repo or /verif, and do not read anything under /verif (your result must be independent of it).

Shell environment for every Go command: `export GOFLAGS=-mod=mod GOPROXY=off; unset GOWORK` (do NOT set GOTOOLCHAIN or GOSUMDB; the sandbox is offline; the module needs the cached go1.24 toolchain which the default `go` selects by itself). The existing suite is `go test -count=1 ./...` in the worktree (about 10 s; 273 tests).

The property under study (this is all you get about it):

  {pid} — {p['title']}
  Statement: {p['statement']}
  Quantifier: {p['quantifier']['text']}

Task: produce THREE independent changes to the repository's non-test source ({'the .tla files under formal-models/' if tla else 'Go files'}), each of which
  1. still compiles (`go build ./...`, `go vet ./...` clean) and keeps the WHOLE existing test suite green, unedited;
  2. genuinely breaks the property above (some clause of it) in the real code — not merely changes style;
  3. needs something specific to manifest — a particular interleaving/order of API calls, a fault or error return from a callback at a particular point, a multi-step sequence, an unusual input/configuration value, or two cooperating sites that each look fine alone — i.e. NOT something ordinary use or the existing tests would expose at once;
  4. comes with a demonstration that FAILS with the change and PASSES without it: {'a small shell script demo.sh <repo-root> that runs TLC (`tlc`, java and /opt/veriftools/tla/tla2tools.jar are installed; copy the spec to a temp dir, use your own demo.cfg, keep the run under ~5 minutes) and exits 1 on an invariant violation and 0 otherwise' if tla else 'a new Go test file (name it so it cannot clash with existing files, e.g. seed_'+pid.lower()+tag+'_<k>_test.go) in the right package that drives the real code; it must use only what is in the repository and the Go standard library plus the modules already in go.mod (testify, zap); it must be deterministic and finish in a few seconds'}.

Flavour wanted for this round — {FLAV[flav]}. Avoid the obvious single-guard deletion or a flipped constant at the most visible site; prefer changes whose diff reads like a plausible refactoring, optimisation or bug fix. Each change should be realistic (something that could pass code review), small to medium (5–150 changed lines), and the three should differ from each other in mechanism and location. Read the code thoroughly first (dbft.go, context.go, config.go, check.go, send.go, helpers.go, rtt.go, timer/, internal/consensus, internal/crypto, internal/merkle, internal/simulation, formal-models/ as relevant).

While reading you may notice that the UNMODIFIED code already violates the property in some way; if you can demonstrate that, report it separately in {out}/PREEXISTING.md with a reproducer — but it does not count as one of the three.

Deliver, for k = 1, 2, 3, a directory {out}/<k>/ containing exactly:
  - patch.diff  : `git diff` of the change against the worktree's HEAD (source files only, NOT the demo), applicable with `git apply` / `patch -p1` at the repository root;
  - {'demo.sh and demo.cfg (and any extra .tla the demo needs)' if tla else 'the demo test file (*_test.go), with a comment on top saying into which package directory it goes'};
  - notes.md    : which clause is broken, the mechanism, what it needs to manifest, why the existing tests do not see it, and the exact commands you ran with their outcome.
Before delivering, verify yourself for every change, from a clean worktree state (`git -C {wt} checkout -- . && git -C {wt} clean -fdq`): demo passes without the change; with the change applied the full suite passes and the demo fails. Leave the worktree clean (no patch applied, no demo files) when you finish. Do not commit anything. Keep scratch files only under {out} or the worktree; delete build outputs you create elsewhere.

Your final message: a short table of the three changes (file/function, clause broken, what is needed to manifest) and anything pre-existing you found."""
    return s
if __name__=='__main__':
    pid,tag,flav=sys.argv[1:4]
    print(prompt(pid,tag,flav,f'/tmp/seedwt/{pid}{tag}',f'/tmp/seedout/{pid}{tag}'))
