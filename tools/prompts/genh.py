import json,sys
props={}
for l in open('/verif/properties.jsonl'):
    p=json.loads(l); props[p['id']]=p
def prompt(pids, tag, wt, out):
    ptxt="\n".join(f"  {pid} — {props[pid]['title']}\n  Statement: {props[pid]['statement']}\n  Quantifier: {props[pid]['quantifier']['text']}\n" for pid in pids)
    return f"""You are auditing a Go library for genuine defects. You work ONLY inside the scratch git worktree {wt} (a checkout of nspcc-dev/dbft: dBFT 2.0 consensus state machine with anti-MEV extension, reference payloads under internal/, an example simulation under internal/simulation). Never touch /repo or /verif, and do not read anything under /verif (your result must be independent of it).

Shell environment for every Go command: `export GOFLAGS=-mod=mod GOPROXY=off; unset GOWORK` (do NOT set GOTOOLCHAIN or GOSUMDB; the sandbox is offline; the default `go` selects the cached go1.24 toolchain by itself). The existing suite is `go test -count=1 ./...` (about 10 s; 273 tests, all green).

The properties under study (this is all you get about them):

{ptxt}
Task: find inputs, configurations, callback behaviours (errors, nils, re-entrant calls), message orders, restart points or API call sequences for which the UNMODIFIED code violates a clause of one of these properties — things the existing tests do not exercise. Read the code thoroughly (dbft.go, context.go, config.go, check.go, send.go, helpers.go, rtt.go, timer/, internal/consensus, internal/crypto, internal/merkle, internal/simulation as relevant), form hypotheses clause by clause, and TEST each one against the real code with a small deterministic Go test (real DBFT instances wired with the reference payloads from internal/consensus, a fake timer, in-memory message passing; only the standard library and the modules already in go.mod). Think about: boundary values (view numbers near 255, heights near the uint32 limit, N = 1, 2, 3, validator list changing between heights, zero/huge durations), a node that is watch-only / not in the list / restarted in the middle of a height, callbacks that fail or return nil once and then succeed, messages that arrive early, late, duplicated, for other views or heights, or via a RecoveryMessage instead of directly, Byzantine senders within the stated fault bound, and API calls in unusual but legal orders (OnTimeout with stale height/view, OnTransaction before the proposal, Reset in the middle, OnReceive before Start).

Only report what you have reproduced. For each confirmed violation deliver under {out}/<k>/ : a test file (name it hunt_{tag.lower()}_<k>_test.go, comment on top: which package directory it goes into) that FAILS on the unmodified worktree because the property clause does not hold, and finding.md: the property and clause, the mechanism (file/function/line), the exact scenario, the command you ran and its output, how serious you think it is (reachable with honest peers? only with a Byzantine peer within the bound? only through API misuse?), and — if you see one — a minimal fix (as a diff) with which your test passes and the whole existing suite still passes. Hypotheses you tested and found NOT to be violations: list them briefly in {out}/checked.md (that is useful too). Do not report style issues, missing features, or things outside these properties. Leave the worktree clean when you finish; do not commit. Keep scratch files only under {out} or the worktree.

Your final message: a short table of confirmed violations (property/clause, mechanism, scenario, severity, fix yes/no) and the list of hypotheses that held."""
if __name__=='__main__':
    tag=sys.argv[1]; pids=sys.argv[2:]
    print(prompt(pids,tag,f'/tmp/seedwt/H{tag}',f'/tmp/seedout/H{tag}'))
