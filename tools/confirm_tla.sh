#!/bin/sh
# usage: confirm_tla.sh <seedname> <srcdir>
N=$1; S=$2
D=$(mktemp -d /tmp/tlaseed.XXXXXX)
rsync -a --exclude .git /repo/formal-models $D/
sh $S/demo.sh $D > $D/base.log 2>&1; b=$?
(cd $D && patch -p1 -s < $S/patch.diff) || { echo "$N PATCH FAILS"; exit 1; }
sh $S/demo.sh $D > $D/mut.log 2>&1; m=$?
echo "$N: demo on unchanged specs exit=$b; with patch exit=$m"
tail -3 $D/mut.log
rm -rf $D
