#!/bin/sh
# usage: rebase_cp.sh <dir> : apply patch at 5e9156b, cherry-pick the later fixes one by one; on conflict leave worktree /tmp/rbc_<name> for hand work
export GOFLAGS=-mod=mod GOPROXY=off; unset GOWORK
d=$1; n=$(basename $d); D=/tmp/rbc_$n; P=$d/patch.diff
[ -f "$P" ] || P=$d   # a bare .diff file
git -C /repo worktree add -q --detach $D 5e9156b || exit 2
cd $D
if ! patch -p1 -s --no-backup-if-mismatch -F0 < $P >/dev/null 2>&1; then echo "NOBASE $d"; cd /; git -C /repo worktree remove --force $D; exit 1; fi
git add -A; git -c user.email=a@b -c user.name=x commit -qm tmp
for c in 48c094b 8af586f 055995e 8929ac1 cee380a c506ba9; do
  if ! git -c user.email=a@b -c user.name=x cherry-pick $c >/dev/null 2>&1; then
    echo "CONFLICT $d at $c: $(git diff --name-only --diff-filter=U | tr '\n' ' ') (worktree $D)"; echo $c > $D/.conflict_at; exit 1
  fi
done
if go build ./... && go vet ./... >/dev/null 2>&1 && go test -count=1 ./... >/dev/null 2>&1; then
  git diff c506ba9 -- . ':!.conflict_at' > $P; echo "REBASED $d"; cd /; git -C /repo worktree remove --force $D
else echo "SUITE-FAILS $d (worktree $D)"; fi
