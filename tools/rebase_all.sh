#!/bin/sh
# usage: tools/rebase_all.sh [dir-glob...]  -- for every filed patch that no longer applies to /repo's HEAD, try a 3-way
# apply (the patch's index lines name blobs of the commit it was made on) in a scratch worktree; on success rewrite the
# patch as a diff against HEAD after checking that the result builds and passes the suite. Conflicts are left for hand work.
export GOFLAGS=-mod=mod GOPROXY=off; unset GOWORK
W=/tmp/rebase_all.$$
git -C /repo worktree add -q --detach $W HEAD || exit 2
trap 'git -C /repo worktree remove --force $W' EXIT
[ $# -eq 0 ] && set -- /verif/selftest/benign-agents/* /verif/seeded/* /verif/selftest/extra/*
for d in "$@"; do
  p=$d/patch.diff; [ -f $p ] || continue
  git -C $W checkout -q -- . ; git -C $W clean -fdq
  if git -C $W apply --check $p 2>/dev/null; then continue; fi
  if git -C $W apply --3way $p >/dev/null 2>&1 && ! git -C $W diff --name-only --diff-filter=U | grep -q .; then
    git -C $W reset -q
    if (cd $W && go build ./... && go vet ./... >/dev/null 2>&1 && go test -count=1 ./... >/dev/null 2>&1); then
      git -C $W diff HEAD > $p.new && mv $p.new $p && echo "REBASED  $d"
    else
      echo "REBASED-BUT-FAILS $d (left as is)"
    fi
  else
    git -C $W reset -q --hard
    echo "CONFLICT $d"
  fi
done
