#!/bin/sh
# runs the 20 quick checks in parallel and prints one line per property plus any finding (debug aid)
cd /verif
for p in C01 C02 C03 C04 C05 C06 C07 C08 C09 C10 C11 C12 C13 C14 C15 C16 C17 C18 C19 C20; do
  ( bin/check $p > /tmp/chk.$p.txt 2>&1; echo "$p=$?" > /tmp/chk.$p.rc ) &
done
wait
cat /tmp/chk.C*.rc | tr '\n' ' '; echo
grep -h "^VIOLATION\|^FINDING" /tmp/chk.C*.txt | cut -c1-300
rm -f /tmp/chk.C*.rc
