#!/usr/bin/env python3
"""Confirms a seeded breaking change against the current /repo and files it under /verif/seeded/<name>/.
usage: confirm_seed.py <name> <property> <srcdir-with-patch.diff-and-demo> [pkgdir]
Confirms: (a) demo passes on the unchanged tree, (b) with the patch the existing suite passes and the demo fails."""
import os, re, shutil, subprocess, sys, tempfile, json, glob
HERE = os.path.dirname(os.path.dirname(os.path.abspath(__file__)))
ENV = dict(os.environ, GOFLAGS="-mod=mod", GOPROXY="off"); ENV.pop("GOWORK", None)
def run(cmd, cwd):
    p = subprocess.run(cmd, shell=True, cwd=cwd, env=ENV, stdout=subprocess.PIPE, stderr=subprocess.STDOUT, text=True)
    return p.returncode, p.stdout
def main():
    name, prop, src = sys.argv[1:4]
    demos = [f for f in glob.glob(src + "/*_test.go")]
    others = [f for f in glob.glob(src + "/*") if not f.endswith("_test.go") and os.path.basename(f) not in ("patch.diff", "notes.md")]
    pkgdir = sys.argv[4] if len(sys.argv) > 4 else None
    tests = []
    for d in demos:
        s = open(d).read()
        tests += re.findall(r"^func (Test\w+)\(", s, re.M)
        if pkgdir is None:
            pk = re.search(r"^package (\w+)", s, re.M).group(1)
            pkgdir = {"dbft_test": ".", "dbft": ".", "timer": "timer", "timer_test": "timer", "consensus": "internal/consensus", "consensus_test": "internal/consensus",
                      "crypto": "internal/crypto", "merkle": "internal/merkle", "main": "internal/simulation"}.get(pk, ".")
    rx = "^(" + "|".join(tests) + ")$"
    d = tempfile.mkdtemp(prefix="dbft-seed-")
    try:
        run("rsync -a --exclude .git /repo/ %s/" % d, "/")
        for f in demos: shutil.copy(f, os.path.join(d, pkgdir))
        rc0, out0 = run("go test -count=1 -run '%s' ./%s" % (rx, pkgdir), d)
        base_ok = rc0 == 0
        for f in demos: os.remove(os.path.join(d, pkgdir, os.path.basename(f)))
        rc, out = run("patch -p1 --no-backup-if-mismatch < %s/patch.diff" % src, d)
        if rc != 0:
            print("PATCH DOES NOT APPLY", out); return 1
        rc1, out1 = run("go build ./... && go test -count=1 ./...", d)
        suite_ok = rc1 == 0
        for f in demos: shutil.copy(f, os.path.join(d, pkgdir))
        rc2, out2 = run("go test -count=1 -run '%s' ./%s" % (rx, pkgdir), d)
        demo_fails = rc2 != 0
        print("%s: demo passes on unchanged tree=%s; with patch: suite passes=%s, demo fails=%s" % (name, base_ok, suite_ok, demo_fails))
        if not (base_ok and suite_ok and demo_fails):
            print(out0[-500:], out1[-500:], out2[-800:]); return 1
        # regenerate the patch against the current tree
        dst = os.path.join(HERE, "seeded", name)
        os.makedirs(dst, exist_ok=True)
        d2 = tempfile.mkdtemp(prefix="dbft-seed-base-")
        run("rsync -a --exclude .git /repo/ %s/" % d2, "/")
        for f in demos: os.remove(os.path.join(d, pkgdir, os.path.basename(f)))
        rcd, diff = run("diff -ruN --exclude='*.orig' %s %s | sed -e 's#%s#a#g' -e 's#%s#b#g'" % (d2, d, d2, d), "/")
        shutil.rmtree(d2, ignore_errors=True)
        open(os.path.join(dst, "patch.diff"), "w").write(diff)
        for f in demos + others:
            if os.path.isfile(f): shutil.copy(f, dst)
        notes = open(os.path.join(src, "notes.md")).read() if os.path.exists(os.path.join(src, "notes.md")) else ""
        meta = {"property": prop, "name": name, "demo_pkg_dir": pkgdir, "demo_run": "go test -count=1 -run '%s' ./%s" % (rx, pkgdir),
                "needs_to_manifest": notes[:1500], "confirmed": {"demo_passes_on_unchanged_tree": base_ok, "suite_passes_with_patch": suite_ok, "demo_fails_with_patch": demo_fails},
                "ran": ["rsync copy of /repo under /tmp", "go test -run demo (unchanged)", "patch -p1 < patch.diff", "go build ./... && go test ./...", "go test -run demo (patched)"]}
        json.dump(meta, open(os.path.join(dst, "meta.json"), "w"), indent=1)
        return 0
    finally:
        shutil.rmtree(d, ignore_errors=True)
sys.exit(main())
