#!/usr/bin/env python3
"""Re-confirms every filed seed against the current /repo: the demo passes on the unchanged tree and fails with the patch
(Go seeds; TLA seeds are skipped). usage: reconfirm_seeds.py [name-filter]"""
import json, os, sys, glob, shutil, subprocess, tempfile, concurrent.futures
HERE = os.path.dirname(os.path.dirname(os.path.abspath(__file__)))
ENV = dict(os.environ, GOFLAGS="-mod=mod", GOPROXY="off"); ENV.pop("GOWORK", None)
def one(mf):
    m = json.load(open(mf)); sd = os.path.dirname(mf); name = m["name"]
    demos = glob.glob(sd + "/*_test.go")
    if not demos or "demo_run" not in m or not m["demo_run"].startswith("go test"):
        return name, "skipped"
    d = tempfile.mkdtemp(prefix="dbft-reconf-")
    try:
        subprocess.run("rsync -a --exclude .git /repo/ %s/" % d, shell=True)
        for f in demos: shutil.copy(f, os.path.join(d, m.get("demo_pkg_dir", ".")))
        r0 = subprocess.run(m["demo_run"], shell=True, cwd=d, env=ENV, capture_output=True, text=True)
        p = subprocess.run("patch -p1 -s --no-backup-if-mismatch < %s/patch.diff" % sd, shell=True, cwd=d, capture_output=True, text=True)
        if p.returncode != 0: return name, "PATCH-BROKEN"
        r1 = subprocess.run(m["demo_run"], shell=True, cwd=d, env=ENV, capture_output=True, text=True)
        ok = r0.returncode == 0 and r1.returncode != 0
        return name, "ok" if ok else "NOT-CONFIRMED (unchanged passes=%s, patched fails=%s)" % (r0.returncode == 0, r1.returncode != 0)
    finally:
        shutil.rmtree(d, ignore_errors=True)
mfs = sorted(glob.glob(HERE + "/seeded/*/meta.json"))
if len(sys.argv) > 1: mfs = [m for m in mfs if sys.argv[1] in m]
bad = 0
with concurrent.futures.ThreadPoolExecutor(max_workers=6) as ex:
    for name, st in ex.map(one, mfs):
        if st not in ("ok", "skipped"): bad += 1; print(name, st)
print("reconfirm: %d seeds, %d not confirmed" % (len(mfs), bad))
