#!/usr/bin/env python3
"""C20: syntactic typing / guard discipline over the SANY semantic tree of the shipped TLA+ specs.
Nothing is evaluated or model-checked: tla2sany.xml.XMLExporter only parses and resolves the modules."""
import re
import sys, os, json, subprocess, tempfile, shutil, time, argparse
import xml.etree.ElementTree as ET

SPECS = [
    "formal-models/dbft/dbft.tla",
    "formal-models/dbft_antiMEV/dbft.tla",
    "formal-models/dbftMultipool/dbftMultipool.tla",
    "formal-models/dbft2.1_threeStagedCV/dbftCV3.tla",
    "formal-models/dbft2.1_centralizedCV/dbftCentralizedCV.tla",
]
JAR = "/opt/veriftools/tla/tla2tools.jar"

class Undecided(Exception):
    pass

# ---------------- types ----------------
NAT, INT, BOOL, RM = ("nat",), ("int",), ("bool",), ("rm",)
def STR(*lits): return ("str", frozenset(lits))
def SET(t): return ("set", t)
def FUN(d, t): return ("fun", d, t)
def REC(fields): return ("rec", tuple(sorted(fields.items())))
EMPTYSET = ("set", ("bottom",))

def tstr(t):
    k = t[0]
    if k == "str": return "{" + ",".join(sorted(t[1])) + "}"
    if k == "set": return "Set(" + tstr(t[1]) + ")"
    if k == "fun": return "[" + tstr(t[1]) + " -> " + tstr(t[2]) + "]"
    if k == "rec": return "[" + ", ".join("%s: %s" % (f, tstr(x)) for f, x in t[1]) + "]"
    return k

def subtype(a, b):
    if a == b or a[0] == "bottom": return True
    ka, kb = a[0], b[0]
    if ka == "rm" and kb in ("nat", "int"): return True
    if ka == "nat" and kb == "int": return True
    if ka == "str" and kb == "str": return a[1] <= b[1]
    if ka == "set" and kb == "set": return subtype(a[1], b[1])
    if ka == "fun" and kb == "fun": return subtype(b[1], a[1]) and subtype(a[2], b[2]) or (a[1] == b[1] and subtype(a[2], b[2]))
    if ka == "rec" and kb == "rec":
        da, db = dict(a[1]), dict(b[1])
        return set(da) == set(db) and all(subtype(da[f], db[f]) for f in da)
    return False

def join(a, b):
    if a[0] == "bottom": return b
    if b[0] == "bottom": return a
    if subtype(a, b): return b
    if subtype(b, a): return a
    if a[0] == "str" and b[0] == "str": return ("str", a[1] | b[1])
    if a[0] in ("rm", "nat", "int") and b[0] in ("rm", "nat", "int"):
        return INT if "int" in (a[0], b[0]) else NAT
    if a[0] == "set" and b[0] == "set": return SET(join(a[1], b[1]))
    if a[0] == "rec" and b[0] == "rec":
        da, db = dict(a[1]), dict(b[1])
        if set(da) == set(db): return REC({f: join(da[f], db[f]) for f in da})
    raise Undecided("cannot join %s and %s" % (tstr(a), tstr(b)))

# ---------------- module model ----------------
class Module:
    def __init__(self, path, root):
        self.path = path
        self.root = root
        self.ents = {}
        for e in root.find("context").findall("entry"):
            uid = e.find("UID").text
            self.ents[uid] = [c for c in e if c.tag != "UID"][0]
        self.name = root.find("RootModule").text
        self.defs = {}
        for uid, n in self.ents.items():
            if n.tag == "UserDefinedOpKind" and n.find("location/filename").text == self.name:
                self.defs[n.find("uniquename").text] = uid
        self.decls = {}
        for uid, n in self.ents.items():
            if n.tag == "OpDeclNode":
                self.decls[uid] = n.find("uniquename").text
        self.modnode = None
        for m in root.findall("ModuleNode"):
            if m.find("uniquename").text == self.name:
                self.modnode = m

    def loc(self, n):
        l = n.find("location")
        if l is None: return "?"
        return "%s:%s" % (os.path.basename(self.path), l.find("line/begin").text)

    def opname(self, app):
        op = app.find("operator")[0]
        uid = op.find("UID").text
        tgt = self.ents.get(uid)
        nm = tgt.find("uniquename").text if tgt is not None and tgt.find("uniquename") is not None else "?"
        return op.tag, uid, nm

    def operands(self, app):
        return list(app.find("operands"))

    def bounds(self, app):
        """[(uids, domain_node)]"""
        out = []
        bs = app.find("boundSymbols")
        if bs is None: return out
        for b in bs:
            uids = [x.find("UID").text for x in b.findall("FormalParamNodeRef")]
            dom = [x for x in b if x.tag not in ("FormalParamNodeRef", "tuple")]
            out.append((uids, dom[0] if dom else None))
        return out

# ---------------- type inference ----------------
ARITH = {"+", "*", "\\div", "%", "^"}
CMP = {"<", ">", "\\leq", "\\geq", "=<", ">=", "<="}

class Typer:
    def __init__(self, mod):
        self.m = mod
        self.var_types = {}      # variable name -> declared type
        self.const_types = {"RM": SET(RM), "RMFault": SET(RM), "RMDead": SET(RM), "MaxView": NAT, "MaxUndeliveredMessages": NAT}
        self.depth = 0

    def infer(self, n, env):
        """type of expression n under env (uid -> type | thunk)"""
        tag = n.tag
        if tag == "NumeralNode": return NAT
        if tag == "StringNode": return STR(n.find("StringValue").text)
        if tag == "LetInNode":
            env2 = dict(env)
            for d in n.find("opDefs"):
                uid = d.find("UID").text
                env2[uid] = ("thunk", uid, env2)
            return self.infer(n.find("body")[0], env2)
        if tag == "AtNode":
            # `@` inside [f EXCEPT !path = e]: the value at that path before the update
            if env.get("@") is not None: return env["@"]
            raise Undecided("@ outside EXCEPT at %s" % self.m.loc(n))
        if tag != "OpApplNode":
            raise Undecided("node %s at %s" % (tag, self.m.loc(n)))
        kind, uid, name = self.m.opname(n)
        args = self.m.operands(n)
        if kind == "FormalParamNodeRef":
            if uid in env:
                return self.force(env[uid])
            raise Undecided("unbound parameter %s at %s" % (name, self.m.loc(n)))
        if kind == "OpDeclNodeRef":
            if name in self.var_types: return self.var_types[name]
            if name in self.const_types: return self.const_types[name]
            raise Undecided("untyped constant/variable %s" % name)
        if kind == "UserDefinedOpKindRef":
            if uid in env and not args:
                return self.force(env[uid])
            d = self.m.ents[uid]
            fname = d.find("location/filename").text
            if fname != self.m.name:
                return self.stdop(name, n, args, env)
            params = [p.find("FormalParamNodeRef/UID").text for p in (d.find("params") or [])]
            if len(params) != len(args):
                raise Undecided("arity mismatch for %s" % name)
            env2 = dict(env)
            for p, a in zip(params, args):
                env2[p] = self.infer(a, env)
            self.depth += 1
            if self.depth > 40: raise Undecided("definition nesting too deep")
            try:
                return self.infer(d.find("body")[0], env2)
            finally:
                self.depth -= 1
        # builtins
        return self.builtin(name, n, args, env)

    def force(self, v):
        if isinstance(v, tuple) and v and v[0] == "thunk":
            _, uid, env = v
            d = self.m.ents[uid]
            return self.infer(d.find("body")[0], env)
        return v

    def stdop(self, name, n, args, env):
        ts = [self.infer(a, env) for a in args]
        if name == "Nat": return SET(NAT)
        if name == "Int": return SET(INT)
        if name == "Cardinality": return NAT
        if name in ARITH:
            if all(subtype(t, NAT) for t in ts): return NAT
            if all(subtype(t, INT) for t in ts): return INT
            raise Undecided("arithmetic on %s at %s" % ([tstr(t) for t in ts], self.m.loc(n)))
        if name == "-":
            if all(subtype(t, INT) for t in ts): return INT   # natural subtraction may go below zero
            raise Undecided("subtraction on non-numbers")
        if name in CMP: return BOOL
        if name == "..":
            if all(subtype(t, NAT) for t in ts): return SET(NAT)
            return SET(INT)
        raise Undecided("standard operator %s at %s" % (name, self.m.loc(n)))

    def elem(self, t, n):
        if t[0] == "set": return t[1]
        raise Undecided("not a set: %s at %s" % (tstr(t), self.m.loc(n)))

    def builtin(self, name, n, args, env):
        m = self.m
        if name in ("=", "/=", "\\in", "\\notin", "\\subseteq", "\\land", "\\lor", "\\lnot", "=>", "$ConjList", "$DisjList", "TRUE", "FALSE", "\\equiv"):
            return BOOL
        if name in ("$BoundedExists", "$BoundedForall"): return BOOL
        if name == "$FcnApply":
            f = self.infer(args[0], env)
            if f[0] != "fun": raise Undecided("application of non-function at %s" % m.loc(n))
            a = self.infer(args[1], env)
            if not subtype(a, f[1]): raise Undecided("function applied outside its domain: %s not in %s at %s" % (tstr(a), tstr(f[1]), m.loc(n)))
            return f[2]
        if name == "$RcdSelect":
            r = self.infer(args[0], env)
            fld = args[1].find("StringValue").text
            if r[0] != "rec" or fld not in dict(r[1]): raise Undecided("field %s of %s at %s" % (fld, tstr(r), m.loc(n)))
            return dict(r[1])[fld]
        if name == "$RcdConstructor":
            fs = {}
            for p in args:
                k, v = m.operands(p)
                fs[k.find("StringValue").text] = self.infer(v, env)
            return REC(fs)
        if name == "$SetOfRcds":
            fs = {}
            for p in args:
                k, v = m.operands(p)
                fs[k.find("StringValue").text] = self.elem(self.infer(v, env), v)
            return SET(REC(fs))
        if name == "$SetEnumerate":
            t = ("bottom",)
            for a in args: t = join(t, self.infer(a, env))
            return SET(t)
        if name in ("\\union", "\\cup", "\\intersect", "\\cap"):
            a, b = self.infer(args[0], env), self.infer(args[1], env)
            if a[0] != "set" or b[0] != "set": raise Undecided("union of non-sets at %s" % m.loc(n))
            return SET(join(a[1], b[1]))
        if name == "\\":
            return self.infer(args[0], env)
        if name == "SUBSET":
            return SET(self.infer(args[0], env))
        if name == "UNION":
            return self.elem(self.infer(args[0], env), n)
        if name == "$SetOfFcns":
            return SET(FUN(self.elem(self.infer(args[0], env), n), self.elem(self.infer(args[1], env), n)))
        if name == "$SubsetOf":
            (uids, dom), = m.bounds(n)
            return self.infer(dom, env)
        if name == "$SetOfAll":
            env2 = dict(env)
            for uids, dom in m.bounds(n):
                et = self.elem(self.infer(dom, env), dom)
                for u in uids: env2[u] = et
            return SET(self.infer(args[0], env2))
        if name == "$BoundedChoose":
            (uids, dom), = m.bounds(n)
            return self.elem(self.infer(dom, env), dom)   # T1: a witness exists
        if name == "$FcnConstructor":
            env2 = dict(env)
            (uids, dom), = m.bounds(n)
            dt = self.elem(self.infer(dom, env), dom)
            for u in uids: env2[u] = dt
            return FUN(dt, self.infer(args[0], env2))
        if name == "$IfThenElse":
            return join(self.infer(args[1], env), self.infer(args[2], env))
        if name == "$Except":
            f = self.infer(args[0], env)
            for p in args[1:]:
                path, val = m.operands(p)
                t = f
                for step in m.operands(path):
                    if t[0] == "fun":
                        it = self.infer(step, env)
                        if not subtype(it, t[1]): raise Undecided("EXCEPT index %s outside domain %s at %s" % (tstr(it), tstr(t[1]), m.loc(p)))
                        t = t[2]
                    elif t[0] == "rec":
                        fld = step.find("StringValue").text if step.tag == "StringNode" else None
                        if fld is None or fld not in dict(t[1]): raise TypeErr("EXCEPT names the undeclared field %s at %s" % (fld, m.loc(p)))
                        t = dict(t[1])[fld]
                    else:
                        raise Undecided("EXCEPT path through %s at %s" % (tstr(t), m.loc(p)))
                env_at = dict(env); env_at["@"] = t
                vt = self.infer(val, env_at)
                if not subtype(vt, t):
                    raise TypeErr("EXCEPT assigns %s where %s is declared at %s" % (tstr(vt), tstr(t), m.loc(p)))
            return f
        if name == "$Tuple":
            return ("tuple",)
        raise Undecided("builtin %s at %s" % (name, m.loc(n)))

class TypeErr(Exception):
    pass

# ---------------- checks ----------------
class Result:
    def __init__(self):
        self.rules = {}
    def rule(self, name, kind, doc):
        return self.rules.setdefault(name, {"rule": name, "kind": kind, "doc": doc, "obligations": 0, "discharged": 0, "findings": [], "samples": []})
    def ok(self, name, sample):
        r = self.rules[name]; r["obligations"] += 1; r["discharged"] += 1
        if len(r["samples"]) < 4: r["samples"].append(sample)
    def fail(self, name, construct, where, detail):
        r = self.rules[name]; r["obligations"] += 1
        if not any(f["construct"] == construct for f in r["findings"]):
            r["findings"].append({"rule": name, "construct": construct, "where": where, "detail": detail})

def contains_prime(m, n):
    for a in n.iter("OpApplNode"):
        if m.opname(a)[2] == "'": return True
    return False

def check_spec(repo, rel, res):
    path = os.path.join(repo, rel)
    spec = os.path.basename(os.path.dirname(rel)) + "/" + os.path.basename(rel)
    for rn, k, d in [("TLA-TYPE", "TLA-TYPE", "every Init conjunct and every primed assignment reachable from Next is well typed w.r.t. the shapes declared by TypeOK (so TypeOK is inductive for any MaxView and fault sets)"),
                     ("TLA-FAULT", "TLA-GUARD", "\"bad\"/\"dead\" are assigned only under r \\in RMFault / r \\in RMDead on the same r, Init assigns neither, and the ASSUME bounds Cardinality(RMFault \\cup RMDead) by F"),
                     ("TLA-GUARD", "TLA-GUARD", "presence of the quorum guards (threshold M minus at most the action's own contribution) on non-faulty actions that accept/commit, and of the commit lock on non-faulty view-increasing actions"),
                     ("TLA-NEXT", "AGREE", "every action definition that primes a variable is a disjunct of Next; the launch file names invariants that exist")]:
        res.rule(rn, k, d)
    tmp = tempfile.mkdtemp(prefix="tlalint-")
    try:
        shutil.copy(path, tmp)
        p = subprocess.run(["java", "-Djava.io.tmpdir=" + tmp, "-cp", JAR, "tla2sany.xml.XMLExporter", "-o", "-t", os.path.basename(path)], cwd=tmp, stdout=subprocess.PIPE, stderr=subprocess.PIPE)
        if p.returncode != 0 or not p.stdout.strip().startswith(b"<?xml"):
            res.fail("TLA-TYPE", spec + "/parse", rel, "SANY cannot parse/resolve the module: " + (p.stderr.decode()[-300:] or p.stdout.decode()[-300:]))
            return
        root = ET.fromstring(p.stdout)
    finally:
        shutil.rmtree(tmp, ignore_errors=True)
    m = Module(path, root)
    ty = Typer(m)
    # ---- declared shapes from TypeOK
    if "TypeOK" not in m.defs:
        res.fail("TLA-TYPE", spec + "/TypeOK", rel, "TypeOK is not defined")
        return
    tok = m.ents[m.defs["TypeOK"]].find("body")[0]
    conj = m.operands(tok) if m.opname(tok)[2] == "$ConjList" else [tok]
    for cj in conj:
        _, _, op = m.opname(cj)
        a, b = m.operands(cj)
        vname = m.opname(a)[2]
        try:
            st = ty.infer(b, {})
            if op == "\\in": ty.var_types[vname] = ty.elem(st, b)
            elif op == "\\subseteq": ty.var_types[vname] = st
            else: raise Undecided("TypeOK conjunct " + op)
        except (Undecided, TypeErr) as e:
            res.fail("TLA-TYPE", spec + "/TypeOK-shape", m.loc(cj), "cannot read the declared shape: %s" % e)
            return
    variables = [nm for uid, nm in m.decls.items() if m.ents[uid].find("kind") is not None and m.ents[uid].find("kind").text == "3"]
    if not variables:
        variables = [v for v in ("rmState", "msgs", "blockAccepted") if v in ty.var_types]
    for v in variables:
        if v not in ty.var_types:
            res.fail("TLA-TYPE", spec + "/untyped:" + v, rel, "variable %s has no conjunct in TypeOK" % v)
    # ---- walk Init and Next
    ctx = {"spec": spec, "m": m, "ty": ty, "res": res, "reached": set(), "assign": 0}
    if "Init" not in m.defs or "Next" not in m.defs:
        res.fail("TLA-NEXT", spec + "/Init-Next", rel, "Init or Next is not defined")
        return
    # pre-pass: which message kinds are a leader's word for a collected quorum (see leader_types)
    pre = {"spec": spec, "m": m, "ty": ty, "res": Result(), "reached": set(), "assign": 0, "leader_types": set()}
    for rn in res.rules: pre["res"].rule(rn, "", "")
    walk(pre, m.ents[m.defs["Next"]].find("body")[0], {}, [], "Next", init=False)
    ctx["leader_types"] = leader_types(pre)
    walk(ctx, m.ents[m.defs["Init"]].find("body")[0], {}, [], "Init", init=True)
    walk(ctx, m.ents[m.defs["Next"]].find("body")[0], {}, [], "Next", init=False)
    stale_commit_counts(ctx)
    if ctx["assign"] < 15:
        res.fail("TLA-TYPE", spec + "/few-assignments", rel, "only %d assignments found under Next (the walk lost the actions)" % ctx["assign"])
    # ---- TLA-NEXT
    for name, uid in m.defs.items():
        d = m.ents[uid]
        body = d.find("body")[0]
        if name in ("Next", "Init", "Safety", "Spec", "Fairness") or d.find("level").text != "2":
            continue
        if contains_prime(m, body):
            if uid in ctx["reached"]:
                res.ok("TLA-NEXT", "%s: action %s is reachable from Next" % (spec, name))
            else:
                res.fail("TLA-NEXT", spec + "/unlinked:" + name, m.loc(d), "action %s primes a variable but is not a disjunct of Next (its guards and assignments are never used)" % name)
    launch = [f for f in os.listdir(os.path.dirname(path)) if f.endswith(".launch")]
    for lf in launch:
        txt = open(os.path.join(os.path.dirname(path), lf)).read()
        import re
        for inv in re.findall(r'"modelCorrectnessInvariants">(.*?)</listAttribute>', txt, re.S):
            for nm in re.findall(r'value="1?(\w+)"', inv):
                if nm in m.defs: res.ok("TLA-NEXT", "%s: launch invariant %s is defined" % (spec, nm))
                else: res.fail("TLA-NEXT", spec + "/launch:" + nm, lf, "the launch file checks invariant %s, which the module does not define" % nm)
    # ---- ASSUME for the fault bound
    ok_assume = False
    for a in root.iter("AssumeNode"):
        for app in a.iter("OpApplNode"):
            if m.opname(app)[2] in ("\\leq", "=<", "<="):
                l, r = m.operands(app)
                if l.tag == "OpApplNode" and m.opname(l)[2] == "Cardinality" and m.opname(r)[2] == "F":
                    inner = m.operands(l)[0]
                    if inner.tag == "OpApplNode" and m.opname(inner)[2] in ("\\union", "\\cup"):
                        names = sorted(m.opname(x)[2] for x in m.operands(inner))
                        if names == ["RMDead", "RMFault"]:
                            ok_assume = True
    if ok_assume: res.ok("TLA-FAULT", spec + ": ASSUME Cardinality(RMFault \\cup RMDead) <= F")
    else: res.fail("TLA-FAULT", spec + "/assume", rel, "the ASSUME no longer bounds Cardinality(RMFault \\cup RMDead) by F, so bad+dead nodes are not bounded")
    # F and M definitions
    for nm, want in (("F", "(N - 1) \\div 3"), ("M", "N - F")):
        if nm in m.defs:
            txt = flat(m, m.ents[m.defs[nm]].find("body")[0])
            if txt == {"F": "\\div(-(N,1),3)", "M": "-(N,F)"}[nm]:
                res.ok("TLA-GUARD", "%s: %s == %s" % (spec, nm, want))
            else:
                res.fail("TLA-GUARD", spec + "/def:" + nm, rel, "%s is defined as %s, expected %s" % (nm, txt, want))

def flat(m, n, depth=0):
    if n.tag == "NumeralNode": return n.find("IntValue").text
    if n.tag == "StringNode": return '"' + n.find("StringValue").text + '"'
    if n.tag == "LetInNode": return flat(m, n.find("body")[0], depth)
    if n.tag == "OpApplNode":
        kind, uid, nm = m.opname(n)
        args = m.operands(n)
        if not args:
            # LET-bound locals (lower-case, zero arity) are expanded so that guards are matched on their meaning
            if kind == "UserDefinedOpKindRef" and nm[:1].islower() and depth < 3 and m.ents[uid].find("location/filename").text == m.name:
                return flat(m, m.ents[uid].find("body")[0], depth + 1)
            return nm
        return nm + "(" + ",".join(flat(m, a, depth) for a in args) + ")"
    return n.tag

def local_def(m, kind, uid):
    """the definition node of a module-local user-defined operator, else None"""
    if kind != "UserDefinedOpKindRef": return None
    d = m.ents.get(uid)
    if d is None or d.find("location/filename").text != m.name or d.find("body") is None: return None
    return d

def def_params(d):
    return [p.find("FormalParamNodeRef/UID").text for p in (d.find("params") or [])]

def flatx(m, n, sub=None, depth=0):
    """like flat, but module-local operators are expanded (parameters replaced by the arguments' text)"""
    sub = sub or {}
    if n.tag == "NumeralNode": return n.find("IntValue").text
    if n.tag == "StringNode": return '"' + n.find("StringValue").text + '"'
    if n.tag == "LetInNode": return flatx(m, n.find("body")[0], sub, depth)
    if n.tag == "OpApplNode":
        kind, uid, nm = m.opname(n)
        args = m.operands(n)
        if kind == "FormalParamNodeRef" and uid in sub and not args:
            return sub[uid]
        if nm in ("M", "F", "N") and not args:
            return nm     # the quorum constants stay symbolic (their definitions are checked separately)
        d = local_def(m, kind, uid)
        if d is not None and depth < 6 and not contains_prime(m, d.find("body")[0]):
            ps = def_params(d)
            if len(ps) == len(args):
                s2 = dict(sub)
                for pu, a in zip(ps, args): s2[pu] = flatx(m, a, sub, depth)
                return flatx(m, d.find("body")[0], s2, depth + 1)
        if not args: return nm
        if nm == "$SubsetOf" and len(args) == 1:
            # {x \in {y \in D : Q} : P} is {x \in D : Q /\ P}: a filter over a set that is itself a filter (usually a
            # LET-bound name) is read with both conditions
            bs = m.bounds(n)
            if len(bs) == 1 and bs[0][1] is not None:
                dt = flatx(m, bs[0][1], sub, depth)
                if dt.startswith("$SubsetOf(") and dt.endswith(")"):
                    return "$SubsetOf(\\land(%s,%s))" % (dt[len("$SubsetOf("):-1], flatx(m, args[0], sub, depth))
        return nm + "(" + ",".join(flatx(m, a, sub, depth) for a in args) + ")"
    return n.tag

def ev3(m, n, hyp, sub=None, depth=0):
    """three-valued evaluation of a state predicate under hypotheses {term text: string value}: True/False/None"""
    sub = sub or {}
    if n.tag == "LetInNode": return ev3(m, n.find("body")[0], hyp, sub, depth)
    if n.tag != "OpApplNode": return None
    kind, uid, nm = m.opname(n)
    args = m.operands(n)
    if nm in ("$ConjList", "\\land"):
        vs = [ev3(m, a, hyp, sub, depth) for a in args]
        if any(v is False for v in vs): return False
        return True if all(v is True for v in vs) else None
    if nm in ("$DisjList", "\\lor"):
        vs = [ev3(m, a, hyp, sub, depth) for a in args]
        if any(v is True for v in vs): return True
        return False if all(v is False for v in vs) else None
    if nm == "\\lnot" and len(args) == 1:
        v = ev3(m, args[0], hyp, sub, depth)
        return None if v is None else (not v)
    if nm == "$IfThenElse" and len(args) == 3:
        c = ev3(m, args[0], hyp, sub, depth)
        if c is True: return ev3(m, args[1], hyp, sub, depth)
        if c is False: return ev3(m, args[2], hyp, sub, depth)
        a, b = ev3(m, args[1], hyp, sub, depth), ev3(m, args[2], hyp, sub, depth)
        return a if a == b else None
    def strval(x):
        if x.tag == "StringNode": return x.find("StringValue").text
        return hyp.get(flatx(m, x, sub, depth))
    if nm in ("=", "/=", "#") and len(args) == 2:
        a, b = strval(args[0]), strval(args[1])
        if a is None or b is None: return None
        return (a == b) if nm == "=" else (a != b)
    if nm in ("\\in", "\\notin") and len(args) == 2:
        a = strval(args[0])
        st = args[1]
        if a is not None and st.tag == "OpApplNode" and m.opname(st)[2] == "$SetEnumerate":
            elems = [strval(e) for e in m.operands(st)]
            if all(e is not None for e in elems):
                r = a in elems
                return r if nm == "\\in" else (not r)
        return None
    if nm in ("<", ">", "\\leq", "\\geq", "=<", ">=", "<=") and len(args) == 2:
        a, b = evint(m, args[0], hyp, sub, depth), evint(m, args[1], hyp, sub, depth)
        if a is None or b is None: return None
        return {"<": a < b, ">": a > b, "\\leq": a <= b, "=<": a <= b, "<=": a <= b, "\\geq": a >= b, ">=": a >= b}[nm]
    d = local_def(m, kind, uid)
    if d is not None and depth < 4 and not contains_prime(m, d.find("body")[0]):
        ps = def_params(d)
        if len(ps) == len(args):
            s2 = dict(sub)
            for pu, a in zip(ps, args): s2[pu] = flatx(m, a, sub, depth)
            return ev3(m, d.find("body")[0], hyp, s2, depth + 1)
    return None

def evint(m, n, hyp, sub=None, depth=0):
    """value of an integer expression built from numerals, + and -, CASE tables over string tests and module-local
    operators, under the same hypotheses as ev3; None when unknown (e.g. an ordinal table `Stage(type)`)"""
    sub = sub or {}
    if n.tag == "NumeralNode": return int(n.find("IntValue").text)
    if n.tag == "LetInNode": return evint(m, n.find("body")[0], hyp, sub, depth)
    if n.tag != "OpApplNode": return None
    kind, uid, nm = m.opname(n)
    args = m.operands(n)
    if nm in ("+", "-") and len(args) == 2:
        a, b = evint(m, args[0], hyp, sub, depth), evint(m, args[1], hyp, sub, depth)
        if a is None or b is None: return None
        return a + b if nm == "+" else a - b
    if nm == "$Case":
        for arm in args:
            c, v = m.operands(arm)
            if c.tag == "StringNode" and c.find("StringValue").text == "$Other":
                return evint(m, v, hyp, sub, depth)
            t = ev3(m, c, hyp, sub, depth)
            if t is True: return evint(m, v, hyp, sub, depth)
            if t is None: return None
        return None
    if nm == "$IfThenElse" and len(args) == 3:
        c = ev3(m, args[0], hyp, sub, depth)
        if c is True: return evint(m, args[1], hyp, sub, depth)
        if c is False: return evint(m, args[2], hyp, sub, depth)
        return None
    d = local_def(m, kind, uid)
    if d is not None and depth < 4 and nm not in ("M", "F", "N"):
        ps = def_params(d)
        if len(ps) == len(args):
            s2 = dict(sub)
            for pu, a in zip(ps, args): s2[pu] = flatx(m, a, sub, depth)
            return evint(m, d.find("body")[0], hyp, s2, depth + 1)
    return None

def subapps(m, n, sub=None, depth=0):
    """all operator applications below n, looking through module-local operator definitions; yields (node, sub)"""
    sub = sub or {}
    if n.tag == "LetInNode":
        yield from subapps(m, n.find("body")[0], sub, depth); return
    if n.tag != "OpApplNode": return
    yield (n, sub)
    kind, uid, nm = m.opname(n)
    args = m.operands(n)
    for a in args: yield from subapps(m, a, sub, depth)
    d = local_def(m, kind, uid)
    if d is not None and depth < 4 and not contains_prime(m, d.find("body")[0]):
        ps = def_params(d)
        if len(ps) == len(args):
            s2 = dict(sub)
            for pu, a in zip(ps, args): s2[pu] = flatx(m, a, sub, depth)
            yield from subapps(m, d.find("body")[0], s2, depth + 1)


# ---------------- guards as boolean structure (operator-expanding, polarity-normalised) ----------------
FLIP = {"<": "\\geq", "\\geq": "<", ">=": "<", ">": "\\leq", "\\leq": ">", "=<": ">", "<=": ">", "=": "/=", "/=": "=", "#": "=", "\\in": "\\notin", "\\notin": "\\in"}
CANON = {">=": "\\geq", "=<": "\\leq", "<=": "\\leq", "#": "/="}

def enum_strings(m, n, sub=None, depth=0):
    """the string literals of a set expression that is (or is defined as) an enumeration of strings, else None"""
    if n.tag != "OpApplNode": return None
    kind, uid, nm = m.opname(n)
    args = m.operands(n)
    if nm == "$SetEnumerate":
        if all(a.tag == "StringNode" for a in args): return [a.find("StringValue").text for a in args]
        return None
    d = local_def(m, kind, uid)
    if d is not None and not args and depth < 4: return enum_strings(m, d.find("body")[0], sub, depth + 1)
    return None

def worth_expanding(m, d, depth=0):
    """a module-local operator is looked into when a quorum or a bounded quantifier hides in it, directly or in an
    operator it is written with"""
    for a in d.find("body").iter("OpApplNode"):
        kind, uid, nm = m.opname(a)
        if nm in ("Cardinality", "$BoundedExists"): return True
        d2 = local_def(m, kind, uid)
        if d2 is not None and d2 is not d and depth < 4 and worth_expanding(m, d2, depth + 1): return True
    return False

def nnf(m, n, pol=True, sub=None, depth=0):
    """('and'|'or', [children]) | ('atom', op, left text, right text, whole text, positive?)"""
    sub = sub or {}
    if n.tag == "LetInNode": return nnf(m, n.find("body")[0], pol, sub, depth)
    def atom():
        return ("atom", None, None, None, flatx(m, n, sub, depth), pol)
    if n.tag != "OpApplNode": return atom()
    kind, uid, nm = m.opname(n)
    args = m.operands(n)
    if nm in ("$ConjList", "\\land"):
        return ("and" if pol else "or", [nnf(m, a, pol, sub, depth) for a in args])
    if nm in ("$DisjList", "\\lor"):
        return ("or" if pol else "and", [nnf(m, a, pol, sub, depth) for a in args])
    if nm == "\\lnot" and len(args) == 1:
        return nnf(m, args[0], not pol, sub, depth)
    if nm == "=>" and len(args) == 2:
        return ("or" if pol else "and", [nnf(m, args[0], not pol, sub, depth), nnf(m, args[1], pol, sub, depth)])
    if nm == "$IfThenElse" and len(args) == 3:
        a = ("and", [nnf(m, args[0], True, sub, depth), nnf(m, args[1], pol, sub, depth)])
        b = ("and", [nnf(m, args[0], False, sub, depth), nnf(m, args[2], pol, sub, depth)])
        return ("or", [a, b]) if pol else ("and", [("or", [nnf(m, args[0], False, sub, depth), nnf(m, args[1], pol, sub, depth)]), ("or", [nnf(m, args[0], True, sub, depth), nnf(m, args[2], pol, sub, depth)])])
    if nm == "$BoundedExists" and pol:
        bs = m.bounds(n)
        if len(bs) == 1 and len(bs[0][0]) == 1 and bs[0][1] is not None:
            lits = enum_strings(m, bs[0][1], sub)
            if lits is not None:
                out = []
                for l in lits:
                    s2 = dict(sub); s2[bs[0][0][0]] = '"' + l + '"'
                    out.append(nnf(m, args[0], True, s2, depth))
                return ("or", out)
        return nnf(m, args[0], True, sub, depth)    # the witness is left free: the structure below is what matters
    if nm in FLIP and len(args) == 2:
        op = nm if pol else FLIP[nm]
        op = CANON.get(op, op)
        l, r = flatx(m, args[0], sub, depth), flatx(m, args[1], sub, depth)
        return ("atom", op, l, r, "%s(%s,%s)" % (op, l, r), True)
    d = local_def(m, kind, uid)
    if d is not None and depth < 6 and not contains_prime(m, d.find("body")[0]) and worth_expanding(m, d):
        ps = def_params(d)
        if len(ps) == len(args):
            s2 = dict(sub)
            for pu, a in zip(ps, args): s2[pu] = flatx(m, a, sub, depth)
            return nnf(m, d.find("body")[0], pol, s2, depth + 1)
    return atom()

def dnf(t, cap=4000):
    """list of clauses (lists of atoms); raises Undecided when it explodes"""
    if t[0] == "atom": return [[t]]
    if t[0] == "or":
        out = []
        for c in t[1]: out += dnf(c, cap)
        if len(out) > cap: raise Undecided("guard has too many alternatives")
        return out
    out = [[]]
    for c in t[1]:
        cs = dnf(c, cap)
        out = [a + b for a in out for b in cs]
        if len(out) > cap: raise Undecided("guard has too many alternatives")
    return out

def affine_text(t):
    """(c, kM, kF) for a threshold written with M, F, numerals, + and - (prefix text as produced by flat), else None"""
    t = t.strip()
    if t.isdigit(): return (int(t), 0, 0)
    if t == "M": return (0, 1, 0)
    if t == "F": return (0, 0, 1)
    for op, sgn in (("+(", 1), ("-(", -1)):
        if t.startswith(op) and t.endswith(")"):
            inner = t[len(op):-1]
            lvl = 0
            for i, ch in enumerate(inner):
                if ch == "(": lvl += 1
                elif ch == ")": lvl -= 1
                elif ch == "," and lvl == 0:
                    a, b = affine_text(inner[:i]), affine_text(inner[i + 1:])
                    if a is None or b is None: return None
                    return (a[0] + sgn * b[0], a[1] + sgn * b[1], a[2] + sgn * b[2])
    return None

def quorum_atom(at, want):
    """is the atom `Cardinality(S) >= M - k` (k = 0..2, own contribution) with S mentioning a message kind accepted by
    `want` (a predicate on the set text)? returns k or None"""
    if at[0] != "atom" or at[1] is None: return None
    op, l, r = at[1], at[2], at[3]
    if op == "\\leq" and r.startswith("Cardinality("): op, l, r = "\\geq", r, l
    if op == ">" and l.startswith("Cardinality("):
        a = affine_text(r)
        if a is None: return None
        op, thr = "\\geq", (a[0] + 1, a[1], a[2])
    elif op == "\\geq" and l.startswith("Cardinality("):
        thr = affine_text(r)
        if thr is None: return None
    else:
        return None
    if not want(l): return None
    if thr[1] != 1 or thr[2] != 0 or not (-2 <= thr[0] <= 0): return None
    if "msgs" in l and "pool" not in l and thr[0] != 0: return None   # counted over the global message set: nothing is the node's own contribution
    return -thr[0]

def lin_over_M(m, n):
    """affine form c + k*M of a threshold expression, or None"""
    if n.tag == "NumeralNode": return (int(n.find("IntValue").text), 0)
    if n.tag != "OpApplNode": return None
    _, _, nm = m.opname(n)
    args = m.operands(n)
    if nm == "M" and not args: return (0, 1)
    if nm in ("+", "-") and len(args) == 2:
        a, b = lin_over_M(m, args[0]), lin_over_M(m, args[1])
        if a is None or b is None: return None
        s = 1 if nm == "+" else -1
        return (a[0] + s * b[0], a[1] + s * b[1])
    return None

def walk(ctx, n, env, guards, action, init):
    """guards: list of (node, polarity) conjuncts in force"""
    m, ty, res, spec = ctx["m"], ctx["ty"], ctx["res"], ctx["spec"]
    if n.tag == "LetInNode":
        env2 = dict(env)
        for d in n.find("opDefs"):
            uid = d.find("UID").text
            env2[uid] = ("thunk", uid, env2)
        return walk(ctx, n.find("body")[0], env2, guards, action, init)
    if n.tag != "OpApplNode":
        return
    kind, uid, name = m.opname(n)
    args = m.operands(n)
    if name in ("$ConjList", "\\land"):
        # conjuncts guard each other
        g2 = guards + [(a, True) for a in args if not contains_prime(m, a) or True]
        for a in args:
            walk(ctx, a, env, [g for g in g2 if g[0] is not a], action, init)
        return
    if name in ("$DisjList", "\\lor"):
        for a in args: walk(ctx, a, env, guards, action, init)
        return
    if name == "$BoundedExists":
        env2 = dict(env)
        for uids, dom in m.bounds(n):
            try:
                et = ty.elem(ty.infer(dom, env), dom)
            except (Undecided, TypeErr) as e:
                res.fail("TLA-TYPE", spec + "/" + action + "/bound", m.loc(n), "cannot type the bound domain: %s" % e)
                return
            for u in uids: env2[u] = et
        return walk(ctx, args[0], env2, guards, action, init)
    if name == "$IfThenElse":
        walk(ctx, args[1], env, guards + [(args[0], True)], action, init)
        walk(ctx, args[2], env, guards + [(args[0], False)], action, init)
        return
    if name == "$Case":
        # CASE p1 -> e1 [] ... [] OTHER -> e: an arm is taken under its own condition, OTHER under none of the others
        conds = []
        for arm in args:
            c, v = m.operands(arm)
            if c.tag == "StringNode" and c.find("StringValue").text == "$Other":
                walk(ctx, v, env, guards + [(x, False) for x in conds], action, init)
            else:
                conds.append(c)
                walk(ctx, v, env, guards + [(c, True)], action, init)
        return
    if kind == "UserDefinedOpKindRef" and m.ents[uid].find("location/filename").text == m.name and (contains_prime(m, m.ents[uid].find("body")[0]) or m.ents[uid].find("level").text == "2"):
        d = m.ents[uid]
        ctx["reached"].add(uid)
        params = [p.find("FormalParamNodeRef/UID").text for p in (d.find("params") or [])]
        env2 = dict(env)
        for p, a in zip(params, args):
            try: env2[p] = ty.infer(a, env)
            except (Undecided, TypeErr) as e:
                res.fail("TLA-TYPE", spec + "/" + name + "/arg", m.loc(n), str(e)); return
        # what the action's parameters stand for (a parametrised action instantiated with a literal: its guards are read
        # with the literal in place)
        saved = ctx.get("psub", {})
        ps2 = dict(saved)
        for p, a in zip(params, args):
            t = flatx(m, a, saved)
            if t != m.ents[p].find("uniquename").text if p in m.ents and m.ents[p].find("uniquename") is not None else True:
                ps2[p] = t
        ctx["psub"] = ps2
        try:
            return walk(ctx, d.find("body")[0], env2, guards, name, init)
        finally:
            ctx["psub"] = saved
    if name == "UNCHANGED":
        return
    if name in ("=", "\\in") and len(args) == 2:
        lhs, rhs = args
        target = None
        if lhs.tag == "OpApplNode":
            _, _, ln = m.opname(lhs)
            if ln == "'":
                target = m.opname(m.operands(lhs)[0])[2]
            elif init and m.opname(lhs)[0] == "OpDeclNodeRef" and ln in ty.var_types:
                target = ln
        if target is not None:
            ctx["assign"] += 1
            where = m.loc(n)
            try:
                vt = ty.infer(rhs, env)
                if name == "\\in": vt = ty.elem(vt, rhs)
                dt = ty.var_types.get(target)
                if dt is None:
                    res.fail("TLA-TYPE", spec + "/" + action + "/untyped-target:" + target, where, "assignment to %s, which TypeOK does not constrain" % target)
                elif subtype(vt, dt):
                    res.ok("TLA-TYPE", "%s %s: %s' : %s" % (spec, action, target, tstr(vt)))
                else:
                    res.fail("TLA-TYPE", spec + "/" + action + "/" + target, where, "%s' gets type %s, declared %s: TypeOK is not preserved" % (target, tstr(vt), tstr(dt)))
            except TypeErr as e:
                res.fail("TLA-TYPE", spec + "/" + action + "/" + target, where, str(e))
            except Undecided as e:
                res.fail("TLA-TYPE", spec + "/" + action + "/undecided:" + target, where, "UNDECIDED: %s" % e)
            if target == "rmState":
                guard_rules(ctx, rhs, env, guards, action, init, where)
            if target == "msgs" and not init:
                ctx.setdefault("sends", []).append((rhs, env, list(guards), dict(ctx.get("psub") or {}), action))
            return
    if contains_prime(m, n):
        res.fail("TLA-TYPE", spec + "/" + action + "/undecided-shape", m.loc(n), "UNDECIDED: primed expression outside the supported fragment (%s)" % name)

def type_literals(ctx, rhs, env):
    """string literals that the .type field of some entry may receive in this assignment, with the index expr"""
    m, ty = ctx["m"], ctx["ty"]
    out = []
    if rhs.tag == "OpApplNode" and m.opname(rhs)[2] == "$Except":
        for p in m.operands(rhs)[1:]:
            path, val = m.operands(p)
            steps = m.operands(path)
            fld = steps[1].find("StringValue").text if len(steps) > 1 and steps[1].tag == "StringNode" else None
            try: vt = ty.infer(val, env)
            except Exception: continue
            if fld == "type" and vt[0] == "str":
                out.append((steps[0], set(vt[1]), "type"))
            elif fld == "view":
                out.append((steps[0], val, "view"))
            elif fld is None and vt[0] == "rec":
                d = dict(vt[1])
                if "type" in d and d["type"][0] == "str": out.append((steps[0], set(d["type"][1]), "type"))
    elif rhs.tag == "OpApplNode" and m.opname(rhs)[2] == "$FcnConstructor":
        try:
            vt = ty.infer(rhs, env)
            d = dict(vt[2][1])
            out.append((None, set(d["type"][1]), "type"))
        except Exception:
            pass
    return out

def guard_texts(ctx, guards):
    m = ctx["m"]
    return [(flat(m, g), pol) for g, pol in guards]

def expand_guards(ctx, guards, env):
    """flatten nested conjunctions in guards (positive polarity only)"""
    m = ctx["m"]
    out = []
    work = list(guards)
    while work:
        g, pol = work.pop()
        if g.tag == "OpApplNode" and pol and m.opname(g)[2] in ("$ConjList", "\\land"):
            work += [(a, True) for a in m.operands(g)]
        elif g.tag == "OpApplNode" and (not pol) and m.opname(g)[2] in ("$DisjList", "\\lor"):
            work += [(a, False) for a in m.operands(g)]
        elif g.tag == "OpApplNode" and pol and m.opname(g)[2] == "\\lnot":
            work.append((m.operands(g)[0], False))
        else:
            out.append((g, pol))
    return out

CVKIND = lambda body: len(set(re.findall(r'"(ChangeView\w*)"', body))) == 1

def leader_types(ctx):
    """message kinds that stand for a collected view-change quorum: every action that sends one does so, in every
    alternative of its guard, behind M ChangeView messages of one stage (a faulty node's sends count too: a kind that a
    faulty node may send unguarded proves nothing to its receiver)"""
    m, ty = ctx["m"], ctx["ty"]
    guarded, unguarded = set(), set()
    for rhs, env, guards, psub, action in ctx.get("sends", []):
        kinds, unknown = set(), False
        enums = [n for n in rhs.iter("OpApplNode") if m.opname(n)[2] == "$SetEnumerate"]
        if not enums: unknown = True
        for n in enums:
            for el in m.operands(n):
                try:
                    vt = ty.infer(el, env)
                    d = dict(vt[1]) if vt[0] == "rec" else {}
                    if "type" in d and d["type"][0] == "str": kinds |= set(d["type"][1])
                    else: unknown = True
                except Exception:
                    unknown = True
        if unknown:
            ctx["unknown_send"] = True
            continue
        try:
            clauses = dnf(("and", [nnf(m, g, pol, psub) for g, pol in guards]))
            ok = bool(clauses) and all(any(quorum_atom(a, CVKIND) in (0, 1) for a in cl) for cl in clauses)
        except Undecided:
            ok = False
        (guarded if ok else unguarded).update(kinds)
    if ctx.get("unknown_send"): return set()
    return {k for k in guarded - unguarded if not k.startswith("ChangeView")}

def stale_commit_counts(ctx):
    """A threshold (M- or F-based) over Commit messages of any view is sound only where a node that has committed
    never changes its view: then all Commits of a node are of one view and the count is a count of nodes. In a spec
    without that lock (none declared, or declared and reported as not holding) a committed node moves on and leaves a
    stale Commit behind, which such a count adds to fresh ones."""
    res, spec = ctx["res"], ctx["spec"]
    locked = "commitSent" in SPEC_LOCKS.get(spec, []) and not any("/view-lock:" in f["construct"] and f["construct"].startswith(spec + "/") for f in res.rules["TLA-GUARD"]["findings"])
    for action, (where, text) in sorted(ctx.get("anyview", {}).items()):
        if locked:
            res.ok("TLA-GUARD", "%s %s: a threshold over Commit messages of any view, in a spec whose commit lock holds (a node's Commits are all of one view)" % (spec, action))
        else:
            res.fail("TLA-GUARD", spec + "/" + action + "/any-view-commit-count", where, "a threshold over Commit messages that is not restricted to the node's current view (%s) in a spec where a node that has committed can still change its view: a stale Commit of an earlier view is counted together with fresh ones" % text[:160])

def guard_rules(ctx, rhs, env, guards, action, init, where):
    m, res, spec = ctx["m"], ctx["res"], ctx["spec"]
    gs = expand_guards(ctx, guards, env)
    gtxt = [(flat(m, g), pol) for g, pol in gs]
    faulty = any(t.endswith('"type"),"bad")') and t.startswith("=(") and pol for t, pol in gtxt)
    allg = " && ".join(("" if pol else "NOT ") + t for t, pol in [(flat(m, g), p) for g, p in guards])
    if not init and not faulty:
        # thresholds over Commit messages of ANY view (see stale_commit_counts)
        try:
            for cl in dnf(("and", [nnf(m, g, pol, ctx.get("psub")) for g, pol in guards])):
                for a in cl:
                    if a[0] != "atom" or a[1] is None: continue
                    side = a[2] if a[2].startswith("Cardinality(") else a[3] if a[3].startswith("Cardinality(") else None
                    thr = a[3] if side is a[2] else a[2]
                    if side is None or '"Commit"' not in side or '"view")' in side: continue
                    af = affine_text(thr)
                    if af is None or (af[1] == 0 and af[2] == 0): continue      # compared with a number: "has / has not sent", not a quorum
                    ctx.setdefault("anyview", {}).setdefault(action, (where, a[4]))
        except Undecided:
            pass
    for idx, lits, what in type_literals(ctx, rhs, env):
        if what == "type":
            for lit, setname in (("bad", "RMFault"), ("dead", "RMDead")):
                if lit in lits:
                    if init:
                        res.fail("TLA-FAULT", spec + "/Init/" + lit, where, "Init puts a node into state %s" % lit)
                        continue
                    it = flat(m, idx) if idx is not None else "?"
                    want = "\\in(%s,%s)" % (it, setname)
                    if any(t == want and pol for t, pol in gtxt) and lits == {lit}:
                        res.ok("TLA-FAULT", "%s %s: \"%s\" assigned only under %s" % (spec, action, lit, want))
                    else:
                        res.fail("TLA-FAULT", spec + "/" + action + "/" + lit, where, "state \"%s\" can be assigned without the guard %s on the same node" % (lit, want))
            if init: continue
            # quorum guards on accepting / committing transitions of non-faulty nodes: in every alternative of the guard
            # in force (disjunctions, IF branches, helper operators and bounded quantifiers over literal sets expanded)
            for lit, kinds in (("blockAccepted", ("Commit", "CommitAck")), ("commitSent", ("PrepareResponse", "PrepareRequest")), ("commitAckSent", ("Commit",))):
                if lit in lits and not faulty:
                    try:
                        clauses = dnf(("and", [nnf(m, g, pol, ctx.get("psub")) for g, pol in guards]))
                    except Undecided as e:
                        res.fail("TLA-GUARD", spec + "/" + action + "/quorum:" + lit, where, "UNDECIDED: %s" % e); continue
                    # the messages counted are those of the node's current view (a quorum assembled from several views is
                    # not a quorum for any block)
                    want = lambda body: any('"%s"' % k in body for k in kinds) and '"view")' in body and "rmState" in body
                    bad, ks = None, set()
                    for cl in clauses:
                        if lit == "blockAccepted" and any(a[5] and a[4].startswith("=($RcdSelect($FcnApply(rmState,") and a[4].endswith('"type"),"blockAccepted")') for a in cl):
                            ks.add("adopted"); continue
                        k = [quorum_atom(a, want) for a in cl]
                        k = [x for x in k if x is not None]
                        if k: ks.add(min(k))
                        else: bad = cl
                    if bad is None and clauses:
                        res.ok("TLA-GUARD", "%s %s: \"%s\" behind a %s quorum of M in each of %d alternatives (own contribution %s)" % (spec, action, lit, "/".join(kinds), len(clauses), sorted(map(str, ks))))
                    else:
                        res.fail("TLA-GUARD", spec + "/" + action + "/quorum:" + lit, where, "transition to \"%s\" of a non-faulty node is not guarded by Cardinality({... %s ...}) >= M (minus at most its own contribution) in the alternative {%s}" % (lit, "/".join(kinds), " ; ".join(a[4][:70] for a in (bad or []))))
        elif what == "view" and not init and not faulty:
            vtxt = flat(m, lits)
            if "GetNewView" not in vtxt and "targetView" not in vtxt and "+" not in vtxt:
                continue   # adopting another node's view together with its accepted block
            # a non-faulty node increases its view. Whatever the action is called and however its guard is written
            # (helper operators, IF, bounded quantifiers over literal sets are expanded), in EVERY alternative of the guard
            # the step rests on M change-view messages of some stage (minus the node's own) or on the leader's
            # DoChangeView message; and in the states the spec locks (per spec, below) the guard evaluates to false.
            try:
                clauses = dnf(("and", [nnf(m, g, pol, ctx.get("psub")) for g, pol in guards]))
            except Undecided as e:
                res.fail("TLA-GUARD", spec + "/" + action + "/view-guard", where, "UNDECIDED: %s" % e); continue
            # ... of ONE stage: a quorum mixed from several kinds of ChangeView message excludes nothing
            wantcv = CVKIND
            missing = []
            for cl in clauses:
                if any(quorum_atom(a, wantcv) in (0, 1) for a in cl): continue
                if any(a[5] and any('"%s"' % L in a[4] for L in ctx.get("leader_types", ())) for a in cl): continue
                missing.append("no M-quorum of ChangeView messages (nor a message kind that only a leader holding such a quorum sends: %s) in the alternative {%s}" % (sorted(ctx.get("leader_types", ())) or "none in this spec", " ; ".join(a[4][:60] for a in cl)))
                break
            it = flat(m, idx) if idx is not None else "r"
            hypkey = '$RcdSelect($FcnApply(rmState,%s),"type")' % it
            conj = [g for g, pol in guards if pol]
            locks = []
            for state in SPEC_LOCKS.get(spec, []):
                if not any(ev3(m, g, {hypkey: state}) is False for g in conj):
                    locks.append((state, "lock: the action is enabled for a node in state %s" % state))
            if spec in OWN_COMMIT_LOCK:
                def nocommit(a):
                    return a[1] in ("\\leq", "=", "<") and a[2].startswith("Cardinality(") and '"Commit"' in a[2] and a[3] in ("0", "1") and not (a[1] == "<" and a[3] == "0") and not (a[1] == "\\leq" and a[3] == "1") and not (a[1] == "=" and a[3] == "1")
                if not any(nocommit(a) for cl in clauses for a in cl):
                    missing.append("commit lock: no alternative requires that the node has not sent its own Commit")
                else:
                    # ... and EVERY alternative does: a lock that binds the backups only lets a primary that has committed
                    # change its view and commit again
                    for cl in clauses:
                        if not any(nocommit(a) for a in cl):
                            locks.append(("own-commit", "commit lock: the alternative {%s} does not require that the node has not sent its own Commit" % " ; ".join(a[4][:60] for a in cl)))
                            break
            if not missing and not locks: res.ok("TLA-GUARD", "%s %s: view increase rests on a ChangeView quorum / the leader's message in each of %d alternatives; locks %s" % (spec, action, len(clauses), SPEC_LOCKS.get(spec, [])))
            if missing: res.fail("TLA-GUARD", spec + "/" + action + "/view-guard", where, "view-increasing action lost its guard: " + "; ".join(missing))
            # each lock is a finding of its own (so that a recorded finding about one never hides the loss of another guard)
            for key, text in locks:
                res.fail("TLA-GUARD", spec + "/" + action + "/view-lock:" + key, where, "a node that has committed can still increase its view: " + text)

# states in which a node must not change its view, per spec (confirmed by reading each spec: the two dBFT 2.1 drafts
# deliberately have no commit lock — stage III "gives the ability to escape from the commit phase" — the multipool model
# expresses its lock through the node's own Commit message in its pool)
SPEC_LOCKS = {
    "dbft/dbft.tla": ["commitSent"],
    "dbft_antiMEV/dbft.tla": ["commitSent", "commitAckSent"],
    "dbft2.1_threeStagedCV/dbftCV3.tla": ["blockAccepted", "commitSent"],
}
OWN_COMMIT_LOCK = {"dbftMultipool/dbftMultipool.tla"}

def main():
    ap = argparse.ArgumentParser()
    ap.add_argument("--repo", default="/repo"); ap.add_argument("--tier", default="quick")
    ap.add_argument("--evidence", default=""); ap.add_argument("--known", default="")
    a = ap.parse_args()
    start = time.time()
    res = Result()
    for rel in SPECS:
        if not os.path.exists(os.path.join(a.repo, rel)):
            res.rule("TLA-NEXT", "AGREE", ""); res.fail("TLA-NEXT", rel + "/missing", rel, "specification file is missing")
            continue
        try:
            check_spec(a.repo, rel, res)
        except Exception as e:
            res.rule("TLA-TYPE", "TLA-TYPE", ""); res.fail("TLA-TYPE", rel + "/engine", rel, "analyser error: %r" % e)
    known = {"findings": []}
    if a.known and os.path.exists(a.known): known = json.load(open(a.known))
    def is_known(f): return any(k["property"] == "C20" and k["rule"] == f["rule"] and k["construct"] == f["construct"] for k in known.get("findings", []))
    newf, knownf, obl, dis, samples = [], [], 0, 0, []
    for r in res.rules.values():
        obl += r["obligations"]; dis += r["discharged"]
        print("  [C20] %-12s %-10s obligations=%d discharged=%d  %s" % (r["rule"], r["kind"], r["obligations"], r["discharged"], "ok" if not r["findings"] else "%d FINDING(S)" % len(r["findings"])))
        for s in r["samples"]: samples.append({"rule": r["rule"], "obligation": s})
        for f in r["findings"]: (knownf if is_known(f) else newf).append(f)
    for f in knownf: print("KNOWN-FINDING: property=C20 %s %s (%s) %s" % (f["rule"], f["construct"], f["where"], f["detail"][:300]))
    ev = {"property_id": "C20", "tier": a.tier, "seed": 0, "level": "other", "wall_s": time.time() - start, "violations": len(newf),
          "assumptions": ["T1 a CHOOSE is applied to a set in which a witness exists (TLC aborts otherwise)", "RM is a set of naturals, MaxView a natural (the specs' ASSUME)", "tla2sany resolves the modules as TLC would"],
          "coverage": {"explanation": "Syntactic type inference over the SANY semantic tree of the five shipped specs: the shapes declared by TypeOK are read off its conjuncts, every Init conjunct and every primed assignment reachable from Next is typed (records, EXCEPT paths, set unions, LET/CHOOSE/IF, operator expansion) and must be a subtype of the declared shape, which makes TypeOK inductive for every MaxView and every fault set; InvFaultNodesCount follows from the membership guards on bad/dead plus the ASSUME; for the no-fork invariant only the presence of the quorum guards (M minus the action's own contribution) and of the commit lock is checked. InvTwoBlocksAccepted itself, InvDeadlock and liveness are reachability facts and are NOT decided.",
                       "obligations": obl, "discharged": dis, "evaluations": max(obl, 1), "distinct_nontrivial": len([r for r in res.rules.values() if r["obligations"]]),
                       "rule": "one obligation per assignment / guard / action / invariant name", "samples": samples[:30] or ["none"], "rules": list(res.rules.values()),
                       "units": {"specs": SPECS}, "new_findings": newf, "known_findings": knownf,
                       "checker_cmd": "bin/check C20 --tier " + a.tier, "trusted_base": ["tla2sany (parser/semantic analyser of tla2tools.jar)", "the typing rules in /verif/tla/tlalint.py"]}}
    if a.evidence:
        os.makedirs(os.path.dirname(a.evidence), exist_ok=True)
        json.dump(ev, open(a.evidence, "w"), indent=1)
    if newf:
        vp = (a.evidence[:-5] if a.evidence.endswith(".json") else "/tmp/C20") + ".violation.json"
        json.dump({"property": "C20", "findings": newf}, open(vp, "w"), indent=1)
        for f in newf: print("FINDING property=C20 rule=%s construct=%s at %s: %s" % (f["rule"], f["construct"], f["where"], f["detail"][:500]))
        print("VIOLATION property=C20 replay=%s" % vp)
        return 1
    print("OK property=C20 tier=%s rules=%d obligations=%d discharged=%d known_findings=%d" % (a.tier, len(res.rules), obl, dis, len(knownf)))
    return 0

if __name__ == "__main__":
    sys.exit(main())
