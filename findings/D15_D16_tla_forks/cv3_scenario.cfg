\* unmodified dbftCV3, one faulty node, search pruned to the messages of one scenario
CONSTANTS
  RM = {0, 1, 2, 3}
  RMFault = {3}
  RMDead = {}
  MaxView = 1
INIT Init
NEXT Next
CONSTRAINT ScenarioConstraint
INVARIANTS
  TypeOK
  InvTwoBlocksAccepted
  InvFaultNodesCount
