\* unmodified dbftCV3, one faulty node, the shipped constraint only (about 2 min, 12 workers)
CONSTANTS
  RM = {0, 1, 2, 3}
  RMFault = {3}
  RMDead = {}
  MaxView = 1
INIT Init
NEXT Next
CONSTRAINT MaxViewConstraint
INVARIANTS
  TypeOK
  InvTwoBlocksAccepted
  InvFaultNodesCount
