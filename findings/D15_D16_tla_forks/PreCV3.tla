------------------------------ MODULE PreCV3 ------------------------------
EXTENDS dbftCV3

m(t, r, v) == [type |-> t, rm |-> r, view |-> v]

Scenario == { m("PrepareRequest", 0, 0), m("PrepareResponse", 1, 0), m("PrepareResponse", 2, 0),
              m("ChangeView1", 3, 0), m("Commit", 0, 0),
              m("ChangeView2", 1, 0), m("ChangeView2", 2, 0), m("ChangeView2", 3, 0),
              m("Commit", 3, 0), m("Commit", 1, 0),
              m("PrepareRequest", 1, 1), m("PrepareResponse", 2, 1), m("PrepareResponse", 3, 1),
              m("Commit", 1, 1), m("Commit", 2, 1), m("Commit", 3, 1) }

ScenarioConstraint == MaxViewConstraint /\ msgs \subseteq Scenario
=============================================================================
