\* unmodified dbftMultipool, one faulty node, two views, search pruned to one scenario
CONSTANTS
  RM = {0, 1, 2, 3}
  RMFault = {0}
  RMDead = {}
  MaxView = 2
  MaxUndeliveredMessages = 20
INIT Init
NEXT Next
CONSTRAINT ScenarioConstraint
INVARIANTS
  TypeOK
  InvTwoBlocksAccepted
  InvFaultNodesCount
