------------------------------ MODULE PreMP ------------------------------
EXTENDS dbftMultipool

m(t, r, v) == [type |-> t, rm |-> r, view |-> v]

Scenario == { m("PrepareRequest", 1, 1), m("PrepareResponse", 3, 1), m("PrepareResponse", 0, 1),
              m("ChangeView", 0, 1), m("Commit", 0, 1), m("ChangeView", 2, 1),
              m("Commit", 1, 1), m("Commit", 3, 1), m("ChangeView", 1, 1),
              m("PrepareRequest", 2, 2), m("PrepareResponse", 0, 2), m("Commit", 0, 2),
              m("PrepareResponse", 1, 2), m("Commit", 1, 2), m("Commit", 2, 2) }

Pool(r) == CASE r = 0 -> {}
            [] r = 1 -> { m("PrepareRequest", 1, 1), m("ChangeView", 2, 1), m("ChangeView", 0, 1),
                          m("PrepareResponse", 3, 1), m("PrepareResponse", 0, 1), m("Commit", 1, 1),
                          m("ChangeView", 1, 1), m("PrepareResponse", 0, 2), m("PrepareRequest", 2, 2),
                          m("PrepareResponse", 1, 2), m("Commit", 1, 2) }
            [] r = 2 -> { m("ChangeView", 2, 1), m("ChangeView", 0, 1), m("ChangeView", 1, 1),
                          m("PrepareRequest", 2, 2), m("PrepareResponse", 1, 2), m("PrepareResponse", 0, 2),
                          m("Commit", 2, 2), m("Commit", 1, 2), m("Commit", 0, 2) }
            [] r = 3 -> { m("PrepareRequest", 1, 1), m("PrepareResponse", 3, 1), m("PrepareResponse", 0, 1),
                          m("Commit", 3, 1), m("Commit", 1, 1), m("Commit", 0, 1) }

ScenarioConstraint == /\ MaxViewConstraint
                      /\ msgs \subseteq Scenario
                      /\ \A r \in RM : rmState[r].pool \subseteq Pool(r)
=============================================================================
