#!/bin/sh
# repro.sh <repo-root> [full]
# Runs TLC on the UNMODIFIED dbftCV3.tla and dbftMultipool.tla with one permitted faulty
# node. Exit 1 if an invariant violation is reported (expected), 0 otherwise.
# "full" additionally runs dbftCV3 with nothing but the shipped MaxViewConstraint (~2-4 min).
set -u
ROOT=${1:?usage: repro.sh <repo-root> [full]}
HERE=$(cd "$(dirname "$0")" && pwd)
T=$(mktemp -d "${TMPDIR:-/tmp}/c20r4-pre.XXXXXX") || exit 2
trap 'rm -rf "$T"' EXIT INT TERM
mkdir "$T/tmp"
cp "$ROOT/formal-models/dbft2.1_threeStagedCV/dbftCV3.tla" "$ROOT/formal-models/dbftMultipool/dbftMultipool.tla" "$T/" || exit 2
cp "$HERE"/*.tla "$HERE"/*.cfg "$T/"
cd "$T" || exit 2
status=0
run() { # module cfg
    echo "=== $1 with $2"
    timeout 290 java -XX:+UseParallelGC -Djava.io.tmpdir="$T/tmp" -cp /opt/veriftools/tla/tla2tools.jar tlc2.TLC \
        -workers "${TLC_WORKERS:-8}" -deadlock -noGenerateSpecTE -metadir "$T/states.$2" -config "$2" "$1.tla" > out.txt 2>&1
    grep -E "Invariant .* is violated|^State [0-9]+:|states generated, |Model checking completed" out.txt
    grep -q "Invariant .* is violated" out.txt && status=1
}
run PreCV3 cv3_scenario.cfg
run PreMP mp_scenario.cfg
[ "${2:-}" = full ] && run dbftCV3 cv3_full.cfg
exit $status
